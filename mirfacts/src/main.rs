//! mirfacts — a rustc_private driver that dumps a fact base (JSON) of the type-checked,
//! drop-elaborated MIR of every local body of the crate being compiled.
//!
//! Injected with RUSTC_WORKSPACE_WRAPPER under `cargo +nightly check`; cargo passes
//! `<wrapper> <rustc> <args..>`, so argv[1] is dropped.  One output file per rustc process:
//! `$MIRFACTS_OUT/<crate>-<pid>.json`.
#![feature(rustc_private)]
#![feature(box_patterns)]

extern crate rustc_abi;
extern crate rustc_driver;
extern crate rustc_hir;
extern crate rustc_interface;
extern crate rustc_middle;
extern crate rustc_span;

use std::collections::HashMap;
use std::fmt::Write as _;

use rustc_driver::{run_compiler, Callbacks, Compilation};
use rustc_hir::def::DefKind;
use rustc_hir::def_id::{DefId, LocalDefId};
use rustc_interface::interface::Compiler;
use rustc_middle::mir::{
    self, AggregateKind, BasicBlockData, Body, CastKind, ConstValue, Operand, Place,
    ProjectionElem, Rvalue, StatementKind, TerminatorKind, UnwindAction,
};
use rustc_middle::ty::print::{with_no_trimmed_paths, with_no_visible_paths, with_resolve_crate_name};
use rustc_middle::ty::{self, GenericArgsRef, Instance, Ty, TyCtxt, TyKind, TypingEnv};
use rustc_span::Span;

struct Cb;

impl Callbacks for Cb {
    fn after_analysis<'tcx>(&mut self, _c: &Compiler, tcx: TyCtxt<'tcx>) -> Compilation {
        if let Ok(dir) = std::env::var("MIRFACTS_OUT") {
            dump(tcx, &dir);
        }
        Compilation::Continue
    }
}

fn main() {
    let mut args: Vec<String> = std::env::args().collect();
    if args.len() > 1 && (args[1].ends_with("rustc") || args[1].contains("rustc")) {
        args.remove(1);
    }
    run_compiler(&args, &mut Cb);
}

// ------------------------------------------------------------------------------------------------
// tiny JSON writer

fn jstr(out: &mut String, s: &str) {
    out.push('"');
    for c in s.chars() {
        match c {
            '"' => out.push_str("\\\""),
            '\\' => out.push_str("\\\\"),
            '\n' => out.push_str("\\n"),
            '\r' => out.push_str("\\r"),
            '\t' => out.push_str("\\t"),
            c if (c as u32) < 0x20 => {
                let _ = write!(out, "\\u{:04x}", c as u32);
            }
            c => out.push(c),
        }
    }
    out.push('"');
}

fn jkey(out: &mut String, k: &str) {
    jstr(out, k);
    out.push(':');
}

// ------------------------------------------------------------------------------------------------

struct Cx<'tcx> {
    tcx: TyCtxt<'tcx>,
    types: HashMap<Ty<'tcx>, usize>,
    type_rows: Vec<String>,
    paths: HashMap<DefId, String>,
}

impl<'tcx> Cx<'tcx> {
    fn path(&mut self, did: DefId) -> String {
        if let Some(p) = self.paths.get(&did) {
            return p.clone();
        }
        let p = with_resolve_crate_name!(with_no_visible_paths!(with_no_trimmed_paths!(self.tcx.def_path_str(did))));
        self.paths.insert(did, p.clone());
        p
    }

    fn span(&self, sp: Span) -> String {
        let sm = self.tcx.sess.source_map();
        let sp2 = sp.source_callsite();
        let loc = sm.lookup_char_pos(sp2.lo());
        let name = format!("{}", loc.file.name.prefer_local_unconditionally());
        format!("{}:{}{}", name, loc.line, if sp.from_expansion() { "!" } else { "" })
    }

    /// intern a type, return its id in the type table
    fn ty(&mut self, t: Ty<'tcx>) -> usize {
        if let Some(&i) = self.types.get(&t) {
            return i;
        }
        // reserve the slot first (recursive types through args are fine: args are distinct Ty)
        let id = self.type_rows.len();
        self.types.insert(t, id);
        self.type_rows.push(String::new());
        let mut row = String::new();
        row.push('{');
        jkey(&mut row, "s");
        let s = with_resolve_crate_name!(with_no_visible_paths!(with_no_trimmed_paths!(t.to_string())));
        jstr(&mut row, &s);
        let mut kind = "other";
        let mut def: Option<String> = None;
        let mut args: Vec<usize> = Vec::new();
        let mut traits: Vec<String> = Vec::new();
        let mut mutbl = false;
        match t.kind() {
            TyKind::Bool | TyKind::Char | TyKind::Int(_) | TyKind::Uint(_) | TyKind::Float(_) | TyKind::Str => {
                kind = "prim"
            }
            TyKind::Never => kind = "never",
            TyKind::Adt(adt, ga) => {
                kind = "adt";
                def = Some(self.path(adt.did()));
                for a in ga.iter() {
                    if let Some(at) = a.as_type() {
                        args.push(self.ty(at));
                    }
                }
            }
            TyKind::Ref(_, inner, m) => {
                kind = "ref";
                mutbl = m.is_mut();
                args.push(self.ty(*inner));
            }
            TyKind::RawPtr(inner, m) => {
                kind = "ptr";
                mutbl = m.is_mut();
                args.push(self.ty(*inner));
            }
            TyKind::Slice(inner) => {
                kind = "slice";
                args.push(self.ty(*inner));
            }
            TyKind::Array(inner, _) => {
                kind = "array";
                args.push(self.ty(*inner));
            }
            TyKind::Tuple(ts) => {
                kind = "tuple";
                for x in ts.iter() {
                    args.push(self.ty(x));
                }
            }
            TyKind::Dynamic(preds, _) => {
                kind = "dyn";
                for p in preds.iter() {
                    match p.skip_binder() {
                        ty::ExistentialPredicate::Trait(tr) => {
                            traits.push(self.path(tr.def_id));
                            for a in tr.args.iter() {
                                if let Some(at) = a.as_type() {
                                    args.push(self.ty(at));
                                }
                            }
                        }
                        ty::ExistentialPredicate::AutoTrait(d) => traits.push(self.path(d)),
                        ty::ExistentialPredicate::Projection(_) => {}
                    }
                }
            }
            TyKind::Closure(d, ga) => {
                kind = "closure";
                def = Some(self.path(*d));
                let ups = ga.as_closure().upvar_tys();
                for u in ups.iter() {
                    args.push(self.ty(u));
                }
            }
            TyKind::Coroutine(d, _) | TyKind::CoroutineClosure(d, _) => {
                kind = "coroutine";
                def = Some(self.path(*d));
            }
            TyKind::FnDef(d, ga) => {
                kind = "fndef";
                def = Some(self.path(*d));
                for a in ga.iter() {
                    if let Some(at) = a.as_type() {
                        args.push(self.ty(at));
                    }
                }
            }
            TyKind::FnPtr(..) => kind = "fnptr",
            TyKind::Param(_) => kind = "param",
            TyKind::Alias(..) => kind = "alias",
            TyKind::Foreign(d) => {
                kind = "foreign";
                def = Some(self.path(*d));
            }
            _ => {}
        }
        row.push(',');
        jkey(&mut row, "k");
        jstr(&mut row, kind);
        if let Some(d) = def {
            row.push(',');
            jkey(&mut row, "def");
            jstr(&mut row, &d);
        }
        if !args.is_empty() {
            row.push(',');
            jkey(&mut row, "a");
            row.push('[');
            for (i, a) in args.iter().enumerate() {
                if i > 0 {
                    row.push(',');
                }
                let _ = write!(row, "{}", a);
            }
            row.push(']');
        }
        if !traits.is_empty() {
            row.push(',');
            jkey(&mut row, "tr");
            row.push('[');
            for (i, a) in traits.iter().enumerate() {
                if i > 0 {
                    row.push(',');
                }
                jstr(&mut row, a);
            }
            row.push(']');
        }
        if mutbl {
            row.push_str(",\"mut\":true");
        }
        row.push('}');
        self.type_rows[id] = row;
        id
    }
}

fn dump<'tcx>(tcx: TyCtxt<'tcx>, dir: &str) {
    let crate_name = tcx.crate_name(rustc_hir::def_id::LOCAL_CRATE).to_string();
    if crate_name.starts_with("build_script") {
        return;
    }
    let mut cx = Cx { tcx, types: HashMap::new(), type_rows: Vec::new(), paths: HashMap::new() };
    let mut out = String::with_capacity(1 << 24);
    out.push('{');
    jkey(&mut out, "crate");
    jstr(&mut out, &crate_name);
    out.push(',');

    // ---------------------------------------------------------------- bodies
    jkey(&mut out, "bodies");
    out.push('[');
    let mut first = true;
    let mut nbodies = 0usize;
    for &ldid in tcx.mir_keys(()).iter() {
        let did = ldid.to_def_id();
        let dk = tcx.def_kind(did);
        let body: &Body<'tcx> = match dk {
            DefKind::Fn | DefKind::AssocFn | DefKind::Closure => tcx.optimized_mir(did),
            DefKind::Const { .. } | DefKind::AssocConst { .. } | DefKind::Static { .. } => {
                // ctfe MIR (the initializer); generic consts are fine too
                tcx.mir_for_ctfe(did)
            }
            DefKind::InlineConst | DefKind::AnonConst => continue,
            DefKind::Ctor(..) => continue,
            _ => continue,
        };
        if !first {
            out.push(',');
        }
        first = false;
        nbodies += 1;
        dump_body(&mut cx, &mut out, ldid, dk, body, None);
        if matches!(dk, DefKind::Fn | DefKind::AssocFn | DefKind::Closure) {
            let proms = tcx.promoted_mir(did);
            for (pi, pb) in proms.iter_enumerated() {
                out.push(',');
                nbodies += 1;
                dump_body(&mut cx, &mut out, ldid, dk, pb, Some(pi.as_u32()));
            }
        }
    }
    out.push(']');
    out.push(',');

    // ---------------------------------------------------------------- ADTs, traits, impls
    jkey(&mut out, "adts");
    out.push('[');
    let mut first = true;
    let defs: Vec<LocalDefId> = tcx.hir_crate_items(()).definitions().collect();
    for &ldid in &defs {
        let did = ldid.to_def_id();
        match tcx.def_kind(did) {
            DefKind::Struct | DefKind::Enum | DefKind::Union => {}
            _ => continue,
        }
        if !first {
            out.push(',');
        }
        first = false;
        let adt = tcx.adt_def(did);
        out.push('{');
        jkey(&mut out, "path");
        let p = cx.path(did);
        jstr(&mut out, &p);
        out.push(',');
        jkey(&mut out, "kind");
        jstr(&mut out, if adt.is_enum() { "enum" } else if adt.is_union() { "union" } else { "struct" });
        out.push(',');
        jkey(&mut out, "span");
        let sp = cx.span(tcx.def_span(did));
        jstr(&mut out, &sp);
        out.push(',');
        jkey(&mut out, "variants");
        out.push('[');
        for (vi, v) in adt.variants().iter_enumerated() {
            if vi.as_u32() > 0 {
                out.push(',');
            }
            out.push('{');
            jkey(&mut out, "name");
            jstr(&mut out, v.name.as_str());
            if adt.is_enum() {
                let d = adt.discriminant_for_variant(tcx, vi);
                let _ = write!(out, ",\"discr\":\"{}\"", d.val);
            }
            out.push(',');
            jkey(&mut out, "fields");
            out.push('[');
            for (fi, f) in v.fields.iter().enumerate() {
                if fi > 0 {
                    out.push(',');
                }
                let fty = tcx.type_of(f.did).instantiate_identity().skip_norm_wip();
                let tid = cx.ty(fty);
                out.push('{');
                jkey(&mut out, "name");
                jstr(&mut out, f.name.as_str());
                let _ = write!(out, ",\"ty\":{}", tid);
                let vis_pub = f.vis.is_public();
                let _ = write!(out, ",\"pub\":{}", vis_pub);
                out.push('}');
            }
            out.push(']');
            out.push('}');
        }
        out.push(']');
        out.push('}');
    }
    out.push(']');
    out.push(',');

    jkey(&mut out, "traits");
    out.push('[');
    let mut first = true;
    for &ldid in &defs {
        let did = ldid.to_def_id();
        if tcx.def_kind(did) != DefKind::Trait {
            continue;
        }
        if !first {
            out.push(',');
        }
        first = false;
        out.push('{');
        jkey(&mut out, "path");
        let p = cx.path(did);
        jstr(&mut out, &p);
        out.push(',');
        jkey(&mut out, "methods");
        out.push('[');
        let mut f2 = true;
        for it in tcx.associated_items(did).in_definition_order() {
            if !it.is_fn() {
                continue;
            }
            if !f2 {
                out.push(',');
            }
            f2 = false;
            out.push('{');
            jkey(&mut out, "name");
            jstr(&mut out, it.name().as_str());
            let _ = write!(out, ",\"provided\":{}", it.defaultness(tcx).has_value());
            out.push(',');
            jkey(&mut out, "path");
            let p = cx.path(it.def_id);
            jstr(&mut out, &p);
            out.push('}');
        }
        out.push(']');
        out.push('}');
    }
    out.push(']');
    out.push(',');

    jkey(&mut out, "impls");
    out.push('[');
    let mut first = true;
    for &ldid in &defs {
        let did = ldid.to_def_id();
        let of_trait = match tcx.def_kind(did) {
            DefKind::Impl { of_trait } => of_trait,
            _ => continue,
        };
        if !first {
            out.push(',');
        }
        first = false;
        out.push('{');
        jkey(&mut out, "span");
        let sp = cx.span(tcx.def_span(did));
        jstr(&mut out, &sp);
        out.push(',');
        let self_ty = tcx.type_of(did).instantiate_identity().skip_norm_wip();
        let st = cx.ty(self_ty);
        let _ = write!(out, "\"self\":{}", st);
        if of_trait {
            let tr = tcx.impl_trait_ref(did).instantiate_identity().skip_norm_wip();
            out.push(',');
            jkey(&mut out, "trait");
            let p = cx.path(tr.def_id);
            jstr(&mut out, &p);
            out.push(',');
            jkey(&mut out, "trait_s");
            let s = with_resolve_crate_name!(with_no_visible_paths!(with_no_trimmed_paths!(tr.to_string())));
            jstr(&mut out, &s);
        }
        out.push(',');
        jkey(&mut out, "items");
        out.push('[');
        let mut f2 = true;
        for it in tcx.associated_items(did).in_definition_order() {
            if !it.is_fn() {
                continue;
            }
            if !f2 {
                out.push(',');
            }
            f2 = false;
            out.push('{');
            jkey(&mut out, "name");
            jstr(&mut out, it.name().as_str());
            out.push(',');
            jkey(&mut out, "path");
            let p = cx.path(it.def_id);
            jstr(&mut out, &p);
            if let Some(tid) = it.trait_item_def_id() {
                out.push(',');
                jkey(&mut out, "of");
                let p = cx.path(tid);
                jstr(&mut out, &p);
            }
            out.push('}');
        }
        out.push(']');
        out.push('}');
    }
    out.push(']');
    out.push(',');

    // ---------------------------------------------------------------- type table
    jkey(&mut out, "types");
    out.push('[');
    for (i, r) in cx.type_rows.iter().enumerate() {
        if i > 0 {
            out.push(',');
        }
        out.push_str(r);
    }
    out.push(']');
    let _ = write!(out, ",\"nbodies\":{}", nbodies);
    out.push('}');

    let file = format!("{}/{}-{}.json", dir, crate_name, std::process::id());
    std::fs::write(&file, out).expect("mirfacts: cannot write fact file");
}

fn place_json<'tcx>(cx: &mut Cx<'tcx>, body: &Body<'tcx>, out: &mut String, pl: &Place<'tcx>) {
    if pl.projection.is_empty() {
        let _ = write!(out, "{}", pl.local.as_u32());
        return;
    }
    let tcx = cx.tcx;
    out.push('{');
    let _ = write!(out, "\"l\":{},\"p\":[", pl.local.as_u32());
    let mut pty = mir::PlaceTy::from_ty(body.local_decls[pl.local].ty);
    for (i, elem) in pl.projection.iter().enumerate() {
        if i > 0 {
            out.push(',');
        }
        match elem {
            ProjectionElem::Deref => out.push_str("\"*\""),
            ProjectionElem::Field(f, _) => {
                // name the field when the base is an ADT
                let mut name = String::new();
                let mut owner = String::new();
                if let TyKind::Adt(adt, _) = pty.ty.kind() {
                    let vidx = pty.variant_index.unwrap_or(rustc_abi::FIRST_VARIANT);
                    if !adt.is_enum() || pty.variant_index.is_some() {
                        let v = adt.variant(vidx);
                        if let Some(fd) = v.fields.get(f) {
                            name = fd.name.as_str().to_string();
                        }
                        owner = cx.path(adt.did());
                        if adt.is_enum() {
                            owner.push_str("::");
                            owner.push_str(v.name.as_str());
                        }
                    }
                }
                let s = format!("f:{}:{}:{}", f.as_u32(), name, owner);
                jstr(out, &s);
            }
            ProjectionElem::Downcast(name, vi) => {
                let s = format!(
                    "d:{}:{}",
                    vi.as_u32(),
                    name.map(|n| n.as_str().to_string()).unwrap_or_default()
                );
                jstr(out, &s);
            }
            ProjectionElem::Index(l) => {
                let s = format!("i:{}", l.as_u32());
                jstr(out, &s);
            }
            ProjectionElem::ConstantIndex { offset, from_end, .. } => {
                let s = format!("ci:{}:{}", offset, from_end);
                jstr(out, &s);
            }
            ProjectionElem::Subslice { from, to, from_end } => {
                let s = format!("ss:{}:{}:{}", from, to, from_end);
                jstr(out, &s);
            }
            _ => out.push_str("\"?\""),
        }
        pty = pty.projection_ty(tcx, elem);
    }
    out.push_str("]}");
}

fn const_json<'tcx>(
    cx: &mut Cx<'tcx>,
    tenv: TypingEnv<'tcx>,
    out: &mut String,
    c: &mir::ConstOperand<'tcx>,
) {
    let tcx = cx.tcx;
    let cty = c.const_.ty();
    let tid = cx.ty(cty);
    out.push('{');
    let _ = write!(out, "\"k\":{}", tid);
    match cty.kind() {
        TyKind::FnDef(d, _) => {
            out.push(',');
            jkey(out, "fn");
            let p = cx.path(*d);
            jstr(out, &p);
        }
        _ => {}
    }
    match c.const_ {
        mir::Const::Unevaluated(uv, _) => {
            out.push(',');
            jkey(out, "uneval");
            let p = cx.path(uv.def);
            jstr(out, &p);
            if uv.promoted.is_some() {
                let _ = write!(out, ",\"promoted\":{}", uv.promoted.unwrap().as_u32());
            }
        }
        mir::Const::Val(ConstValue::Scalar(mir::interpret::Scalar::Ptr(ptr, _)), _) => {
            let aid = ptr.provenance.alloc_id();
            match tcx.try_get_global_alloc(aid) {
                Some(mir::interpret::GlobalAlloc::Static(d)) => {
                    out.push(',');
                    jkey(out, "static");
                    let p = cx.path(d);
                    jstr(out, &p);
                }
                Some(mir::interpret::GlobalAlloc::Function { instance }) => {
                    out.push(',');
                    jkey(out, "fn");
                    let p = cx.path(instance.def_id());
                    jstr(out, &p);
                }
                _ => {}
            }
        }
        mir::Const::Val(ConstValue::Slice { alloc_id, meta }, _) => {
            let is_str = matches!(cty.kind(), TyKind::Ref(_, inner, _) if inner.is_str());
            if meta <= 256 {
                if let Some(mir::interpret::GlobalAlloc::Memory(alloc)) = tcx.try_get_global_alloc(alloc_id) {
                    let bytes = alloc
                        .inner()
                        .inspect_with_uninit_and_ptr_outside_interpreter(0..(meta as usize));
                    out.push(',');
                    if is_str {
                        jkey(out, "str");
                        jstr(out, &String::from_utf8_lossy(bytes));
                    } else {
                        jkey(out, "bytes");
                        out.push('[');
                        for (i, b) in bytes.iter().enumerate() {
                            if i > 0 {
                                out.push(',');
                            }
                            let _ = write!(out, "{}", b);
                        }
                        out.push(']');
                    }
                }
            }
        }
        _ => {}
    }
    // scalar value if there is one
    let scalar_ok = matches!(
        cty.kind(),
        TyKind::Bool | TyKind::Char | TyKind::Int(_) | TyKind::Uint(_) | TyKind::Float(_)
    );
    if scalar_ok {
        if let Some(si) = c.const_.try_eval_scalar_int(tcx, tenv) {
            let bits = si.to_bits(si.size());
            let v: String = match cty.kind() {
                TyKind::Int(_) => {
                    let sz = si.size();
                    format!("{}", sz.sign_extend(bits) as i128)
                }
                _ => format!("{}", bits),
            };
            out.push(',');
            jkey(out, "v");
            jstr(out, &v);
        }
    }
    out.push('}');
}

fn operand_json<'tcx>(
    cx: &mut Cx<'tcx>,
    body: &Body<'tcx>,
    tenv: TypingEnv<'tcx>,
    out: &mut String,
    op: &Operand<'tcx>,
) {
    match op {
        Operand::Copy(p) => {
            out.push_str("{\"c\":");
            place_json(cx, body, out, p);
            out.push('}');
        }
        Operand::Move(p) => {
            out.push_str("{\"m\":");
            place_json(cx, body, out, p);
            out.push('}');
        }
        Operand::Constant(c) => const_json(cx, tenv, out, c),
        #[allow(unreachable_patterns)]
        _ => out.push_str("{\"?\":1}"),
    }
}

fn ops_json<'tcx, 'a>(
    cx: &mut Cx<'tcx>,
    body: &Body<'tcx>,
    tenv: TypingEnv<'tcx>,
    out: &mut String,
    ops: impl Iterator<Item = &'a Operand<'tcx>>,
) where
    'tcx: 'a,
{
    out.push('[');
    for (i, o) in ops.enumerate() {
        if i > 0 {
            out.push(',');
        }
        operand_json(cx, body, tenv, out, o);
    }
    out.push(']');
}

fn generic_args_json<'tcx>(cx: &mut Cx<'tcx>, out: &mut String, ga: GenericArgsRef<'tcx>) {
    out.push('[');
    let mut first = true;
    for a in ga.iter() {
        if let Some(t) = a.as_type() {
            if !first {
                out.push(',');
            }
            first = false;
            let id = cx.ty(t);
            let _ = write!(out, "{}", id);
        }
    }
    out.push(']');
}

fn dump_body<'tcx>(
    cx: &mut Cx<'tcx>,
    out: &mut String,
    ldid: LocalDefId,
    dk: DefKind,
    body: &Body<'tcx>,
    promoted: Option<u32>,
) {
    let tcx = cx.tcx;
    let did = ldid.to_def_id();
    let tenv = TypingEnv::post_analysis(tcx, did);
    out.push('{');
    jkey(out, "id");
    let mut p = cx.path(did);
    if let Some(pi) = promoted {
        p.push_str(&format!("::{{promoted#{}}}", pi));
    }
    jstr(out, &p);
    out.push(',');
    jkey(out, "kind");
    jstr(
        out,
        match dk {
            _ if promoted.is_some() => "promoted",
            DefKind::Fn => "fn",
            DefKind::AssocFn => "assocfn",
            DefKind::Closure => "closure",
            DefKind::Const { .. } | DefKind::AssocConst { .. } => "const",
            DefKind::Static { .. } => "static",
            _ => "other",
        },
    );
    out.push(',');
    jkey(out, "span");
    let sp = cx.span(tcx.def_span(did));
    jstr(out, &sp);
    if matches!(dk, DefKind::Fn | DefKind::AssocFn) {
        let vis = tcx.visibility(did);
        out.push(',');
        jkey(out, "vis");
        jstr(out, if vis.is_public() { "pub" } else { "restricted" });
    }
    if dk == DefKind::Closure {
        let parent = tcx.typeck_root_def_id(did);
        out.push(',');
        jkey(out, "root");
        let p = cx.path(parent);
        jstr(out, &p);
    }
    // impl header
    if dk == DefKind::AssocFn {
        let parent = tcx.parent(did);
        if let DefKind::Impl { of_trait } = tcx.def_kind(parent) {
            let self_ty = tcx.type_of(parent).instantiate_identity().skip_norm_wip();
            let st = cx.ty(self_ty);
            let _ = write!(out, ",\"impl_self\":{}", st);
            if of_trait {
                let tr = tcx.impl_trait_ref(parent).instantiate_identity().skip_norm_wip();
                out.push(',');
                jkey(out, "impl_trait");
                let p = cx.path(tr.def_id);
                jstr(out, &p);
                if let Some(tid) = tcx.associated_item(did).trait_item_def_id() {
                    out.push(',');
                    jkey(out, "impl_of");
                    let p = cx.path(tid);
                    jstr(out, &p);
                }
            }
        } else if tcx.def_kind(parent) == DefKind::Trait {
            out.push(',');
            jkey(out, "trait_default");
            let p = cx.path(parent);
            jstr(out, &p);
        }
    }
    // trait bounds on type parameters (only `Param: Trait` clauses)
    if matches!(dk, DefKind::Fn | DefKind::AssocFn) {
        let preds = tcx.predicates_of(did).instantiate_identity(tcx);
        let mut rows: Vec<(String, String)> = Vec::new();
        for clause in preds.predicates.iter() {
            let clause = clause.skip_norm_wip();
            if let Some(tp) = clause.as_trait_clause() {
                let tr = tp.skip_binder().trait_ref;
                let st = tr.self_ty();
                if matches!(st.kind(), TyKind::Param(_)) {
                    let p = cx.path(tr.def_id);
                    rows.push((st.to_string(), p));
                }
            }
        }
        if !rows.is_empty() {
            out.push(',');
            jkey(out, "bounds");
            out.push('[');
            for (i, (a, b)) in rows.iter().enumerate() {
                if i > 0 {
                    out.push(',');
                }
                out.push('[');
                jstr(out, a);
                out.push(',');
                jstr(out, b);
                out.push(']');
            }
            out.push(']');
        }
    }
    let _ = write!(out, ",\"argc\":{}", body.arg_count);
    // locals
    out.push(',');
    jkey(out, "locals");
    out.push('[');
    for (i, ld) in body.local_decls.iter().enumerate() {
        if i > 0 {
            out.push(',');
        }
        let id = cx.ty(ld.ty);
        let _ = write!(out, "{}", id);
    }
    out.push(']');
    // debug names
    out.push(',');
    jkey(out, "names");
    out.push('{');
    let mut firstn = true;
    for vdi in body.var_debug_info.iter() {
        if let mir::VarDebugInfoContents::Place(p) = &vdi.value {
            let mut s = String::new();
            place_json(cx, body, &mut s, p);
            if !firstn {
                out.push(',');
            }
            firstn = false;
            // key: variable name (may repeat: add suffix), value: place
            jstr(out, &format!("{}@{}", vdi.name.as_str(), cx.span(vdi.source_info.span)));
            out.push(':');
            out.push_str(&s);
        }
    }
    out.push('}');
    // blocks
    out.push(',');
    jkey(out, "blocks");
    out.push('[');
    for (bi, bb) in body.basic_blocks.iter().enumerate() {
        if bi > 0 {
            out.push(',');
        }
        block_json(cx, body, tenv, out, bb);
    }
    out.push(']');
    out.push('}');
}

fn unwind_json(out: &mut String, u: &UnwindAction) {
    match u {
        UnwindAction::Cleanup(b) => {
            let _ = write!(out, ",\"uw\":{}", b.as_u32());
        }
        _ => {}
    }
}

fn block_json<'tcx>(
    cx: &mut Cx<'tcx>,
    body: &Body<'tcx>,
    tenv: TypingEnv<'tcx>,
    out: &mut String,
    bb: &BasicBlockData<'tcx>,
) {
    let tcx = cx.tcx;
    out.push('{');
    if bb.is_cleanup {
        out.push_str("\"cl\":true,");
    }
    jkey(out, "st");
    out.push('[');
    let mut first = true;
    for st in bb.statements.iter() {
        match &st.kind {
            StatementKind::Assign(box (dst, rv)) => {
                if !first {
                    out.push(',');
                }
                first = false;
                out.push('{');
                jkey(out, "d");
                place_json(cx, body, out, dst);
                out.push(',');
                jkey(out, "sp");
                let sp = cx.span(st.source_info.span);
                jstr(out, &sp);
                out.push(',');
                rvalue_json(cx, body, tenv, out, rv);
                out.push('}');
            }
            StatementKind::SetDiscriminant { place, variant_index } => {
                if !first {
                    out.push(',');
                }
                first = false;
                out.push('{');
                jkey(out, "d");
                place_json(cx, body, out, place);
                let _ = write!(out, ",\"r\":\"setdiscr\",\"variant\":{}", variant_index.as_u32());
                out.push('}');
            }
            _ => {}
        }
    }
    out.push(']');
    out.push(',');
    jkey(out, "t");
    let term = bb.terminator();
    out.push('{');
    jkey(out, "sp");
    let sp = cx.span(term.source_info.span);
    jstr(out, &sp);
    out.push(',');
    match &term.kind {
        TerminatorKind::Goto { target } => {
            let _ = write!(out, "\"k\":\"goto\",\"to\":{}", target.as_u32());
        }
        TerminatorKind::SwitchInt { discr, targets } => {
            out.push_str("\"k\":\"switch\",\"on\":");
            operand_json(cx, body, tenv, out, discr);
            out.push_str(",\"vals\":[");
            for (i, (v, t)) in targets.iter().enumerate() {
                if i > 0 {
                    out.push(',');
                }
                let _ = write!(out, "[\"{}\",{}]", v, t.as_u32());
            }
            let _ = write!(out, "],\"else\":{}", targets.otherwise().as_u32());
        }
        TerminatorKind::UnwindResume => out.push_str("\"k\":\"resume\""),
        TerminatorKind::UnwindTerminate(_) => out.push_str("\"k\":\"abort\""),
        TerminatorKind::Return => out.push_str("\"k\":\"return\""),
        TerminatorKind::Unreachable => out.push_str("\"k\":\"unreachable\""),
        TerminatorKind::Drop { place, target, unwind, .. } => {
            out.push_str("\"k\":\"drop\",\"place\":");
            place_json(cx, body, out, place);
            let pty = place.ty(&body.local_decls, tcx).ty;
            let tid = cx.ty(pty);
            let _ = write!(out, ",\"ty\":{},\"to\":{}", tid, target.as_u32());
            unwind_json(out, unwind);
        }
        TerminatorKind::Call { func, args, destination, target, unwind, fn_span, .. } => {
            out.push_str("\"k\":\"call\"");
            call_json(cx, body, tenv, out, func, args.iter().map(|a| &a.node));
            out.push_str(",\"dest\":");
            place_json(cx, body, out, destination);
            if let Some(t) = target {
                let _ = write!(out, ",\"to\":{}", t.as_u32());
            }
            unwind_json(out, unwind);
            out.push_str(",\"fsp\":");
            let s = cx.span(*fn_span);
            jstr(out, &s);
        }
        TerminatorKind::TailCall { func, args, .. } => {
            out.push_str("\"k\":\"tailcall\"");
            call_json(cx, body, tenv, out, func, args.iter().map(|a| &a.node));
        }
        TerminatorKind::Assert { cond, expected, msg, target, unwind } => {
            out.push_str("\"k\":\"assert\",\"cond\":");
            operand_json(cx, body, tenv, out, cond);
            let kind = match &**msg {
                mir::AssertKind::BoundsCheck { .. } => "BoundsCheck".to_string(),
                mir::AssertKind::Overflow(op, ..) => format!("Overflow({:?})", op),
                mir::AssertKind::OverflowNeg(..) => "OverflowNeg".to_string(),
                mir::AssertKind::DivisionByZero(..) => "DivisionByZero".to_string(),
                mir::AssertKind::RemainderByZero(..) => "RemainderByZero".to_string(),
                mir::AssertKind::MisalignedPointerDereference { .. } => "Misaligned".to_string(),
                mir::AssertKind::NullPointerDereference => "NullDeref".to_string(),
                _ => "Other".to_string(),
            };
            let _ = write!(out, ",\"expected\":{},\"msg\":\"{}\",\"to\":{}", expected, kind, target.as_u32());
            unwind_json(out, unwind);
        }
        TerminatorKind::FalseEdge { real_target, .. } => {
            let _ = write!(out, "\"k\":\"goto\",\"to\":{}", real_target.as_u32());
        }
        TerminatorKind::FalseUnwind { real_target, .. } => {
            let _ = write!(out, "\"k\":\"goto\",\"to\":{}", real_target.as_u32());
        }
        TerminatorKind::Yield { resume, .. } => {
            let _ = write!(out, "\"k\":\"yield\",\"to\":{}", resume.as_u32());
        }
        TerminatorKind::CoroutineDrop => out.push_str("\"k\":\"coroutinedrop\""),
        TerminatorKind::InlineAsm { .. } => out.push_str("\"k\":\"asm\""),
    }
    out.push('}');
    out.push('}');
}

fn call_json<'tcx, 'a>(
    cx: &mut Cx<'tcx>,
    body: &Body<'tcx>,
    tenv: TypingEnv<'tcx>,
    out: &mut String,
    func: &Operand<'tcx>,
    args: impl Iterator<Item = &'a Operand<'tcx>>,
) where
    'tcx: 'a,
{
    let tcx = cx.tcx;
    let fty = func.ty(&body.local_decls, tcx);
    match fty.kind() {
        TyKind::FnDef(d, ga) => {
            out.push_str(",\"f\":");
            let p = cx.path(*d);
            jstr(out, &p);
            out.push_str(",\"ga\":");
            generic_args_json(cx, out, ga);
            // trait method?
            if let Some(tr) = tcx.trait_of_assoc(*d) {
                out.push_str(",\"tr\":");
                let p = cx.path(tr);
                jstr(out, &p);
                if ga.len() > 0 {
                    if let Some(st) = ga[0].as_type() {
                        let id = cx.ty(st);
                        let _ = write!(out, ",\"self\":{}", id);
                    }
                }
            }
            // resolution
            let res = std::panic::catch_unwind(std::panic::AssertUnwindSafe(|| {
                Instance::try_resolve(tcx, tenv, *d, ga)
            }));
            if let Ok(Ok(Some(inst))) = res {
                let rd = inst.def_id();
                let kind = match inst.def {
                    ty::InstanceKind::Item(_) => "item",
                    ty::InstanceKind::Virtual(..) => "virtual",
                    ty::InstanceKind::ClosureOnceShim { .. } => "closure_once",
                    ty::InstanceKind::FnPtrShim(..) => "fnptr_shim",
                    ty::InstanceKind::DropGlue(..) => "drop_glue",
                    ty::InstanceKind::CloneShim(..) => "clone_shim",
                    ty::InstanceKind::Intrinsic(_) => "intrinsic",
                    ty::InstanceKind::ReifyShim(..) => "reify",
                    _ => "shim",
                };
                out.push_str(",\"rk\":");
                jstr(out, kind);
                if rd != *d || matches!(inst.def, ty::InstanceKind::Item(_)) {
                    out.push_str(",\"res\":");
                    let p = cx.path(rd);
                    jstr(out, &p);
                }
            }
        }
        _ => {
            out.push_str(",\"fp\":");
            operand_json(cx, body, tenv, out, func);
        }
    }
    out.push_str(",\"args\":");
    ops_json(cx, body, tenv, out, args);
}

fn rvalue_json<'tcx>(
    cx: &mut Cx<'tcx>,
    body: &Body<'tcx>,
    tenv: TypingEnv<'tcx>,
    out: &mut String,
    rv: &Rvalue<'tcx>,
) {
    match rv {
        Rvalue::Use(op, ..) => {
            out.push_str("\"r\":\"use\",\"o\":");
            ops_json(cx, body, tenv, out, std::iter::once(op));
        }
        Rvalue::Repeat(op, _) => {
            out.push_str("\"r\":\"repeat\",\"o\":");
            ops_json(cx, body, tenv, out, std::iter::once(op));
        }
        Rvalue::Ref(_, bk, pl) => {
            let m = matches!(bk, mir::BorrowKind::Mut { .. });
            let _ = write!(out, "\"r\":\"ref\",\"mut\":{},\"p\":", m);
            place_json(cx, body, out, pl);
        }
        Rvalue::RawPtr(k, pl) => {
            let m = matches!(k, mir::RawPtrKind::Mut);
            let _ = write!(out, "\"r\":\"rawptr\",\"mut\":{},\"p\":", m);
            place_json(cx, body, out, pl);
        }
        Rvalue::ThreadLocalRef(d) => {
            out.push_str("\"r\":\"tls\",\"def\":");
            let p = cx.path(*d);
            jstr(out, &p);
        }
        Rvalue::Cast(ck, op, ty) => {
            let cks = match ck {
                CastKind::PointerCoercion(pc, _) => format!("ptr:{:?}", pc),
                CastKind::Transmute => "transmute".to_string(),
                CastKind::IntToInt => "int2int".to_string(),
                CastKind::FloatToInt => "float2int".to_string(),
                CastKind::IntToFloat => "int2float".to_string(),
                CastKind::FloatToFloat => "float2float".to_string(),
                CastKind::PtrToPtr => "ptr2ptr".to_string(),
                CastKind::FnPtrToPtr => "fnptr2ptr".to_string(),
                _ => "other".to_string(),
            };
            out.push_str("\"r\":\"cast\",\"ck\":");
            jstr(out, &cks);
            let tid = cx.ty(*ty);
            let _ = write!(out, ",\"ty\":{},\"o\":", tid);
            ops_json(cx, body, tenv, out, std::iter::once(op));
        }
        Rvalue::BinaryOp(op, box (a, b)) => {
            let _ = write!(out, "\"r\":\"bin\",\"op\":\"{:?}\",\"o\":", op);
            ops_json(cx, body, tenv, out, [a, b].into_iter());
        }
        Rvalue::UnaryOp(op, a) => {
            let _ = write!(out, "\"r\":\"un\",\"op\":\"{:?}\",\"o\":", op);
            ops_json(cx, body, tenv, out, std::iter::once(a));
        }
        Rvalue::Discriminant(pl) => {
            out.push_str("\"r\":\"discr\",\"p\":");
            place_json(cx, body, out, pl);
        }
        Rvalue::Aggregate(box kind, ops) => {
            out.push_str("\"r\":\"agg\"");
            match kind {
                AggregateKind::Array(_) => out.push_str(",\"ak\":\"array\""),
                AggregateKind::Tuple => out.push_str(",\"ak\":\"tuple\""),
                AggregateKind::Adt(d, vi, _, _, active) => {
                    out.push_str(",\"ak\":\"adt\",\"adt\":");
                    let p = cx.path(*d);
                    jstr(out, &p);
                    let adt = cx.tcx.adt_def(*d);
                    let v = adt.variant(*vi);
                    out.push_str(",\"variant\":");
                    jstr(out, v.name.as_str());
                    out.push_str(",\"fields\":[");
                    if let Some(a) = active {
                        jstr(out, v.fields[*a].name.as_str());
                    } else {
                        for (i, f) in v.fields.iter().enumerate() {
                            if i > 0 {
                                out.push(',');
                            }
                            jstr(out, f.name.as_str());
                        }
                    }
                    out.push(']');
                }
                AggregateKind::Closure(d, _) => {
                    out.push_str(",\"ak\":\"closure\",\"def\":");
                    let p = cx.path(*d);
                    jstr(out, &p);
                }
                AggregateKind::Coroutine(d, _) | AggregateKind::CoroutineClosure(d, _) => {
                    out.push_str(",\"ak\":\"coroutine\",\"def\":");
                    let p = cx.path(*d);
                    jstr(out, &p);
                }
                AggregateKind::RawPtr(..) => out.push_str(",\"ak\":\"rawptr\""),
            }
            out.push_str(",\"o\":");
            ops_json(cx, body, tenv, out, ops.iter());
        }
        Rvalue::CopyForDeref(pl) => {
            out.push_str("\"r\":\"use\",\"o\":[{\"c\":");
            place_json(cx, body, out, pl);
            out.push_str("}]");
        }
        Rvalue::WrapUnsafeBinder(op, _) => {
            out.push_str("\"r\":\"use\",\"o\":");
            ops_json(cx, body, tenv, out, std::iter::once(op));
        }
        #[allow(unreachable_patterns)]
        _ => out.push_str("\"r\":\"other\""),
    }
}
