#!/bin/bash
# Build the framework offline from files on disk: the mirfacts rustc driver.
set -e
cd "$(dirname "$0")"
export CARGO_NET_OFFLINE=true
(cd mirfacts && cargo build --release --offline 2>&1 | tail -3)
test -x mirfacts/target/release/mirfacts
mkdir -p evidence .cache
echo "setup ok"
