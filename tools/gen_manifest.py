#!/usr/bin/env python3
"""Regenerate MANIFEST.json from the table below (kept in one place so it is always valid)."""
import json, os
V = os.path.dirname(os.path.dirname(os.path.abspath(__file__)))

CLAIMS = {}
NA = {}
exec(open(os.path.join(V, "tools", "manifest_table.py")).read())

checks = []
for pid in sorted(CLAIMS):
    c = CLAIMS[pid]
    checks.append({
        "property_id": pid,
        "quick_cmd": "./check %s --tier quick" % pid,
        "thorough_cmd": "./check %s --tier thorough" % pid,
        "evidence_file": "/verif/evidence/%s.json" % pid,
        "replay_cmd_template": "./check %s --replay {path}" % pid,
        "engine": "mirfacts+tvrules",
        "level_claimed": {"category": "other", "text": c["text"], "design_ref": "DESIGN.md section 4, " + pid},
        "level_note": c["note"],
        "technique": c["technique"],
    })
m = {
    "version": 1,
    "setup_cmd": "cd /verif && ./setup.sh",
    "hooks": {
        "guard": "tantivy_verif",
        "enable": "none needed: static analysis reads the source; no hook or instrumentation exists in /repo",
        "baseline_off_cmd": "cd /repo && cargo nextest run --workspace --no-fail-fast --tool-config-file pb:/w/lib/nextest.toml --profile pb --test-threads 8 --offline",
        "source_commits": [],
        "add_only": True,
    },
    "engines": [
        {"name": "mirfacts", "path": "/verif/mirfacts", "serves_properties": sorted(CLAIMS),
         "kind_free_text": "rustc_private driver (nightly) injected with RUSTC_WORKSPACE_WRAPPER under cargo check; dumps type-checked, drop-elaborated MIR, resolved callees, ADT/trait/impl tables as JSON facts"},
        {"name": "tvrules", "path": "/verif/tvrules", "serves_properties": sorted(CLAIMS),
         "kind_free_text": "Python rule engine over the fact base: dominance / must-pass / must-precede path rules, who-may-call tables, linear-resource (drop) analysis, provenance dataflow, table agreement, panic inventory, recursion"},
    ],
    "checks": checks,
    "not_applicable": [{"property_id": k, "reason": v} for k, v in sorted(NA.items())],
    "notes": "Technique family: static analysis only. Every check rebuilds its fact base from /repo's current working tree (content-hash keyed cache). Known findings: /verif/known_findings.json.",
}
json.dump(m, open(os.path.join(V, "MANIFEST.json"), "w"), indent=1)
print("wrote MANIFEST.json with %d checks, %d not applicable" % (len(checks), len(NA)))
