#!/usr/bin/env python3
"""store_seed.py <worktree> <seed-id> <PROPERTY> <caught:0/1> <by-rule-text> — copy a confirmed
seeded change into /verif/seeded/<seed-id>/ with meta.json"""
import json, os, shutil, sys, re
wt, sid, pid, caught, by = sys.argv[1:6]
dst = os.path.join("/verif/seeded", sid)
os.makedirs(os.path.join(dst, "demo"), exist_ok=True)
shutil.copy(os.path.join(wt, "OUT", "patch.diff"), os.path.join(dst, "patch.diff"))
for f in os.listdir(os.path.join(wt, "OUT", "demo")):
    shutil.copy(os.path.join(wt, "OUT", "demo", f), os.path.join(dst, "demo", f))
meta = {}
try:
    meta = json.load(open(os.path.join(wt, "OUT", "meta.json")))
except Exception as e:
    meta = {"note": "agent meta.json unreadable: %s" % e}
log = open("/tmp/wt/%s.confirm.log" % sid).read()
res = re.search(r"RESULT id=\S+ with=(\d+) without=(\d+) suite_ok=(\d+)", log)
meta.update({
    "property": pid, "seed_id": sid,
    "confirmed_by_me": {
        "demo_rc_with_change": int(res.group(1)), "demo_rc_without_change": int(res.group(2)), "pinned_suite_1547_passed_with_change": res.group(3) == "1",
        "how": "tools/confirm_seed.sh in a scratch worktree under /tmp: cargo test --test <demo> with the patch, again with the source patch reverted, then cargo nextest run --workspace (demo binary excluded)",
    },
    "our_check": {"caught": caught == "1", "by": by, "cmd": "tools/with_patch.sh seeded/%s/patch.diff ./check %s" % (sid, pid)},
})
json.dump(meta, open(os.path.join(dst, "meta.json"), "w"), indent=1)
print("stored", dst)
