#!/usr/bin/env python3
"""gen_ref.py — (re)generate anchors/ref.json.gz, the reference name / fingerprint table used by tvrules/normalize.py,
from /repo's current tree (default configuration plus the extra feature configurations).  Run it only on a tree on
which every check passes: it defines which functions are 'old' (never inlined) for later runs."""
import gzip, json, os, sys
sys.path.insert(0, "/verif")
os.environ["VERIF_NO_NORMALIZE"] = "1"
from tvrules import facts, normalize
ref = {"fns": {}, "adts": {}, "closures": {}}
for cfg in facts.CONFIGS:
    raw, hsh, _ = facts.load_raw(cfg)
    r = normalize.make_ref(raw)
    for k in ("fns", "adts", "closures"):
        for i, v in r[k].items():
            ref[k].setdefault(i, v).setdefault("cfgs", []).append(cfg)
    print(cfg, len(r["fns"]), len(r["adts"]))
ref["tree_hash"] = hsh
with gzip.open(normalize.REF, "wt") as fh:
    json.dump(ref, fh, sort_keys=True)
print("wrote", normalize.REF, os.path.getsize(normalize.REF), "bytes;", len(ref["fns"]), "functions,", len(ref["adts"]), "ADTs")
