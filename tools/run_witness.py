#!/usr/bin/env python3
"""run_witness.py [repo] — build the witness crate against <repo> (default /repo) in a scratch dir
and run its doc tests with nightly.  Prints one line per doctest: `WITNESS <name> ok|FAILED`."""
import os, re, shutil, subprocess, sys, tempfile
V = os.path.dirname(os.path.dirname(os.path.abspath(__file__)))
repo = sys.argv[1] if len(sys.argv) > 1 else os.environ.get("VERIF_REPO", "/repo")
scr = tempfile.mkdtemp(prefix="tvwit-")
try:
    os.makedirs(os.path.join(scr, "src"))
    shutil.copy(os.path.join(V, "witness", "src", "lib.rs"), os.path.join(scr, "src", "lib.rs"))
    open(os.path.join(scr, "Cargo.toml"), "w").write(open(os.path.join(V, "witness", "Cargo.toml.in")).read().replace("@REPO@", repo))
    shutil.copy(os.path.join(repo, "Cargo.lock"), os.path.join(scr, "Cargo.lock"))
    tgt = os.path.join(V, ".cache", "witness-target")
    env = dict(os.environ, CARGO_NET_OFFLINE="true", CARGO_TARGET_DIR=tgt, RUSTFLAGS="-Awarnings", RUSTDOCFLAGS="-Awarnings")
    r = subprocess.run(["cargo", "+nightly", "test", "--doc", "--offline", "--", "--test-threads", "8"], cwd=scr, env=env, stdout=subprocess.PIPE, stderr=subprocess.STDOUT, text=True)
    out = r.stdout
    n = 0
    for m in re.finditer(r"^test src/lib\.rs - (\S+) \(line (\d+)\)( - compile fail)? \.\.\. (\w+)", out, re.M):
        n += 1
        print("WITNESS %s%s %s" % (m.group(1), ":compile_fail" if m.group(3) else ":twin", "ok" if m.group(4) == "ok" else "FAILED"))
    if n == 0:
        print("WITNESS-ERROR no doctest ran\n" + out[-3000:])
        sys.exit(2)
    sys.exit(0 if r.returncode == 0 else 1)
finally:
    shutil.rmtree(scr, ignore_errors=True)
