#!/usr/bin/env python3
"""mkpatch.py <out.patch> <file> <old> <new> [<file> <old> <new> ...] — build a unified diff
against /repo by replacing exactly one occurrence of <old> by <new> in <file>."""
import sys, difflib, os
out = sys.argv[1]
args = sys.argv[2:]
chunks = []
for i in range(0, len(args), 3):
    f, old, new = args[i:i+3]
    old = old.encode().decode("unicode_escape"); new = new.encode().decode("unicode_escape")
    p = os.path.join("/repo", f)
    s = open(p).read()
    if s.count(old) != 1:
        sys.exit("mkpatch: %r occurs %d times in %s" % (old, s.count(old), f))
    t = s.replace(old, new)
    chunks.append("".join(difflib.unified_diff(s.splitlines(True), t.splitlines(True), "a/" + f, "b/" + f)))
open(out, "w").write("".join(chunks))
print("wrote", out)
