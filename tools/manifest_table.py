# property id -> claim (text / note / technique).  Only properties with a registered, passing check.
CLAIMS = {
 "C01": {
  "text": "Decides the write-ahead/durability protocol on every control-flow path of the functions that issue storage operations: sync before and after the meta.json replace, single publisher, no writer-owning value dropped without terminate() on an Ok path (linear resource over drop-elaborated MIR), storage-primitive ordering (flush < fsync < rename), register-before-create. Crash points are program points of these functions, which a CFG rule covers exhaustively; contents of the recovered image are not decided.",
  "note": "Trusted: rustc MIR construction, std/tempfile/fs4 semantics (persist = rename, sync_data = fdatasync). Not decided: that a recovered image opens and searches; file-system behaviour.",
  "technique": "MIR dominance / must-pass path rules, interprocedural durable-publisher analysis, linear-resource drop analysis, who-may-call tables",
 },
 "C20": {
  "text": "Decides the structure that makes the checksum cover every byte: FooterProxy's Write impl has no bypass and hashes exactly buf[..count] of the inner write; every ManagedDirectory writer is wrapped and its terminate appends the footer before the inner terminate; open_read must-pass extract_footer + is_compatible and returns the stripped body on every success return; segment I/O statically resolves to ManagedDirectory; validate_checksum walks list_files of every searchable segment, hashes the stripped body and compares with footer.crc(); the version window constants agree.",
  "note": "Trusted: crc32fast, serde_json. Not decided: CRC32's detection power; value-level slicing arithmetic inside extract_footer.",
  "technique": "MIR must-pass / dominance rules, field-sensitive value back-trace, impl-table and constant agreement",
 },
 "C10": {
  "text": "Decides the protocol that keeps GC safe on every path: the component table GC and validation iterate lists every enum variant; living files are computed while both the managed-paths read guard and the META_LOCK directory lock are alive (guard-region over MIR drops/moves); only the collector deletes, only Segment::open_write (named by relative_path) creates; the temporary SegmentMeta outlives the creation of the final one; obsolete metas are dropped before GC; GC runs only in updater-thread tasks. The un-synced registration rename is reported as known finding F2.",
  "note": "Trusted: census::Inventory lists objects while alive; flock semantics. Not decided: dynamic races inside the inventory; equality of directory content with the committed set (values).",
  "technique": "guard-region (lock lifetime) analysis over MIR, who-may-call tables, table/enum agreement, provenance dataflow",
 },
 "C05": {
  "text": "Decides the mechanisms that make a searcher a snapshot of one whole commit: meta.json is read and every segment opened while the META_LOCK guard is alive (guard-region over MIR), SegmentReader::open is used on the search path only there; SegmentReader's fields cannot reach a Directory/Index/Segment/path (type reachability), so nothing is opened lazily; no API hands out mutable access to shared bytes; the only ArcSwap::store publishes the Ok value of create_searcher (built and warmed), inside the same mutex-guarded region as the meta read (monotone reloads).",
  "note": "Trusted: arc_swap, census, flock. Not decided: value equality of answers over time; multi-process races beyond the META_LOCK region.",
  "technique": "guard-region analysis, type reachability over ADT fields, signature scan, who-may-call tables, value back-trace",
 },
 "C18": {
  "text": "Decides the typestate that ties the lock to the writer: IndexWriter is only constructed in IndexWriter::new, which owns a DirectoryLock by value and stores it in _directory_lock; new is called only from writer_with_options (with the Ok value of acquire_lock(&INDEX_WRITER_LOCK), a non-blocking lock) and from rollback (with the lock taken from self); no other function touches the field; no leak primitive is applied to a lock owner; DirectoryLock is not Clone; the lock primitives create exclusively, return LockBusy when refused, own the locked file and delete the lock file on drop.",
  "note": "Trusted: flock (fs4), OpenOptions::create_new atomicity, RwLock. Not decided: cross-process timing; the rollback-with-failing-new corner (recorded as an observation in DESIGN.md).",
  "technique": "who-may-construct / who-may-call / who-may-touch-field tables over MIR, value back-trace, visibility and impl-table facts (thorough: compile_fail witnesses)",
 },
 "C11": {
  "text": "Decides error discipline on every path: each of the ~1100 call sites reachable from the writer/open/reload entry points whose Result (or FutureResult) carries a storage error is classified by following its value through MIR (checked by ?/match, returned, passed on, or discarded / swallowed by an adapter / turned into a panic); the non-propagating sites must equal a frozen, individually reasoned table. Plus the structure that routes failures: first error returns before the commit point, both layers of JoinHandle::join are propagated, a worker returns Ok only through defuse(), merge runs under catch_unwind and every exit of the merge task sends to the waiting future, a killed updater refuses tasks, no oneshot Sender is orphaned.",
  "note": "Trusted: std::thread, rayon, oneshot, crossbeam. Scope is an over-approximated call graph (trait calls expand to all workspace impls). Not decided: that a new writer can continue after a failure; storage content after a fault.",
  "technique": "value-fate dataflow over MIR for Result-typed call results, reachability over the resolved call graph, dominance / must-pass path rules",
 },
 "C16": {
  "text": "Decides the totality clause: enumerates every panicking construct (explicit panics/asserts/unreachable, unwrap/expect, indexing and panicking std APIs, overflow/division asserts from MIR) in the ~290 bodies of the parser's source files reachable from parse_query / parse_query_lenient / QueryParser entry points, and requires the set to equal a frozen table in which each of the 29 sites carries the reason it cannot fire; and computes the call-graph cycles of that scope — all ten recurse over input nesting without a depth bound (known finding F6, stack overflow demonstrated).",
  "note": "Trusted: nom, regex, tokenizers and Term/date/ip builders called from the parser (outside the scope). Not decided: that the parse result means what the grammar documents; strict/lenient agreement.",
  "technique": "panic inventory over MIR (Assert terminators + panicking callees) on the reachable call graph, SCC recursion analysis",
 },
 "C19": {
  "text": "Decides offsets by construction and snippet totality: only the tokenizers of a frozen table assign Token offsets (no filter does; split-compound copies them field to field); in the Simple/Whitespace/Ngram streams the stored offsets are the very operands of the `&self.text[from..to]` slice whose result fills token.text before `true` is returned, so Rust's str slicing proves in-bounds, char-boundary, from<=to and text==slice for every input; the snippet code's panicking constructs equal a triaged table whose reasons rest on an invariant that is itself checked (stop_offset only grows, highlighted ranges are token offsets, fragments start at a token start); to_html escapes every fragment push.",
  "note": "Trusted: regex crate's match-boundary guarantee, htmlescape, str slicing semantics. Not decided: filter texts, stemmers, max_num_chars accounting, the facet tokenizer's text.",
  "technique": "who-may-write-field tables, operand-identity (same SSA root) check between stored offsets and slice operands, panic inventory, value back-trace",
 },
 "C07": {
  "text": "Very narrow: decides only the code tables the inverted index format relies on — schema::Type::to_code/from_code read off their MIR (discriminant cast vs. match arms) are mutually inverse on all variants and ALL_TYPES is complete; FIELD_NORMS_TABLE (read as constant data) has 256 strictly increasing entries starting at 0, the precondition of the binary search that quantises field lengths. Posting-list content is not decided by this family.",
  "note": "Everything value-level about terms, postings, positions and term dictionaries is NOT decided (run-time values; no sound static argument in reach). The must-terminate of the composite files is C01-R3.",
  "technique": "table agreement between enum definition, encoder and decoder read from MIR; constant-data check",
 },
 "C08": {
  "text": "Very narrow: decides only the columnar format's code tables — CodecType, U128FastFieldCodecType, Cardinality, NumericalType encoder/decoder pairs are mutually inverse; COLUMN_TYPES[i] is the variant with discriminant i for all variants (the source comment 'the order needs to match exactly' turned into a check); ALL_U64_CODEC_TYPES is complete; the columnar CURRENT_VERSION is accepted by the reader. Column values are not decided.",
  "note": "Codec arithmetic, optional/multivalued indexes, merges and min/max are NOT decided (values).",
  "technique": "table agreement between enum definition, encoder and decoder read from MIR",
 },
 "C09": {
  "text": "Very narrow: decides only the doc store's code tables — Decompressor::get_id/from_id inverse, Compressor->Decompressor total/injective, DOC_STORE_VERSION is the newest accepted version, and every type code the document serializer writes (base and extended namespace, collected from the constant arguments of write_type_code/serialize_with_type_code) is accepted by the deserializer's decode switch; the type_codes constants are pairwise distinct. Stored values are not decided.",
  "note": "Skip index, block cache, compression and nested value content are NOT decided (values).",
  "technique": "table agreement: writer's constant set vs reader's SwitchInt literal set, enum/encoder/decoder agreement",
 },
 "C15": {
  "text": "Very narrow: decides that the ordering precondition of the sstable writer is enforced in release builds — facts are rebuilt with -C debug-assertions=off and Writer::insert_key must still contain a panic guard controlled by common_prefix_len(previous_key, key) that dominates the Ok exit (an assert! turned into debug_assert! passes every test); the fst builder's insert error is propagated; the sstable version written is accepted by the reader. Lookup/stream/merge results are not decided.",
  "note": "Ordered-map behaviour itself is NOT decided (values). Observation (not a rule): previous_key is cleared at a block flush, so the guard is vacuous for the first key of each block.",
  "technique": "MIR of a second build configuration (debug assertions off), dominance of a guard switch, constant agreement",
 },
 "C06": {
  "text": "Narrow: decides the ordering precondition on which deterministic tie-breaking rests and the single-comparator discipline. TopNComputer/TopNHeap document that items must be pushed in ascending document order; every one of their call sites must either push its own DocSet-driven `doc` parameter / iterate its `docs` block in order, or be dominated by a sort of its input by document address (the cross-segment merge); every sort/select in the top-K code orders by compare_for_top_k (key reversed, then ascending doc); the offset is applied after the global merge and the merge buffer holds offset+limit hits. Exactness under block-max WAND and float sums is not decided.",
  "note": "NOT decided: pruning thresholds, block-max bounds, score sums (values); that DocSets emit ascending docs (C13).",
  "technique": "who-may-call table with a per-site ordering argument (parameter provenance or dominating sort), comparator closure inspection",
 },
 "C03": {
  "text": "Narrow: decides two structural clauses. (1) Deleted documents are invisible on every counting/collecting path: each consumer of a raw enumerator (Weight::for_each*, count_including_deleted, TermInfo::doc_freq) sits on the arm where alive_bitset() is None or filters through the bitset; every override of Weight::count, Collector::collect_segment and SortKeyComputer::collect_segment_top_k (taken from the impl map, so new overrides are picked up) is one of the checked implementations or a pure delegation. (2) Sibling agreement: every impl Weight overriding for_each/for_each_no_score/for_each_pruning/count builds scorers through the same constructors as scorer(); BooleanWeight's single-clause short-cut must be guarded by minimum_number_should_match. The meaning of query types over corpora is not decided.",
  "note": "NOT decided: which documents each scorer enumerates (values) — the bulk of the property.",
  "technique": "Option-arm region analysis over MIR, closure inspection, impl-map enumeration of overrides, sibling callee-set comparison",
 },
 "C04": {
  "text": "Narrow: decides the merge protocol. In segment_updater::merge every source entry is advanced to the target opstamp (argument = the parameter, inside the loop, error checked) and IndexMerger::open runs only after that loop, on segments built from the advanced metas; in the end_merge task deletes that arrived during the merge are applied up to load_meta().opstamp, a failed reconciliation or a refused swap returns before anything is published, SegmentManager::end_merge swaps on one register under one write guard, and a committed merge republishes the unchanged opstamp and payload; one doc-id mapping feeds all four merge writers; merge runs only under catch_unwind.",
  "note": "NOT decided: that merged postings / columns / store equal the sources' live content (values; would need translation validation).",
  "technique": "parameter-to-argument provenance, loop/dominance rules, guard-region analysis, value back-trace over MIR",
 },
 "C17": {
  "text": "Narrow: decides remap completeness. In remap_and_write the doc_id_map parameter itself (not None, not another value) is the argument of FieldNormsWriter::serialize, serialize_postings and FastFieldsWriter::serialize and drives the store rewrite; finalize_inner gives its mapping to remap_and_write and remap_doc_opstamps after padding fieldnorms; IndexMerger::write feeds one mapping to its four writers; SegmentSerializer::for_segment opens TempStore vs Store on the exclusive arms of a test over sort_by_field, manual_doc_id_mapping and is_in_merge.",
  "note": "NOT decided: the sort order itself, null placement, disjunctness tests (values).",
  "technique": "parameter-to-argument provenance (root of operand after copies/refs/Option re-wraps), control-region operand analysis",
 },
 "C02": {
  "text": "Narrow: decides four protocol clauses named by the anchors. Opstamps come from exactly one atomic fetch_add per call (no load/store pair), only revert stores and only delete_all_documents calls it, the stamper is seeded from meta.json; prepare_commit closes the channel, joins every worker propagating both error layers, and stamps the commit only after the join loop; in the commit task purge_deletes, save_metas and the returned value use the same captured opstamp, the purged entries are what SegmentManager::commit installs, save_metas writes its own opstamp/payload over the committed register; run() draws all opstamps of a batch with one stamps() call and sends one batch; add_document/delete_query return the opstamp they stamped.",
  "note": "NOT decided: which documents survive a history (delete cursor arithmetic, opstamp comparisons, rollback content, delete-all): values over histories and schedules.",
  "technique": "callee-set rules, captured-variable identity, parameter provenance, loop-completion dominance over MIR",
 },
 "C12": {
  "text": "Narrow: decides layering and shared arithmetic. Bm25Weight is built only by Query::weight-level functions without a SegmentReader in scope, from a Bm25StatisticsProvider whose Searcher impl loops over all segment readers for tokens, docs and doc_freq; Bm25Weight::explain's returned value is Bm25Weight::score of its own parameters; TermScorer::score and ::explain feed the same fieldnorm_id()/term_freq(); each of the 13 impl Weight::explain is classified (value from a scorer seeked to the doc, a child explanation, or a constant) and a Scorer::score() read must follow the seek; the quantisation table is monotone.",
  "note": "NOT decided: the numeric value of any score; float rounding; the PhrasePrefixQuery statistics-provider deviation (observation only).",
  "technique": "who-may-call with signature scan, parameter provenance, value back-trace, impl-map classification",
 },
 "C13": {
  "text": "Very narrow: decides three protocol clauses, not what any iterator enumerates. (R1) seek_danger typestate: in every function that probes a sub-docset with seek_danger, a forward may-analysis (VALID / PENDING / MAYBE-INVALID per receiver path, collections collapsed, result branches resolved, complete-pass and restore-pass idioms recognised) shows that a sub-docset that may have answered SeekLowerBound receives nothing but seek_danger — no doc/advance/seek/score/fill_buffer directly, through closures or function items, through callees or through methods of self — until a seek_danger on it answered Found. (R2) a score memo (RequiredOptionalScorer.score_cache, discovered from score()) is stored into by every DocSet method that moves a sub-docset. (R3) pure forwarding DocSet/Scorer methods forward to the method of the same name.",
  "note": "NOT decided: order and content of the enumerated documents, seek(t) landing on the first doc >= t, window horizons, block boundaries, TERMINATED stickiness, equality of buffered / bitset / counting paths (values over programs of calls). The typestate is per function: the state of an object across separate calls of its methods is the caller's obligation and is checked at the caller.",
  "technique": "typestate dataflow over MIR CFGs with field-sensitive receiver paths, closure / callee / self-method summaries; natural-loop exit analysis; memo discovery by store+read of a self field in score()",
 },
 "C14": {
  "text": "Very narrow: decides only the structural part of 'does not depend on partitioning ... after serialisation'. For each of the 18 merge_fruits(&mut self, other: Self) functions of the intermediate aggregation results: every accumulator leaf (struct field / enum variant field, through aggregation types without their own merge) of `other` is read, the same leaf of `self` is written, data from other.<leaf> reaches self.<leaf> (forward taint), collections are consumed by value; bucket-identity and request-parameter leaves are tabled with reasons. merge_maps and IntermediateAggregationResults::merge_fruits pair equal keys and move the unpaired remainder of `other` into `self`. Every type reachable from IntermediateAggregationResults with derived serde impls serialises every field and its deserialiser fills every field from the input. No aggregation value is decided.",
  "note": "NOT decided: equality with a direct computation, bucket arithmetic, float sums, sketch error, term truncation, bucket ordering, segment collectors, final result conversion (values over inputs and partitions).",
  "technique": "field-sensitive alias + forward taint analysis over MIR places of the merge functions; type-table walk; derived serde impl inspection (field coverage, provenance of constructor operands)",
 },
}
NA = {
}
# properties not yet claimed (checks under construction) are listed as not applicable *for now*
for _p, _why in {}.items():
    NA[_p] = _why
