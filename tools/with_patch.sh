#!/bin/bash
# with_patch.sh <patch-file> <command...> — run a command against a scratch copy of /repo with a
# patch applied (VERIF_REPO points at the copy).  The copy lives outside /repo and /verif and is
# removed afterwards.
set -u
PATCH=$(readlink -f "$1"); shift
SCR=$(mktemp -d /tmp/tvmut-XXXXXX)
trap 'rm -rf "$SCR"' EXIT
rsync -a --exclude target --exclude .git /repo/ "$SCR/repo/"
if ! (cd "$SCR/repo" && patch -p1 --no-backup-if-mismatch -s < "$PATCH"); then
  echo "PATCH-FAILED $PATCH"; exit 3
fi
VERIF_REPO="$SCR/repo" "$@"
