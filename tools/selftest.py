#!/usr/bin/env python3
"""selftest.py [filter] [-j N] — both-ways test of the rules: every seeded variant under
/verif/selftest must (still compile and) make the owning check exit 1 with a violation line that
names the broken instance.  Scratch copies live under /tmp and are removed."""
import json, os, subprocess, sys, tempfile, concurrent.futures as cf
V = os.path.dirname(os.path.dirname(os.path.abspath(__file__)))
exp = json.load(open(os.path.join(V, "selftest", "expect.json")))
flt = [a for a in sys.argv[1:] if not a.startswith("-")]
jobs = 6
if "-j" in sys.argv:
    jobs = int(sys.argv[sys.argv.index("-j") + 1]); flt = [f for f in flt if f != str(jobs)]

def run_benign(name):
    e = exp[name]
    props = [e["property"]] + e.get("also", [])
    oks = []
    info = ""
    for pid in props:
        evd = tempfile.mkdtemp(prefix="tvself-ev-")
        env = dict(os.environ, VERIF_EVIDENCE_DIR=evd)
        r = subprocess.run([os.path.join(V, "tools", "with_patch.sh"), os.path.join(V, "selftest", name),
                            os.path.join(V, "check"), pid], cwd=V, env=env, stdout=subprocess.PIPE, stderr=subprocess.STDOUT, text=True)
        subprocess.run(["rm", "-rf", evd])
        oks.append(r.returncode == 0 and "VIOLATION" not in r.stdout)
        if not oks[-1]:
            info += "%s rc=%d %s | " % (pid, r.returncode, " ".join(l.strip() for l in r.stdout.splitlines() if "violation" in l or "ERROR" in l or "FAILED" in l)[:400])
    return name, all(oks), 0 if all(oks) else 1, info or ("silent on " + ",".join(props))


def run(name):
    e = exp[name]
    if e.get("benign"):
        return run_benign(name)
    evd = tempfile.mkdtemp(prefix="tvself-ev-")
    env = dict(os.environ, VERIF_EVIDENCE_DIR=evd)
    r = subprocess.run([os.path.join(V, "tools", "with_patch.sh"), os.path.join(V, "selftest", name),
                        os.path.join(V, "check"), e["property"]], cwd=V, env=env,
                       stdout=subprocess.PIPE, stderr=subprocess.STDOUT, text=True)
    subprocess.run(["rm", "-rf", evd])
    out = r.stdout
    lines = [l for l in out.splitlines() if l.strip().startswith("violation")]
    hit = [l for l in lines if all(x in l for x in e["expect"])]
    ok = r.returncode == 1 and bool(hit) and "VIOLATION property=%s" % e["property"] in out
    return name, ok, r.returncode, (hit[0][:200] if hit else (out[-600:]))

names = sorted(n for n in exp if not flt or any(f in n for f in flt))
bad = 0
with cf.ThreadPoolExecutor(jobs) as ex:
    for name, ok, rc, info in ex.map(run, names):
        tag = ("SILENT " if ok else "FALSE-ALARM ") if exp[name].get("benign") else ("CAUGHT " if ok else "MISSED ")
        print("%s %s rc=%d %s" % (tag, name, rc, info.strip()))
        bad += 0 if ok else 1
print("selftest: %d variants, %d missed" % (len(names), bad))
sys.exit(1 if bad else 0)
