#!/usr/bin/env python3
"""dumpbody.py <regex> [config]  — print the fact-base MIR of matching bodies (debug aid)"""
import sys, os
sys.path.insert(0, os.path.dirname(os.path.dirname(os.path.abspath(__file__))))
from tvrules.model import Program, place_str, op_place

def opstr(o):
    if "c" in o: return place_str(o["c"])
    if "m" in o: return "move " + place_str(o["m"])
    if "fn" in o: return "fn:" + o["fn"]
    if "static" in o: return "static:" + o["static"]
    if "str" in o: return repr(o["str"])
    if "v" in o: return "const " + o["v"]
    if "uneval" in o: return "const:" + o["uneval"]
    return "const?"

def main():
    rx = sys.argv[1]
    cfg = sys.argv[2] if len(sys.argv) > 2 else "default"
    prog = Program(cfg)
    for b in prog.find_bodies(rx):
        print("=" * 100)
        print(b.kind, b.id, b.span, "argc", b.argc)
        names = b.var_names()
        for l, t in enumerate(b.locals):
            print("   _%d: %s %s" % (l, b.types[t]["s"], ("  // " + names[l]) if l in names else ""))
        for i, bl in enumerate(b.blocks):
            print(" bb%d%s:" % (i, " (cleanup)" if bl.get("cl") else ""))
            for st in bl["st"]:
                extra = ""
                if st.get("r") == "agg":
                    extra = " %s %s::%s" % (st.get("ak"), st.get("adt", st.get("def", "")), st.get("variant", ""))
                elif st.get("r") in ("ref", "discr", "rawptr"):
                    extra = " " + place_str(st["p"])
                elif st.get("r") in ("bin", "un"):
                    extra = " " + st["op"]
                elif st.get("r") == "cast":
                    extra = " " + st["ck"]
                print("     %s = %s%s %s   [%s]" % (place_str(st["d"]), st.get("r"), extra, ", ".join(opstr(o) for o in st.get("o", [])), st.get("sp", "")))
            t = bl["t"]
            k = t["k"]
            if k in ("call", "tailcall"):
                print("     %s = CALL %s%s(%s) -> %s uw %s   [%s]" % (place_str(t["dest"]) if "dest" in t else "-", t.get("f", "fnptr " + opstr(t["fp"]) if "fp" in t else "?"),
                      (" => " + t["res"]) if t.get("res") and t.get("res") != t.get("f") else (" [%s]" % t.get("rk", "unresolved") if "tr" in t and not t.get("res") else ""),
                      ", ".join(opstr(o) for o in t["args"]), t.get("to"), t.get("uw"), t["sp"]))
            elif k == "switch":
                print("     SWITCH %s %s else %s" % (opstr(t["on"]), t["vals"], t["else"]))
            elif k == "drop":
                print("     DROP %s : %s -> %s   [%s]" % (place_str(t["place"]), b.types[t["ty"]]["s"], t["to"], t["sp"]))
            elif k == "assert":
                print("     ASSERT %s %s -> %s" % (t["msg"], opstr(t["cond"]), t["to"]))
            else:
                print("     %s %s" % (k.upper(), t.get("to", "")))

main()
