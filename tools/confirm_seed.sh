#!/bin/bash
# confirm_seed.sh <worktree> <seed-id> <PROPERTY> — independently confirm a seeded change:
#   demo fails with the change, passes without it, the pinned suite passes with it;
#   then run our check against the patch and store everything under /verif/seeded/<seed-id>/.
set -u
WT=$1; ID=$2; PID=$3
export CARGO_NET_OFFLINE=true CARGO_TARGET_DIR=${WT}-target
LOG=/tmp/wt/$ID.confirm.log
: > $LOG
cd $WT || exit 2
DEMO=$(ls OUT/demo/*.rs 2>/dev/null | head -1)
DEMOBIN=$(basename "${DEMO%.rs}")
echo "demo=$DEMO bin=$DEMOBIN" >> $LOG
# make sure demo is in tests/
[ -f tests/$DEMOBIN.rs ] || cp "$DEMO" tests/
# the source patch as delivered
git diff --stat -- . ':!tests' ':!OUT' >> $LOG 2>&1
echo "== demo WITH change" >> $LOG
cargo test --offline --test $DEMOBIN >> $LOG 2>&1; W=$?
echo "rc_with=$W" >> $LOG
echo "== demo WITHOUT change" >> $LOG
git diff -- . ':!tests' ':!OUT' > /tmp/wt/$ID.src.patch
git apply -R /tmp/wt/$ID.src.patch >> $LOG 2>&1
cargo test --offline --test $DEMOBIN >> $LOG 2>&1; WO=$?
echo "rc_without=$WO" >> $LOG
git apply /tmp/wt/$ID.src.patch >> $LOG 2>&1
echo "== suite WITH change" >> $LOG
cargo nextest run --workspace --offline --no-fail-fast -E "not binary($DEMOBIN)" 2>&1 | tail -5 >> $LOG; 
S=$(grep -c "tests run: 1547 passed" $LOG)
echo "suite_ok=$S" >> $LOG
echo "RESULT id=$ID with=$W without=$WO suite_ok=$S" >> $LOG
tail -1 $LOG
