#!/bin/bash
# benign_run.sh <patch> — run all 20 quick checks against a scratch copy of /repo with a behaviour-preserving
# patch applied; prints "BENIGN <name> <ID> rc=<n>" for every check that is not silent.  Evidence goes to a scratch dir.
P=$(readlink -f "$1"); N=$(basename "$P" .diff)
EV=$(mktemp -d /tmp/tvben-XXXXXX); export VERIF_EVIDENCE_DIR=$EV
cd /verif
tools/with_patch.sh "$P" bash -c 'for i in 01 02 03 04 05 06 07 08 09 10 11 12 13 14 15 16 17 18 19 20; do ./check C$i --tier quick > '$EV'/C$i.log 2>&1; rc=$?; if [ $rc -ne 0 ]; then echo "BENIGN '$N' C$i rc=$rc"; grep -E "VIOLATION|CHECK-ERROR|^  \[|violation" '$EV'/C$i.log | head -12; fi; done; echo "BENIGN '$N' done"'
rm -rf "$EV"
