#!/usr/bin/env python3
"""seed_table.py — regenerate the table of DESIGN.md section 9 from /verif/seeded/*/meta.json"""
import json, os, glob, re
V = os.path.dirname(os.path.dirname(os.path.abspath(__file__)))
rows = []
for d in sorted(glob.glob(os.path.join(V, "seeded", "*", ""))):
    if not os.path.exists(os.path.join(d, "meta.json")):
        continue        # seeded/benign*/: behaviour-preserving patches, listed in section 8
    m = json.load(open(os.path.join(d, "meta.json")))
    sid = os.path.basename(d.rstrip("/"))
    oc = m.get("our_check", {})
    rows.append("| `%s` | %s | %s | %s | %s | %s |" % (
        sid, m.get("property", "?"),
        re.sub(r"\s+", " ", str(m.get("summary", "")))[:330].replace("|", "/"),
        re.sub(r"\s+", " ", str(m.get("needs", "")))[:260].replace("|", "/"),
        "**caught**" if oc.get("caught") else "**missed**",
        re.sub(r"\s+", " ", oc.get("by", ""))[:420].replace("|", "/")))
n_caught = sum(1 for r in rows if "**caught**" in r)
n_after = sum(1 for r in rows if "**caught**" in r and ("MISSED by" in r or "added after" in r or "added later" in r or "added together" in r))
summary = ("**%d seeded changes; %d caught on the current checks, %d of those only after a rule was added or corrected because of the seed "
           "(the verdict column says so); %d missed, each with the reason.**\n\n" % (len(rows), n_caught, n_after, len(rows) - n_caught))
hdr = summary + "| seed | property | change (agent's summary) | needs, to manifest | verdict | by which rule / why not |\n|---|---|---|---|---|---|\n"
table = hdr + "\n".join(rows)
p = os.path.join(V, "DESIGN.md")
s = open(p).read()
if "SEEDTABLE" in s:
    s = s.replace("SEEDTABLE", "<!-- seedtable:begin -->\n" + table + "\n<!-- seedtable:end -->")
else:
    s = re.sub(r"<!-- seedtable:begin -->.*?<!-- seedtable:end -->", "<!-- seedtable:begin -->\n" + table.replace("\\", "\\\\") + "\n<!-- seedtable:end -->", s, flags=re.S)
open(p, "w").write(s)
print("rows:", len(rows))
