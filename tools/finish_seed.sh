#!/bin/bash
# finish_seed.sh <worktree-id> <seed-id> <PROPERTY> <caught:0/1> <by-text> — store a CONFIRMED seed and only then
# remove its scratch worktree.  Refuses when the confirmation log is missing or not positive.
set -eu
WID=$1; SID=$2; PID=$3; CAUGHT=$4; BY=$5
WT=/tmp/wt/$WID
LOG=/tmp/wt/$SID.confirm.log
[ -f "$LOG" ] || [ "$WID" = "$SID" ] || cp /tmp/wt/$WID.confirm.log "$LOG"
grep -q "RESULT id=.* with=101 without=0 suite_ok=1" "$LOG" || { echo "finish_seed: $LOG is not a positive confirmation"; exit 2; }
[ -f "$WT/OUT/patch.diff" ] && [ -d "$WT/OUT/demo" ] && [ -f "$WT/OUT/meta.json" ] || { echo "finish_seed: $WT/OUT incomplete"; exit 2; }
python3 /verif/tools/store_seed.py "$WT" "$SID" "$PID" "$CAUGHT" "$BY"
[ -f /verif/seeded/$SID/meta.json ] && [ -f /verif/seeded/$SID/patch.diff ] || { echo "finish_seed: store failed"; exit 2; }
if [ "$CAUGHT" = "1" ]; then cp /verif/seeded/$SID/patch.diff /verif/selftest/seed_$SID.patch; fi
git -C /repo worktree remove --force "$WT" 2>/dev/null || rm -rf "$WT"
rm -rf "$WT-target"
echo "finished $SID (worktree $WID removed)"
