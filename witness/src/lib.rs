//! Compile-fail witnesses for the type-level clauses of C05, C18 and C20.
//!
//! Each witness is a rustdoc `compile_fail,E0xxx` test (run with `cargo +nightly test --doc`, the
//! stable toolchain ignores the error code) **paired with a compiling twin** that differs only
//! by the offending line: a witness whose paths are merely wrong would also "fail to compile".

/// C18-R6a: `DirectoryLock` cannot be cloned (the writer lock cannot be duplicated).
/// ```compile_fail,E0599
/// use tantivy::directory::{Directory, RamDirectory, INDEX_WRITER_LOCK};
/// let dir = RamDirectory::create();
/// let lock = dir.acquire_lock(&INDEX_WRITER_LOCK).unwrap();
/// let _second = lock.clone();
/// ```
/// twin:
/// ```
/// use tantivy::directory::{Directory, RamDirectory, INDEX_WRITER_LOCK};
/// let dir = RamDirectory::create();
/// let lock = dir.acquire_lock(&INDEX_WRITER_LOCK).unwrap();
/// let _second = &lock;
/// ```
pub struct C18LockNotClone;

/// C18-R6b: `IndexWriter::new` is not callable from outside the crate: a writer cannot be built
/// around a lock made up by user code.
/// ```compile_fail,E0624
/// use tantivy::directory::{Directory, RamDirectory, INDEX_WRITER_LOCK};
/// use tantivy::schema::Schema;
/// use tantivy::{Index, IndexWriter, TantivyDocument};
/// let index = Index::create_in_ram(Schema::builder().build());
/// let lock = RamDirectory::create().acquire_lock(&INDEX_WRITER_LOCK).unwrap();
/// let _w: IndexWriter<TantivyDocument> = IndexWriter::new(&index, Default::default(), lock).unwrap();
/// ```
/// twin:
/// ```
/// use tantivy::directory::{Directory, RamDirectory, INDEX_WRITER_LOCK};
/// use tantivy::schema::Schema;
/// use tantivy::{Index, IndexWriter, TantivyDocument};
/// let index = Index::create_in_ram(Schema::builder().build());
/// let _lock = RamDirectory::create().acquire_lock(&INDEX_WRITER_LOCK).unwrap();
/// let _w: IndexWriter<TantivyDocument> = index.writer_with_num_threads(1, 20_000_000).unwrap();
/// ```
pub struct C18NewIsPrivate;

/// C18-R6c: the lock field of a writer is private: it cannot be taken out of a live writer.
/// ```compile_fail,E0616
/// use tantivy::schema::Schema;
/// use tantivy::{Index, IndexWriter, TantivyDocument};
/// let index = Index::create_in_ram(Schema::builder().build());
/// let mut w: IndexWriter<TantivyDocument> = index.writer_with_num_threads(1, 20_000_000).unwrap();
/// let _stolen = w._directory_lock.take();
/// ```
/// twin:
/// ```
/// use tantivy::schema::Schema;
/// use tantivy::{Index, IndexWriter, TantivyDocument};
/// let index = Index::create_in_ram(Schema::builder().build());
/// let mut w: IndexWriter<TantivyDocument> = index.writer_with_num_threads(1, 20_000_000).unwrap();
/// let _opstamp = w.commit().unwrap();
/// ```
pub struct C18LockFieldPrivate;

/// C05-R4a: shared bytes cannot be borrowed mutably through `OwnedBytes`.
/// ```compile_fail,E0596
/// use ownedbytes::OwnedBytes;
/// let mut bytes = OwnedBytes::new(vec![1u8, 2, 3]);
/// let slice: &mut [u8] = &mut *bytes;
/// slice[0] = 9;
/// ```
/// twin:
/// ```
/// use ownedbytes::OwnedBytes;
/// let bytes = OwnedBytes::new(vec![1u8, 2, 3]);
/// let slice: &[u8] = &*bytes;
/// assert_eq!(slice[0], 1);
/// ```
pub struct C05OwnedBytesImmutable;

/// C05-R4b: a `Searcher` handed out by a reader offers no mutation of its segment readers.
/// ```compile_fail,E0596
/// use tantivy::schema::Schema;
/// use tantivy::Index;
/// let index = Index::create_in_ram(Schema::builder().build());
/// let searcher = index.reader().unwrap().searcher();
/// let readers: &mut [tantivy::SegmentReader] = &mut *searcher.segment_readers();
/// let _ = readers;
/// ```
/// twin:
/// ```
/// use tantivy::schema::Schema;
/// use tantivy::Index;
/// let index = Index::create_in_ram(Schema::builder().build());
/// let searcher = index.reader().unwrap().searcher();
/// let readers: &[tantivy::SegmentReader] = &*searcher.segment_readers();
/// let _ = readers;
/// ```
pub struct C05SearcherImmutable;

/// C20-R5: user code cannot call `terminate_ref` (it cannot build an `AntiCallToken`), so a
/// footer can neither be appended twice nor be skipped by calling the inner writer's terminate.
/// ```compile_fail,E0423
/// use tantivy::directory::{AntiCallToken, Directory, RamDirectory, TerminatingWrite};
/// use std::path::Path;
/// let dir = RamDirectory::create();
/// let mut w = dir.open_write(Path::new("f")).unwrap();
/// w.terminate_ref(AntiCallToken(())).unwrap();
/// ```
/// twin:
/// ```
/// use tantivy::directory::{Directory, RamDirectory, TerminatingWrite};
/// use std::path::Path;
/// let dir = RamDirectory::create();
/// let w = dir.open_write(Path::new("f")).unwrap();
/// w.terminate().unwrap();
/// ```
pub struct C20AntiCallToken;
