"""Error fate: what happens to the Result of a call whose error type is a storage error."""
from collections import defaultdict

from .model import (flows_to, op_local, op_place, place_local, is_bare, moves_from, Ev)

STORAGE_ERRS = (
    "std::io::error::Error", "tantivy::error::TantivyError", "tantivy::directory::error::OpenReadError",
    "tantivy::directory::error::OpenWriteError", "tantivy::directory::error::DeleteError",
    "tantivy::directory::error::LockError", "tantivy::directory::error::OpenDirectoryError",
)

FOLLOW = ("Result::<T, E>::map_err", "Result::<T, E>::map", "Result::<T, E>::and_then", "Result::<T, E>::or_else",
          "Result::<T, E>::inspect_err", "Result::<T, E>::inspect", "Result::<T, E>::as_ref", "Result::<T, E>::as_mut",
          "convert::Into::into", "convert::From::from", "Context::context", "Context::with_context", "Result::<T, E>::transpose",
          "Option::<T>::transpose", "Result::<T, E>::err", "Result::<T, E>::and", "Result::<T, E>::or",
          "FutureResult::<T>::wait")
SWALLOW = ("Result::<T, E>::ok", "Result::<T, E>::unwrap_or", "Result::<T, E>::unwrap_or_default", "Result::<T, E>::unwrap_or_else",
           "Result::<T, E>::is_ok", "Result::<T, E>::is_err", "Result::<T, E>::map_or", "Result::<T, E>::map_or_else", "Result::<T, E>::is_ok_and",
           "Result::<T, E>::is_err_and", "Result::<T, E>::iter", "Result::<T, E>::into_iter")
PANIC = ("Result::<T, E>::unwrap", "Result::<T, E>::expect", "Result::<T, E>::unwrap_unchecked", "Result::<T, E>::expect_err", "Result::<T, E>::unwrap_err")


def result_err_type(body, tid):
    row = body.types[tid]
    if row["k"] == "adt" and row.get("def") == "core::result::Result" and len(row.get("a", [])) == 2:
        return body.types[row["a"][1]]
    return None


def is_storage_err(row):
    if row is None:
        return False
    if row["k"] == "adt" and row.get("def") in STORAGE_ERRS:
        return True
    # Arc<io::Error> etc. do not count; boxed dyn errors do not count
    return False


def _ends(name, suffixes):
    return any(name.endswith(s) for s in suffixes)


def fate_of_call(body, b, t, depth=0):
    """classify the fate of the Result stored by the call in block b.  Returns a set of fates:
    'checked' (?, match), 'returned', 'passed' (given to a callee / stored), 'discarded', 'swallowed:<adapter>', 'panic:<adapter>'"""
    d = t.get("dest")
    if d is None or not is_bare(d):
        return {"passed"}
    if d == 0:
        return {"returned"}
    return fate_of_local(body, d, depth)


def fate_of_local(body, d, depth=0):
    fates = set()
    locs = flows_to(body, d)
    if 0 in locs:
        fates.add("returned")
    used = False
    for bi, bl in enumerate(body.blocks):
        if bl.get("cl"):
            continue
        for st in bl["st"]:
            r = st.get("r")
            if r == "discr" and place_local(st["p"]) in locs:
                fates.add("checked")
                used = True
            if r in ("ref", "rawptr") and place_local(st["p"]) in locs:
                # borrowed: `match &res`, `if let Err(e) = &res`, res.as_ref() ... follow the reference
                rl = place_local(st["d"])
                if is_bare(st["d"]) and depth < 3:
                    sub = fate_of_local(body, rl, depth + 1)
                    sub.discard("discarded")
                    fates |= sub
                    if sub:
                        used = True
            if r == "agg":
                for o in st.get("o", []):
                    if op_local(o) in locs and is_bare(op_place(o)):
                        fates.add("passed")
                        used = True
            if r in ("use", "cast") and not is_bare(st["d"]):
                for o in st.get("o", []):
                    if op_local(o) in locs and is_bare(op_place(o)):
                        fates.add("passed")   # stored into a field / through a pointer
                        used = True
            # reading a field of the result (e.g. `(res as Ok).0`) counts as inspection only with a discr; ignore
        t = bl["t"]
        if t["k"] in ("call", "tailcall"):
            for ai, o in enumerate(t["args"]):
                if op_local(o) in locs and op_place(o) is not None and is_bare(op_place(o)):
                    f = t.get("f", "") or ""
                    used = True
                    if f.endswith("Try::branch"):
                        fates.add("checked")
                    elif _ends(f, PANIC):
                        fates.add("panic:" + f.split("::")[-1])
                    elif _ends(f, SWALLOW):
                        fates.add("swallowed:" + f.split("::")[-1])
                    elif f == "core::mem::drop":
                        fates.add("discarded")
                    elif _ends(f, FOLLOW) and depth < 6 and is_bare(t.get("dest", {"l": 0})) and "dest" in t:
                        sub = fate_of_call(body, bi, t, depth + 1)
                        fates |= sub
                    else:
                        fates.add("passed")
    if not used and not fates:
        fates.add("discarded")
    return fates


def scan(prog, scope_ids):
    """all call sites in scope whose Result error type is a storage error; returns list of
    (body, block, term, errtype, fates)"""
    out = []
    for fid in sorted(scope_ids):
        body = prog.body(fid)
        if body is None or body.kind in ("const", "static", "promoted"):
            continue
        for b, t in body.calls():
            if "dest" not in t:
                continue
            d = t["dest"]
            tid = body.locals[place_local(d)] if is_bare(d) else None
            if tid is None:
                continue
            et = result_err_type(body, tid)
            if not is_storage_err(et):
                row = body.types[tid]
                if row["k"] == "adt" and row.get("def") == "tantivy::future_result::FutureResult":
                    et = {"s": "FutureResult (TantivyError)"}
                else:
                    continue
            f = t.get("f", "") or ""
            # adapters / plumbing are not sources
            if f.endswith("Try::branch") or f.endswith("FromResidual::from_residual") or _ends(f, FOLLOW) or _ends(f, SWALLOW) or _ends(f, PANIC):
                continue
            if f.startswith("core::result::Result::") or f.startswith("core::option::Option::"):
                continue
            out.append((body, b, t, et["s"], fate_of_call(body, b, t)))
    return out


def overwritten_results(prog, scope_ids):
    """Flow-sensitive companion of the fate scan: a local of storage-Result type that is assigned
    again (or assigned in a loop) on a path where its previous value was never read.  Returns
    (body, def_block, local) triples."""
    from .model import Ev, reach_positions
    out = []
    for fid in sorted(scope_ids):
        body = prog.body(fid)
        if body is None or body.kind in ("const", "static", "promoted"):
            continue
        cands = []
        for l, tid in enumerate(body.locals):
            if l == 0 or l <= body.argc:
                continue
            if is_storage_err(result_err_type(body, tid)):
                cands.append(l)
        if not cands:
            continue
        defs = body.defs()
        for l in cands:
            ds = [d for d in defs.get(l, []) if not body.is_cleanup(d[1])]
            if not ds:
                continue
            # only values that come (directly or by move) from a fallible call matter: a constant Ok(()) initialiser is not an error source
            def is_source(d):
                if d[0] == "call":
                    f = d[2].get("f", "") or ""
                    return not (f.endswith("Try::branch") or f.endswith("from_residual"))
                st = d[3]
                if st.get("r") == "use" and st.get("o") and op_place(st["o"][0]) is not None:
                    return True      # moved from another Result local
                return False         # aggregate Ok(..)/Err(..) literal
            src_defs = [d for d in ds if is_source(d)]
            if not src_defs:
                continue
            # use events: any read of l other than a Drop
            uses = []
            for b in body.normal_blocks():
                for i, st in enumerate(body.stmts(b)):
                    rd = False
                    for o in st.get("o", []):
                        if op_local(o) == l:
                            rd = True
                    if "p" in st and place_local(st["p"]) == l:
                        rd = True
                    if rd:
                        uses.append(Ev(b, "stmt", i))
                t = body.term(b)
                if t["k"] in ("call", "tailcall"):
                    if any(op_local(o) == l for o in t["args"]):
                        uses.append(Ev(b, "term"))
                elif t["k"] == "switch" and op_local(t["on"]) == l:
                    uses.append(Ev(b, "term"))
            def_blocks = {}
            for d in ds:
                def_blocks.setdefault(d[1], []).append(d)
            for d in src_defs:
                b0 = d[1]
                if d[0] == "call":
                    starts = tuple(body.succ(b0))
                    reached = reach_positions(body, uses, starts=starts)
                    hit = None
                    for b2, dl in def_blocks.items():
                        if b2 in reached:
                            for d2 in dl:
                                pos2 = len(body.stmts(b2)) if d2[0] == "call" else d2[2]
                                if reached[b2] >= pos2:
                                    hit = b2
                    if hit is not None:
                        out.append((body, b0, l))
                else:
                    # statement definition: continue in the same block after the statement
                    i0 = d[2]
                    later_use = any(u.b == b0 and u.kind == "stmt" and u.i > i0 for u in uses) or any(u.b == b0 and u.kind == "term" for u in uses)
                    if later_use:
                        continue
                    later_def = any(d2[0] == "stmt" and d2[2] > i0 for d2 in def_blocks.get(b0, []) if d2 is not d)
                    if later_def:
                        out.append((body, b0, l))
                        continue
                    reached = reach_positions(body, uses, starts=tuple(body.succ(b0)))
                    for b2, dl in def_blocks.items():
                        if b2 in reached:
                            for d2 in dl:
                                pos2 = len(body.stmts(b2)) if d2[0] == "call" else d2[2]
                                if reached[b2] >= pos2:
                                    out.append((body, b0, l))
                                    break
    # de-duplicate
    seen = set()
    res = []
    for body, b, l in out:
        k = (body.id, l)
        if k not in seen:
            seen.add(k)
            res.append((body, b, l))
    return res


def join_inner_fates(prog, body):
    """JoinHandle<Result<_, storage error>>::join sites: what happens to the thread's own Result (the
    Ok payload of join()).  Returns list of (block, fates); 'discarded' when the payload is never taken out."""
    from .model import place_proj
    out = []
    for b, t in body.calls():
        f = t.get("f") or ""
        if not (f.endswith("JoinHandle::<T>::join") and "thread" in f):
            continue
        d = t.get("dest")
        if d is None or not is_bare(d):
            continue
        row = body.types[body.locals[d]]
        if not (row["k"] == "adt" and row.get("def") == "core::result::Result" and row.get("a")):
            continue
        inner = body.types[row["a"][0]]
        if not (inner["k"] == "adt" and inner.get("def") == "core::result::Result" and len(inner.get("a", [])) == 2 and is_storage_err(body.types[inner["a"][1]])):
            continue
        from .model import RESULT_ADAPTERS
        locs = flows_to(body, d, through_calls=tuple(RESULT_ADAPTERS) + ("core::ops::try_trait::Try::branch",))
        inner_locals = set()
        for bi in body.normal_blocks():
            for st in body.stmts(bi):
                if st.get("r") != "use" or not is_bare(st["d"]):
                    continue
                pl = op_place(st["o"][0]) if st.get("o") else None
                if pl is None or is_bare(pl) or place_local(pl) not in locs:
                    continue
                pr = place_proj(pl)
                if any(e.startswith("d:") and e.split(":", 2)[2] in ("Ok", "Continue") for e in pr):
                    trow = body.types[body.locals[st["d"]]]
                    if trow["k"] == "adt" and trow.get("def") == "core::result::Result" and len(trow.get("a", [])) == 2 and is_storage_err(body.types[trow["a"][1]]):
                        inner_locals.add(st["d"])
        # `match join() { Ok(Ok(..)) => .., Ok(Err(e)) => .. }` reads the inner discriminant in place
        in_place = False
        for bi in body.normal_blocks():
            for st in body.stmts(bi):
                if st.get("r") == "discr" and not is_bare(st["p"]) and place_local(st["p"]) in locs \
                        and any(e.startswith("d:") and e.split(":", 2)[2] in ("Ok", "Continue") for e in place_proj(st["p"])):
                    in_place = True
        if not inner_locals and not in_place:
            out.append((b, {"discarded"}))
            continue
        fates = {"checked"} if in_place else set()
        for l in inner_locals:
            fates |= fate_of_local(body, l)
        out.append((b, fates))
    return out
