"""Error fate: what happens to the Result of a call whose error type is a storage error."""
from collections import defaultdict

from .model import (flows_to, op_local, op_place, place_local, is_bare, moves_from)

STORAGE_ERRS = (
    "std::io::error::Error", "tantivy::error::TantivyError", "tantivy::directory::error::OpenReadError",
    "tantivy::directory::error::OpenWriteError", "tantivy::directory::error::DeleteError",
    "tantivy::directory::error::LockError", "tantivy::directory::error::OpenDirectoryError",
)

FOLLOW = ("Result::<T, E>::map_err", "Result::<T, E>::map", "Result::<T, E>::and_then", "Result::<T, E>::or_else",
          "Result::<T, E>::inspect_err", "Result::<T, E>::inspect", "Result::<T, E>::as_ref", "Result::<T, E>::as_mut",
          "convert::Into::into", "convert::From::from", "Context::context", "Context::with_context", "Result::<T, E>::transpose",
          "Option::<T>::transpose", "Result::<T, E>::err", "Result::<T, E>::and", "Result::<T, E>::or",
          "FutureResult::<T>::wait")
SWALLOW = ("Result::<T, E>::ok", "Result::<T, E>::unwrap_or", "Result::<T, E>::unwrap_or_default", "Result::<T, E>::unwrap_or_else",
           "Result::<T, E>::is_ok", "Result::<T, E>::is_err", "Result::<T, E>::map_or", "Result::<T, E>::map_or_else", "Result::<T, E>::is_ok_and",
           "Result::<T, E>::is_err_and", "Result::<T, E>::iter", "Result::<T, E>::into_iter")
PANIC = ("Result::<T, E>::unwrap", "Result::<T, E>::expect", "Result::<T, E>::unwrap_unchecked", "Result::<T, E>::expect_err", "Result::<T, E>::unwrap_err")


def result_err_type(body, tid):
    row = body.types[tid]
    if row["k"] == "adt" and row.get("def") == "core::result::Result" and len(row.get("a", [])) == 2:
        return body.types[row["a"][1]]
    return None


def is_storage_err(row):
    if row is None:
        return False
    if row["k"] == "adt" and row.get("def") in STORAGE_ERRS:
        return True
    # Arc<io::Error> etc. do not count; boxed dyn errors do not count
    return False


def _ends(name, suffixes):
    return any(name.endswith(s) for s in suffixes)


def fate_of_call(body, b, t, depth=0):
    """classify the fate of the Result stored by the call in block b.  Returns a set of fates:
    'checked' (?, match), 'returned', 'passed' (given to a callee / stored), 'discarded', 'swallowed:<adapter>', 'panic:<adapter>'"""
    d = t.get("dest")
    if d is None or not is_bare(d):
        return {"passed"}
    if d == 0:
        return {"returned"}
    return fate_of_local(body, d, depth)


def fate_of_local(body, d, depth=0):
    fates = set()
    locs = flows_to(body, d)
    if 0 in locs:
        fates.add("returned")
    used = False
    for bi, bl in enumerate(body.blocks):
        if bl.get("cl"):
            continue
        for st in bl["st"]:
            r = st.get("r")
            if r == "discr" and place_local(st["p"]) in locs:
                fates.add("checked")
                used = True
            if r in ("ref", "rawptr") and place_local(st["p"]) in locs:
                # borrowed: `match &res`, `if let Err(e) = &res`, res.as_ref() ... follow the reference
                rl = place_local(st["d"])
                if is_bare(st["d"]) and depth < 3:
                    sub = fate_of_local(body, rl, depth + 1)
                    sub.discard("discarded")
                    fates |= sub
                    if sub:
                        used = True
            if r == "agg":
                for o in st.get("o", []):
                    if op_local(o) in locs and is_bare(op_place(o)):
                        fates.add("passed")
                        used = True
            if r in ("use", "cast") and not is_bare(st["d"]):
                for o in st.get("o", []):
                    if op_local(o) in locs and is_bare(op_place(o)):
                        fates.add("passed")   # stored into a field / through a pointer
                        used = True
            # reading a field of the result (e.g. `(res as Ok).0`) counts as inspection only with a discr; ignore
        t = bl["t"]
        if t["k"] in ("call", "tailcall"):
            for ai, o in enumerate(t["args"]):
                if op_local(o) in locs and op_place(o) is not None and is_bare(op_place(o)):
                    f = t.get("f", "") or ""
                    used = True
                    if f.endswith("Try::branch"):
                        fates.add("checked")
                    elif _ends(f, PANIC):
                        fates.add("panic:" + f.split("::")[-1])
                    elif _ends(f, SWALLOW):
                        fates.add("swallowed:" + f.split("::")[-1])
                    elif f == "core::mem::drop":
                        fates.add("discarded")
                    elif _ends(f, FOLLOW) and depth < 6 and is_bare(t.get("dest", {"l": 0})) and "dest" in t:
                        sub = fate_of_call(body, bi, t, depth + 1)
                        fates |= sub
                    else:
                        fates.add("passed")
    if not used and not fates:
        fates.add("discarded")
    return fates


def scan(prog, scope_ids):
    """all call sites in scope whose Result error type is a storage error; returns list of
    (body, block, term, errtype, fates)"""
    out = []
    for fid in sorted(scope_ids):
        body = prog.body(fid)
        if body is None or body.kind in ("const", "static", "promoted"):
            continue
        for b, t in body.calls():
            if "dest" not in t:
                continue
            d = t["dest"]
            tid = body.locals[place_local(d)] if is_bare(d) else None
            if tid is None:
                continue
            et = result_err_type(body, tid)
            if not is_storage_err(et):
                row = body.types[tid]
                if row["k"] == "adt" and row.get("def") == "tantivy::future_result::FutureResult":
                    et = {"s": "FutureResult (TantivyError)"}
                else:
                    continue
            f = t.get("f", "") or ""
            # adapters / plumbing are not sources
            if f.endswith("Try::branch") or f.endswith("FromResidual::from_residual") or _ends(f, FOLLOW) or _ends(f, SWALLOW) or _ends(f, PANIC):
                continue
            if f.startswith("core::result::Result::") or f.startswith("core::option::Option::"):
                continue
            out.append((body, b, t, et["s"], fate_of_call(body, b, t)))
    return out
