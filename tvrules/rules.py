"""Reusable rule helpers built on model primitives.  Every helper reports into a Report and
fails closed when an anchor is missing."""
import re
from .model import (Ev, call_events, callee_is, must_pass, must_precede, ok_continuation_events,
                    witness_path, path_spans, place_local, op_local, op_place, is_bare, provenance,
                    try_continuations, reach_positions, feasible_edges, place_str, trace_back)


def short(fid):
    """readable short form of a body id"""
    return fid.replace("tantivy::", "")


def get_body(rep, prog, rule, fid):
    b = prog.body(fid)
    if b is None:
        rep.fail(rule, "anchor:" + fid, "cannot establish: anchor function `%s` not found in the fact base "
                 "(renamed, removed or cfg'd out)" % fid)
    return b


def family(prog, trait_method):
    """callee names for 'any impl of this trait method'"""
    return set(prog.method_family(trait_method))


def calls_to(prog, body, names):
    names = set(names)
    # a callee of the reference tree that was inlined into this body and deleted is represented by the calls it made
    extra = set()
    for h in names:
        if h not in prog.bodies and h in prog.gone:
            extra |= prog.inlined_events_of(h, body.id)
    if extra:
        names = names | extra
        return [(b, t) for b, t in body.calls() if prog.call_targets(t) & names or (t.get("res") or t.get("f")) in extra]
    return [(b, t) for b, t in body.calls() if prog.call_targets(t) & names]


def site(body, block):
    return "%s (%s)" % (body.span_of_block(block).rstrip("!"), short(body.id))


def ok_events_of_calls(prog, body, names, require_checked=False):
    """Ok-continuation events of every call to `names` in body; second result: list of
    (block, checked?)"""
    evs = []
    info = []
    for b, t in calls_to(prog, body, names):
        e, checked = ok_continuation_events(body, b)
        evs.extend(e)
        info.append((b, checked))
    return evs, info


def rule_precede(rep, prog, rule, fid, a_names, b_names, a_what, b_what, a_ok=True, b_min=1, a_min=1,
                 key=None):
    """In body fid: every path to a call of b_names crosses (the Ok-continuation of) a call of
    a_names."""
    body = get_body(rep, prog, rule, fid)
    if body is None:
        return False
    key = key or "%s: %s before %s" % (short(fid), a_what, b_what)
    a_calls = calls_to(prog, body, a_names)
    b_calls = calls_to(prog, body, b_names)
    if len(a_calls) < a_min:
        rep.fail(rule, key, "cannot establish: no call to %s in %s" % (a_what, fid), site=body.span)
        return False
    if len(b_calls) < b_min:
        rep.fail(rule, key, "cannot establish: no call to %s in %s" % (b_what, fid), site=body.span)
        return False
    if a_ok:
        A, info = ok_events_of_calls(prog, body, a_names)
    else:
        A = [Ev(b, "term") for b, _ in a_calls]
    B = [Ev(b, "term", what=b_what) for b, _ in b_calls]
    bad = must_precede(body, A, B)
    if bad:
        e = bad[0]
        p = witness_path(body, e.b, A)
        rep.fail(rule, key, "%s is reachable without passing %s%s" % (b_what, "the Ok-continuation of " if a_ok else "", a_what),
                 site=site(body, e.b), path=path_spans(body, p))
        return False
    rep.ok(rule, key, "all %d path target(s) `%s` are dominated by %s`%s` (%d site(s))" % (
        len(B), b_what, "Ok-continuation of " if a_ok else "", a_what, len(a_calls)), site=site(body, b_calls[0][0]))
    return True


def rule_must_pass(rep, prog, rule, fid, a_names, a_what, exits="ok", a_ok=False, key=None, starts=None,
                   start_what="entry"):
    """In body fid: every path from entry (or from `starts` blocks) to an Ok-exit crosses a
    call of a_names."""
    body = get_body(rep, prog, rule, fid)
    if body is None:
        return False
    key = key or "%s: %s on every path from %s to %s exit" % (short(fid), a_what, start_what, exits)
    a_calls = calls_to(prog, body, a_names)
    if not a_calls:
        rep.fail(rule, key, "cannot establish: no call to %s in %s" % (a_what, fid), site=body.span)
        return False
    if a_ok:
        A, _ = ok_events_of_calls(prog, body, a_names)
    else:
        A = [Ev(b, "term") for b, _ in a_calls]
    bad = must_pass(body, A, exits=exits, starts=starts or (0,))
    if bad:
        avoid = A + ([Ev(b, "enter") for b in body.error_blocks()] if exits == "ok" else [])
        p = witness_path(body, bad[0], avoid, starts=starts or (0,))
        rep.fail(rule, key, "an %s exit is reachable from %s without passing %s" % (exits, start_what, a_what),
                 site=site(body, bad[0]), path=path_spans(body, p))
        return False
    rep.ok(rule, key, "every path from %s to an %s exit crosses `%s` (%d site(s))" % (start_what, exits, a_what, len(a_calls)),
           site=site(body, a_calls[0][0]))
    return True


def rule_result_checked(rep, prog, rule, fid, names, what, key=None):
    """every call of `names` in fid has its result inspected by `?`/match (not discarded)."""
    body = get_body(rep, prog, rule, fid)
    if body is None:
        return False
    cs = calls_to(prog, body, names)
    key = key or "%s: result of %s is checked" % (short(fid), what)
    if not cs:
        rep.fail(rule, key, "cannot establish: no call to %s in %s" % (what, fid), site=body.span)
        return False
    ok = True
    for b, t in cs:
        cont, brk, brs = try_continuations(body, b)
        if not cont or not brk:
            # tail position: `_0 = call` directly returned is also fine
            if is_bare(t["dest"]) and t["dest"] == 0:
                continue
            # `call(..).map_err(f)?` and the like: the value goes through adapters that keep the error before it is inspected
            from . import errfate
            fates = errfate.fate_of_call(body, b, t)
            if fates and fates <= {"checked", "returned", "passed"} and ({"checked", "returned"} & fates):
                continue
            dl = place_local(t["dest"]) if t.get("dest") is not None else None
            if dl is not None and "Result<" not in body.local_ty_str(dl) and (t.get("res") or t.get("f")) not in names:
                continue        # a call that stands for an inlined callee (calls_to) and returns no Result
            rep.fail(rule, key, "result of %s is not inspected by `?`/match" % what, site=site(body, b))
            ok = False
    if ok:
        rep.ok(rule, key, "%d call(s); each result reaches a `?`/match or is returned" % len(cs), site=site(body, cs[0][0]))
    return ok


def rule_who_may_call(rep, prog, rule, names, what, allowed, key=None, floor=None):
    """The set of bodies calling `names` equals (subset of + floor) the allowed table.
    allowed: dict body-id -> reason.  Closures count as themselves."""
    key = key or "who-may-call %s" % what
    sites = prog.who_calls(names)
    # callers are identified by the function the call is written in: a call that moves between the body of `f` and a
    # closure inside `f` (loop <-> iterator adaptor, `?` <-> map_err closure) has not changed hands
    from .panics import root_fn
    folded = {}
    for a, why in allowed.items():
        r = root_fn(a)
        folded[r] = why if r not in folded else folded[r] + "; " + why
    if floor is not None:
        floor = min(floor, len(folded))
    n_orig = len(folded)
    # a permitted caller that was inlined into its own callers and deleted hands its permission to them
    for a in list(folded):
        if a not in prog.bodies and a in prog.gone:
            for c_ in prog.gone[a]:
                folded.setdefault(root_fn(c_), folded[a] + " (was `%s`, inlined into this caller)" % short(a))
            # ... and is itself no longer expected
            floor = (floor if floor is not None else n_orig) - 1
            del folded[a]
    if floor is not None:
        floor = max(0, min(floor, len(folded)))
    allowed = folded
    callers = {}
    for (b, bi, t) in sites:
        callers.setdefault(root_fn(b.id), []).append((b, bi))
    ok = True
    for c, lst in sorted(callers.items()):
        if c not in allowed:
            b, bi = lst[0]
            rep.fail(rule, "%s: unexpected caller %s" % (key, short(c)),
                     "`%s` calls %s but is not in the table of permitted callers" % (c, what), site=site(b, bi))
            ok = False
        else:
            b, bi = lst[0]
            rep.ok(rule, "%s: caller %s" % (key, short(c)), allowed[c], site=site(b, bi))
    missing = [a for a in allowed if a not in callers]
    n_expected = floor if floor is not None else len(allowed)
    if len(callers) - len([c for c in callers if c not in allowed]) < n_expected:
        rep.fail(rule, "%s: floor" % key, "cannot establish: expected %d known caller(s) of %s, found %d; missing: %s"
                 % (n_expected, what, len(callers), [short(m) for m in missing]))
        ok = False
    return ok, callers


def arg_provenance(body, t, i, extra_transparent=()):
    o = t["args"][i]
    p = op_place(o)
    if p is None:
        leaves = set()
        from .model import _leaf_or_follow
        _leaf_or_follow(o, leaves, [])
        return leaves
    return provenance(body, place_local(p), extra_transparent=extra_transparent)


def fmt_leaves(leaves):
    return sorted("%s:%s" % (l[0], l[1]) for l in leaves)


def must_closure(prog, base_names, depth=6):
    """Greatest set M of functions such that every path to an Ok exit crosses the Ok-continuation
    of a call to `base_names` or to a member of M (wrapper rule, Min et al.).  Candidates are the
    functions within `depth` call-graph steps (backwards) of a base call."""
    base_names = set(base_names)
    # candidate set: backward closure
    cand = set()
    frontier = set(base_names)
    for _ in range(depth):
        nxt = set()
        for (b, bi, t) in prog.who_calls(frontier):
            if b.id not in cand:
                cand.add(b.id)
                nxt.add(b.id)
                # calling an impl method through the trait: the trait method name is also a way in
                tm = prog.impl_method_of.get(b.id)
                if tm:
                    nxt.add(tm)
        if not nxt:
            break
        frontier = nxt
    M = set(cand)
    changed = True
    while changed:
        changed = False
        for fid in sorted(M):
            body = prog.body(fid)
            names = set(base_names) | M
            # a trait-method call counts only if every workspace impl is in M
            A = []
            for b, t in body.calls():
                tg = prog.call_targets(t)
                hit = bool(tg & base_names)
                if not hit:
                    if prog.is_unresolved_trait_call(t):
                        impls = [i for i in prog.impls_of_method(t["f"]) if i in prog.bodies]
                        hit = bool(impls) and all(i in M for i in impls)
                    else:
                        hit = bool(tg & M)
                if hit:
                    evs, _ = ok_continuation_events(body, b)
                    A.extend(evs)
            if not A or must_pass(body, A, exits="ok"):
                M.discard(fid)
                changed = True
    return M


def rule_between(rep, prog, rule, fid, start_names, a_names, b_names, s_what, a_what, b_what, key=None,
                 to_ok_exit=False):
    """every path from (the normal return of) a call to start_names to a call of b_names (or to an
    Ok exit) crosses the Ok-continuation of a call to a_names."""
    body = get_body(rep, prog, rule, fid)
    if body is None:
        return False
    key = key or "%s: after %s, %s before %s" % (short(fid), s_what, a_what, b_what)
    s_calls = calls_to(prog, body, start_names)
    a_calls = calls_to(prog, body, a_names)
    b_calls = calls_to(prog, body, b_names) if not to_ok_exit else []
    for nm, cs in ((s_what, s_calls), (a_what, a_calls)) + (() if to_ok_exit else ((b_what, b_calls),)):
        if not cs:
            rep.fail(rule, key, "cannot establish: no call to %s in %s" % (nm, fid), site=body.span)
            return False
    A, _ = ok_events_of_calls(prog, body, a_names)
    starts = []
    for b, t in s_calls:
        starts.extend(body.succ(b))
    if to_ok_exit:
        bad = must_pass(body, A, exits="ok", starts=tuple(starts))
        if bad:
            p = witness_path(body, bad[0], A + [Ev(x, "enter") for x in body.error_blocks()], starts=tuple(starts))
            rep.fail(rule, key, "after %s an Ok exit is reachable without passing the Ok-continuation of %s" % (s_what, a_what),
                     site=site(body, bad[0]), path=path_spans(body, p))
            return False
    else:
        reached = reach_positions(body, A, starts=tuple(starts))
        for b, t in b_calls:
            if b in reached and reached[b] >= len(body.stmts(b)):
                p = witness_path(body, b, A, starts=tuple(starts))
                rep.fail(rule, key, "after %s, %s is reachable without passing the Ok-continuation of %s" % (s_what, b_what, a_what),
                         site=site(body, b), path=path_spans(body, p))
                return False
    rep.ok(rule, key, "every path from %s to %s crosses the Ok-continuation of %s" % (s_what, b_what, a_what),
           site=site(body, s_calls[0][0]))
    return True


def rule_only_after(rep, prog, rule, fid, a_names, b_names, a_what, b_what, key=None):
    """alias of rule_precede with Ok-continuation: B only after A succeeded"""
    return rule_precede(rep, prog, rule, fid, a_names, b_names, a_what, b_what, a_ok=True, key=key)


# --------------------------------------------------------------------------------------------
# guard regions

def local_kill_events(body, g):
    """events that end the life of the value in bare local g: Drop terminators of g (or a
    projection of it) and moves of the bare local (statement operands / call arguments)."""
    from .model import place_proj
    ev = []
    for b in body.normal_blocks():
        for i, st in enumerate(body.stmts(b)):
            for o in st.get("o", []):
                if "m" in o and place_local(o["m"]) == g and is_bare(o["m"]):
                    ev.append(Ev(b, "stmt", i, what="move of _%d" % g))
        t = body.term(b)
        if t["k"] == "drop" and place_local(t["place"]) == g and is_bare(t["place"]):
            ev.append(Ev(b, "term", what="drop of _%d" % g))
        if t["k"] == "call":
            for o in t["args"]:
                if "m" in o and place_local(o["m"]) == g and is_bare(o["m"]):
                    ev.append(Ev(b, "term", what="move of _%d into a call" % g))
    return ev


def local_def_events(body, g):
    ev = []
    for d in body.defs().get(g, []):
        if d[0] == "stmt":
            ev.append(Ev(d[1], "stmt", d[2], what="definition of _%d" % g))
        else:
            ev.append(Ev(d[1], "term", what="definition of _%d (call result)" % g))
    return ev


def guard_live_at(body, g, x_events):
    """the guard held in local g is alive at each X event: (1) X is dominated by g's
    definition, (2) no kill of g lies on a path from the definition to X.
    returns (ok, reason)"""
    defs = local_def_events(body, g)
    if not defs:
        return False, "guard local _%d is never defined" % g
    bad = must_precede(body, defs, x_events)
    if bad:
        return False, "the protected operation is reachable without the guard having been acquired"
    kills = local_kill_events(body, g)
    # blocks reachable after a kill (without passing a fresh definition)
    starts = []
    for k in kills:
        if k.kind == "term":
            starts.extend(body.succ(k.b))
        else:
            starts.append(("mid", k.b, k.i))
    for k in kills:
        if k.kind == "stmt":
            # kill inside a block: everything after statement i in the same block, then successors
            for x in x_events:
                if x.b == k.b and x.pos(body) > k.i:
                    return False, "the guard is moved/dropped (%s) before the protected operation in the same block" % k.what
    succ_starts = [s for s in starts if not isinstance(s, tuple)]
    for s in starts:
        if isinstance(s, tuple):
            succ_starts.extend(body.succ(s[1]))
    if succ_starts:
        reached = reach_positions(body, defs, starts=tuple(succ_starts))
        for x in x_events:
            if x.b in reached and reached[x.b] >= x.pos(body):
                return False, "the protected operation is reachable after the guard was released (%s)" % kills[0].what
    return True, "guard _%d: defined on every path to the operation and not released before it (%d release site(s) examined)" % (g, len(kills))


def locals_of_type(body, pred):
    return [l for l, tid in enumerate(body.locals) if pred(body.types[tid])]


def return_defs(body):
    """non-error definitions of the return place: list of ('ok', block, operand-local-or-None) for
    `_0 = Ok(x)`, ('call', block, term) for `_0 = f(..)`, ('other', block, stmt).  Definitions
    that are error exits (`from_residual`, `Err(..)`) are skipped."""
    out = []
    for d in body.defs().get(0, []):
        if d[0] == "call":
            t = d[2]
            if t.get("f", "").endswith("FromResidual::from_residual"):
                continue
            out.append(("call", d[1], t))
        else:
            st = d[3]
            if st.get("r") == "agg" and st.get("adt") == "core::result::Result":
                if st.get("variant") == "Err":
                    continue
                out.append(("ok", d[1], op_local(st["o"][0]) if st["o"] else None))
            else:
                out.append(("other", d[1], st))
    return out


def option_root(body, o, limit=24):
    """Root of an operand after following plain copies/moves, references (`&x`), dereferences and
    `Some(x)` re-wraps: ('param', i) | ('local', l) | ('const', v) | ('other', what)."""
    p = op_place(o)
    if p is None:
        return ("const", o.get("v", o.get("str", "?")))
    l = place_local(p)
    for _ in range(limit):
        if 1 <= l <= body.argc and not body.defs().get(l):
            return ("param", l)
        ds = body.defs().get(l, [])
        if len(ds) != 1:
            return ("param", l) if 1 <= l <= body.argc else ("local", l)
        d = ds[0]
        if d[0] == "call":
            t = d[2]
            f = t.get("f", "")
            if f in ("core::ops::deref::Deref::deref", "core::convert::AsRef::as_ref", "core::option::Option::<T>::as_ref", "core::option::Option::<T>::as_deref",
                     "core::clone::Clone::clone", "core::borrow::Borrow::borrow") and t["args"]:
                q = op_place(t["args"][0])
                if q is None:
                    return ("other", f)
                l = place_local(q)
                continue
            return ("local", l)
        st = d[3]
        r = st.get("r")
        if r in ("use", "cast"):
            q = op_place(st["o"][0])
            if q is None:
                return ("const", st["o"][0].get("v", "?"))
            l = place_local(q)
            continue
        if r in ("ref", "rawptr"):
            l = place_local(st["p"])
            continue
        if r == "agg" and st.get("adt") == "core::option::Option" and st.get("variant") == "Some" and st["o"]:
            q = op_place(st["o"][0])
            if q is None:
                return ("const", "?")
            l = place_local(q)
            continue
        if r == "agg" and st.get("adt") == "core::option::Option" and st.get("variant") == "None":
            return ("const", "None")
        return ("local", l)
    return ("local", l)


def loop_header_events(body, inner_block):
    """`Iterator::next` calls heading the loop(s) that contain inner_block: events that every
    path leaving the loop normally must have crossed (with a None result)."""
    loop = body.reachable(tuple(body.succ(inner_block)))
    out = []
    if inner_block not in loop:
        return out
    for b, t in body.calls():
        if t.get("f", "").endswith("Iterator::next") and b in loop and inner_block in body.reachable(tuple(body.succ(b))):
            out.append(Ev(b, "term", what="loop iterator"))
    return out


def rule_after_loop(rep, prog, rule, fid, inner_names, b_names, inner_what, b_what, key=None):
    """calls to b_names happen only after the loop containing the call(s) to inner_names ran to
    completion (dominated by the loop's iterator, not inside the loop body)."""
    body = get_body(rep, prog, rule, fid)
    if body is None:
        return False
    key = key or "%s: %s only after the loop over %s" % (short(fid), b_what, inner_what)
    ins = calls_to(prog, body, inner_names)
    bs = calls_to(prog, body, b_names)
    if not ins or not bs:
        rep.fail(rule, key, "cannot establish: %s or %s not found in %s" % (inner_what, b_what, fid), site=body.span)
        return False
    hdr = []
    for b, _ in ins:
        hdr.extend(loop_header_events(body, b))
    if not hdr:
        rep.fail(rule, key, "%s is not inside a loop in %s" % (inner_what, fid), site=site(body, ins[0][0]))
        return False
    B = [Ev(b, "term") for b, _ in bs]
    bad = must_precede(body, hdr, B)
    loop = set()
    for b, _ in ins:
        loop |= {x for x in body.reachable(tuple(body.succ(b))) if b in body.reachable((x,))}
    inside = [e for e in B if e.b in loop]
    if bad or inside:
        rep.fail(rule, key, "%s is reachable before the loop over %s has completed" % (b_what, inner_what), site=site(body, (bad or inside)[0].b))
        return False
    rep.ok(rule, key, "dominated by the loop's iterator and outside the loop body", site=site(body, bs[0][0]))
    return True


def natural_loop(body, header):
    """blocks of the natural loop headed by block `header` (back edges = edges p->header with
    header dominating p); empty set if header heads no loop"""
    dom = body.dominators()
    srcs = [p for p in body.pred(header) if p in dom and header in dom[p]]
    if not srcs:
        return set()
    loop = {header}
    stack = list(srcs)
    while stack:
        x = stack.pop()
        if x in loop:
            continue
        loop.add(x)
        stack.extend(p for p in body.pred(x) if p in dom)
    return loop


def rule_loop_exhausted(rep, prog, rule, fid, inner_names, inner_what, key=None):
    """The innermost `for` loop around the call(s) to inner_names is left normally only by
    exhaustion of its iterator: every edge out of the loop either is the None arm of the switch on
    the loop's Iterator::next result, or leads to error exits only (`?`)."""
    body = get_body(rep, prog, rule, fid)
    if body is None:
        return False
    key = key or "%s: the loop over %s runs to exhaustion" % (short(fid), inner_what)
    ins = calls_to(prog, body, inner_names)
    if not ins:
        rep.fail(rule, key, "cannot establish: %s not found in %s" % (inner_what, fid), site=body.span)
        return False
    good = True
    for ib, _ in ins:
        best = None
        for b, t in body.calls():
            if not t.get("f", "").endswith("Iterator::next"):
                continue
            # the loop header is the block the back edge targets: the block of the next() call or a
            # predecessor chain of straight-line blocks; take the natural loop of any block of the chain
            hb = b
            lp = natural_loop(body, hb)
            steps = 0
            while not lp and steps < 4 and len(body.pred(hb)) == 1:
                hb = body.pred(hb)[0]
                lp = natural_loop(body, hb)
                steps += 1
            if lp and ib in lp and b in lp and (best is None or len(lp) < len(best[1])):
                best = (b, lp, t)
        if best is None:
            rep.fail(rule, key, "cannot establish: %s is not inside an iterator loop in %s" % (inner_what, fid), site=site(body, ib))
            return False
        hb, lp, ht = best
        sw = ht["to"]
        st = body.term(sw)
        none_t = None
        if st["k"] == "switch":
            none_t = dict((v, tg) for v, tg in st["vals"]).get("0")
        if none_t is None:
            rep.fail(rule, key, "cannot establish: the result of the loop's Iterator::next is not matched directly", site=site(body, hb))
            return False
        for x in sorted(lp):
            for y in body.succ(x):
                if y in lp:
                    continue
                if (x, y) == (sw, none_t):
                    continue
                if not must_pass(body, [], exits="ok", starts=(y,)):
                    continue      # error exits only
                good = False
                rep.fail(rule, key, "the loop over %s can be left before its iterator is exhausted, on a path that still returns Ok: "
                         "the remaining items of the iterator are dropped" % inner_what, site=site(body, x))
    if good:
        rep.ok(rule, key, "the only non-error edge out of the innermost loop is the None arm of its Iterator::next", site=site(body, ins[0][0]))
    return good


def dominating_guards(body, target):
    """conditions that control whether block `target` is reached: list of (switch block, taken arm
    values, operand local) for every switch from which `target` is reachable through some arms but
    not through the others (with the switch itself blocked)."""
    out = []
    for sb in body.normal_blocks():
        t = body.term(sb)
        if t["k"] != "switch" or op_local(t["on"]) is None:
            continue
        if target not in body.reachable((sb,)):
            continue
        arms = [(v, tg) for v, tg in t["vals"]] + [("else", t["else"])]
        through = []
        for v, tg in arms:
            if tg is None:
                continue
            if target in body.reachable((tg,), blocked=frozenset({sb})):
                through.append(v)
        if through and len(through) < len([1 for v, tg in arms if tg is not None]):
            out.append((sb, tuple(through), op_local(t["on"])))
    return out


def promoted_variant(prog, body, local):
    """(adt, variant) when `local` is (a reference to) a constant enum value — a local aggregate or a
    promoted constant — else None"""
    from .model import trace_back
    tr = trace_back(body, local)
    if not tr:
        return None
    last = tr[-1]
    if last[0] == "agg" and isinstance(last[1], str) and "::" in last[1]:
        adt, _, var = last[1].rpartition("::")
        return (adt, var)
    if last[0] == "uneval":
        ds = body.defs()
        cur = local
        for _ in range(6):
            d = ds.get(cur, [])
            if len(d) != 1 or d[0][0] != "stmt":
                return None
            st = d[0][3]
            o = (st.get("o") or [None])[0]
            if o is not None and "promoted" in o:
                pb = prog.bodies.get("%s::{promoted#%d}" % (o["uneval"], o["promoted"]))
                if pb is None:
                    return None
                for bi in pb.normal_blocks():
                    for s2 in pb.stmts(bi):
                        if s2.get("r") == "agg" and s2.get("ak") == "adt" and s2.get("variant"):
                            return (s2.get("adt"), s2.get("variant"))
                return None
            pl = op_place(o) if o is not None else st.get("p")
            if pl is None:
                return None
            cur = place_local(pl)
    return None


def guard_evidence(prog, body, local, depth=0):
    """leaves that decide a guard operand: provenance leaves, following comparison calls
    (PartialEq::eq / ne, PartialOrd::*) into their arguments; constants of enum type are reported as
    ('variant', adt, name)"""
    out = set()
    for leaf in provenance(body, local):
        out.add(leaf[:2])
        if leaf[0] == "call" and depth < 2 and (leaf[1].endswith(("PartialEq>::eq", "PartialEq>::ne", "PartialEq::eq", "PartialEq::ne")) or "PartialOrd" in leaf[1]):
            t = body.term(leaf[2])
            for a in t.get("args", []):
                l = op_local(a)
                if l is None:
                    continue
                pv = promoted_variant(prog, body, l)
                if pv:
                    out.add(("variant", pv[0], pv[1]))
                else:
                    out |= guard_evidence(prog, body, l, depth + 1)
    return out


def place_ty(prog, body, place):
    """type row of a place (follows derefs, field and downcast projections through the ADT table);
    None when a projection cannot be resolved (generic field types stay unsubstituted)"""
    from .model import place_proj
    row = body.local_ty(place_local(place))
    crate = body.crate
    variant = None
    for e in place_proj(place):
        if row is None:
            return None
        if e == "*":
            if row.get("k") in ("ref", "rawptr") or (row.get("k") == "adt" and row.get("def") == "alloc::boxed::Box"):
                row = prog.crate_types[crate][row["a"][0]]
            else:
                return None
        elif e.startswith("d:"):
            variant = e.split(":", 2)[2]
        elif e.startswith("f:"):
            _, idx, name, owner = e.split(":", 3)
            adt = prog.adts.get(owner)
            if adt is None:
                return None
            vs = [v for v in adt["variants"] if variant is None or v["name"] == variant] or adt["variants"]
            fs = vs[0]["fields"]
            if int(idx) >= len(fs):
                return None
            crate = adt["_crate"]
            row = prog.crate_types[crate][fs[int(idx)]["ty"]]
            variant = None
        else:
            return None
    return dict(row, _crate=crate) if row is not None else None


def innermost_loop(body, block):
    """blocks of the innermost natural loop (headed by an Iterator::next call) that contains `block`;
    empty set when the block is in no such loop"""
    best = None
    for b, t in body.calls():
        if not (t.get("f") or "").endswith("Iterator::next"):
            continue
        hb = b
        lp = natural_loop(body, hb)
        steps = 0
        while not lp and steps < 4 and len(body.pred(hb)) == 1:
            hb = body.pred(hb)[0]
            lp = natural_loop(body, hb)
            steps += 1
        if lp and block in lp and b in lp and (best is None or len(lp) < len(best)):
            best = lp
    return best or set()


def bool_states_from(body, start, init=None, max_iter=4000):
    """Forward constant propagation of bool locals from block `start` (entered with the facts `init`:
    {local: True/False}), with branch refinement: a switch on a bool local whose value is known follows
    only the feasible arm, and on each arm the local's value is learnt.  Values: True / False / None
    (unknown).  Join at merge points is pointwise (different -> unknown).  Returns
    {return block: value of _0 there} for the return blocks reachable from `start`."""
    from .model import op_place, is_bare
    UNK = None

    def val(o, st):
        p = op_place(o)
        if p is not None:
            return st.get(p, UNK) if is_bare(p) else UNK
        v = o.get("v") if isinstance(o, dict) else None
        if v == "1":
            return True
        if v == "0":
            return False
        return UNK

    def transfer(bi, st):
        st = dict(st)
        for s in body.stmts(bi):
            d = s.get("d")
            if not is_bare(d):
                continue
            r = s.get("r")
            if r == "use":
                st[d] = val(s["o"][0], st)
            elif r == "bin" and s.get("op") in ("BitOr", "BitAnd") and len(s.get("o", [])) == 2:
                a, c = val(s["o"][0], st), val(s["o"][1], st)
                if s["op"] == "BitOr":
                    st[d] = True if (a is True or c is True) else (False if (a is False and c is False) else UNK)
                else:
                    st[d] = False if (a is False or c is False) else (True if (a is True and c is True) else UNK)
            elif r == "un" and s.get("op") == "Not":
                a = val(s["o"][0], st)
                st[d] = (not a) if a is not None else UNK
            else:
                st[d] = UNK
        return st

    def join(a, b):
        return {k: a[k] for k in a if k in b and a[k] == b[k] and a[k] is not None}
    # disjunctive (trace-partitioned) domain: a set of states per block, capped
    CAP = 48
    IN = {start: {frozenset((init or {}).items())}}
    work = [(start, frozenset((init or {}).items()))]
    n = 0
    while work and n < max_iter:
        n += 1
        bi, fst = work.pop()
        st = transfer(bi, dict(fst))
        t = body.term(bi)
        outs = []
        if t["k"] == "switch":
            p = op_place(t["on"])
            known = st.get(p, UNK) if p is not None and is_bare(p) else UNK
            is_bool = p is not None and is_bare(p) and body.local_ty_str(p) == "bool"
            arms = [(v, tg) for v, tg in t["vals"]] + [("else", t.get("else"))]
            listed = {v for v, _ in t["vals"]}
            for v, tg in arms:
                if tg is None:
                    continue
                if is_bool:
                    armval = (v == "1") if v != "else" else (False if "1" in listed else True)
                    if known is not None and known != armval:
                        continue
                    s2 = dict(st)
                    s2[p] = armval
                    outs.append((tg, s2))
                else:
                    outs.append((tg, st))
        elif t["k"] in ("call", "tailcall"):
            d = t.get("dest")
            s2 = dict(st)
            if d is not None and is_bare(d):
                s2.pop(d, None)
            if t.get("to") is not None:
                outs.append((t["to"], s2))
        else:
            for sx in body.succ(bi):
                if not body.is_cleanup(sx):
                    outs.append((sx, st))
        for tg, s2 in outs:
            if body.is_cleanup(tg):
                continue
            f2 = frozenset((k, v) for k, v in s2.items() if v is not None)
            cur = IN.setdefault(tg, set())
            if f2 in cur:
                continue
            if len(cur) >= CAP:
                # fall back to one joined state
                j = dict(f2)
                for o in cur:
                    j = join(j, dict(o))
                fj = frozenset(j.items())
                if fj in cur:
                    continue
                cur.add(fj)
                work.append((tg, fj))
            else:
                cur.add(f2)
                work.append((tg, f2))
    out = {}
    for rb in body.return_blocks():
        if rb in IN:
            vals = {transfer(rb, dict(f)).get(0, UNK) for f in IN[rb]}
            out[rb] = True if vals == {True} else (False if vals == {False} else UNK)
    return out


def closure_capture(prog, closure_id, field_idx):
    """(parent body, operand) of capture number `field_idx` of closure `closure_id`: the operand given to
    the closure aggregate in the enclosing body; None when it cannot be found"""
    parent = closure_id.rsplit("::{closure", 1)[0]
    pb = prog.bodies.get(parent)
    if pb is None:
        return None
    for bi in pb.normal_blocks():
        for st in pb.stmts(bi):
            if st.get("r") == "agg" and st.get("ak") == "closure" and st.get("def") == closure_id:
                ops = st.get("o", [])
                if field_idx < len(ops):
                    return pb, ops[field_idx]
    return None


def callable_body(prog, body, operand):
    """The body a callable operand denotes: a closure built in `body` (its aggregate) or a function item
    (`sort_by(compare)` / `map_err(convert)`): the two spellings of the same thing.  None if it is neither."""
    if operand is None:
        return None
    if "fn" in operand:
        return prog.body(operand["fn"])
    l = op_local(operand)
    if l is None:
        return None
    tr = trace_back(body, l)
    if not tr:
        return None
    last = tr[-1]
    if last[0] == "agg":
        return prog.body(last[1])
    if last[0] == "fn":
        return prog.body(last[1])
    return None


ITER_SELECT = re.compile(r"Iterator::(filter|filter_map|take|skip|step_by|take_while|skip_while|find|find_map|max_by|max_by_key|min_by|min_by_key|last|nth|reduce|position|max|min)$"
                         r"|<impl \[T\]>::(first|last|get|split_at|split_first|split_last|chunks|windows)$|::(dedup|dedup_by|dedup_by_key|retain|truncate|drain|split_off|swap_remove|pop)$")
ITER_PASS = re.compile(r"IntoIterator>?::into_iter$|<impl \[T\]>::iter$|::iter$|::iter_mut$|Iterator::(map|by_ref|copied|cloned|enumerate|rev|inspect|zip|chain|flat_map|flatten|peekable|fuse|map_while)$"
                       r"|Deref::deref$|::as_slice$|AsRef::as_ref$|Borrow::borrow$")
ITER_CONSUME = re.compile(r"Iterator::(sum|fold|try_fold|for_each|try_for_each|product|count|collect|all|any|unzip|extend)$|Extend::extend$|Sum::sum$")


def whole_iteration(prog, body, src_block):
    """Is every element of the collection returned by the call in `src_block` visited?  Two spellings are accepted:
    a loop driven by `Iterator::next` on an iterator over it, or an adaptor chain that ends in a consumer of the whole
    sequence (sum / fold / try_fold / for_each / collect ...); in both, no selecting adaptor (filter, take, skip, find,
    first, ...) may sit between the collection and the consumer.  Returns (form or None, reason)."""
    t0 = body.term(src_block)
    d = t0.get("dest")
    if d is None or not is_bare(d):
        return None, "the result of the source call is not kept in a local"
    from .model import flows_to
    frontier = set(flows_to(body, d))

    def close_refs():
        grew = True
        while grew:
            grew = False
            for bi_ in body.normal_blocks():
                for st in body.stmts(bi_):
                    if st.get("r") == "ref" and is_bare(st["d"]) and place_local(st["p"]) in frontier and st["d"] not in frontier:
                        frontier.update(flows_to(body, st["d"]))
                        frontier.add(st["d"])
                        grew = True
    seen_calls = set()
    form = None
    changed = True
    while changed:
        changed = False
        close_refs()
        for bi, t in body.calls():
            if bi in seen_calls or not t.get("args"):
                continue
            a0 = op_local(t["args"][0])
            if a0 is None or a0 not in frontier:
                continue
            f = t.get("f") or ""
            seen_calls.add(bi)
            if ITER_SELECT.search(f):
                return None, "`%s` selects among the elements" % short(f)
            if f.endswith("Iterator::next"):
                if bi in body.reachable(tuple(body.succ(bi))):
                    form = form or "loop"
                else:
                    return None, "a single `next()` outside a loop takes one element only"
                continue
            if ITER_CONSUME.search(f):
                form = form or "chain"
                continue
            if ITER_PASS.search(f) and is_bare(t.get("dest", {"l": 0})) and "dest" in t:
                new = set(flows_to(body, t["dest"])) - frontier
                if new:
                    frontier |= new
                    changed = True
    if form is None:
        return None, "neither a `next()` loop nor a whole-sequence consumer (sum, fold, try_fold, for_each, collect ...) uses it"
    return form, "%s over the whole collection" % form


def trace_back_deep(body, local, rounds=4):
    """trace_back that also sees through a value packed into a struct / tuple and taken out again (`let S { a, b } = f();`
    after f was inlined, `let (a, b) = (x, y);`): when the chain ends in an aggregate and the last projection before it
    selected field k, it goes on from the aggregate's operand k.  Returns the final chain."""
    tr = trace_back(body, local)
    for _ in range(rounds):
        if not tr or tr[-1][0] != "agg" or len(tr[-1]) < 4:
            return tr
        flds = [s for s in tr[:-1] if s[0] == "field"]
        if not flds:
            return tr
        k = flds[-1][1]
        st = body.stmts(tr[-1][2])[tr[-1][3]]
        ops = st.get("o", [])
        if not isinstance(k, int) or k >= len(ops):
            return tr
        l2 = op_local(ops[k])
        if l2 is None:
            return tr
        tr = trace_back(body, l2)
    return tr
