"""Panic inventory: every construct in a scope that can panic, keyed without line numbers."""
from collections import Counter, defaultdict

P1 = ("core::panicking::panic", "core::panicking::panic_fmt", "core::panicking::panic_display", "core::panicking::unreachable_display",
      "core::panicking::assert_failed", "core::panicking::panic_explicit", "std::rt::begin_panic", "core::panicking::panic_nounwind",
      "core::option::expect_failed", "core::result::unwrap_failed", "core::option::unwrap_failed", "core::panicking::assert_matches_failed")
P2_SUFFIX = ("Option::<T>::unwrap", "Option::<T>::expect", "Result::<T, E>::unwrap", "Result::<T, E>::expect", "Result::<T, E>::unwrap_err",
             "Result::<T, E>::expect_err")
P3_SUFFIX = ("ops::index::Index::index", "ops::index::IndexMut::index_mut", "<impl [T]>::split_at", "<impl [T]>::split_at_mut",
             "<impl [T]>::copy_from_slice", "<impl [T]>::clone_from_slice", "Vec::<T, A>::remove", "Vec::<T, A>::insert",
             "Vec::<T, A>::swap_remove", "Vec::<T, A>::drain", "<impl str>::split_at", "String::remove", "String::insert",
             "String::insert_str", "String::drain", "String::replace_range", "String::truncate", "Vec::<T, A>::split_off",
             "<impl [T]>::swap", "<impl [T]>::chunks", "<impl [T]>::windows", "<impl [T]>::chunks_exact", "VecDeque::<T, A>::remove",
             "RefCell::<T>::borrow_mut", "RefCell::<T>::borrow", "<impl [T]>::rotate_left", "<impl [T]>::rotate_right",
             "Iterator::step_by", "char::from_digit", "Duration::new")


def classify_call(t):
    f = t.get("f") or ""
    res = t.get("res") or ""
    if f in P1 or (f.startswith("core::panicking::") or f.startswith("std::rt::begin_panic")):
        return "P1", f.split("::")[-1]
    for s in P2_SUFFIX:
        if f.endswith(s):
            return "P2", s.replace("::<T, E>", "").replace("::<T>", "")
    for s in P3_SUFFIX:
        if f.endswith(s) or res.endswith(s):
            return "P3", s.split("::")[-1] if "Index" not in s else "index"
    return None


def inventory(prog, scope_ids):
    """returns dict key -> list of sites; key = (function, class, kind)"""
    inv = defaultdict(list)
    for fid in sorted(scope_ids):
        body = prog.body(fid)
        if body is None or body.kind in ("const", "static", "promoted"):
            continue
        for b in body.normal_blocks():
            t = body.term(b)
            if t["k"] == "assert":
                m = t["msg"]
                if m.startswith("Overflow") or m in ("OverflowNeg", "DivisionByZero", "RemainderByZero"):
                    inv[(fid, "P4", m)].append((body, b))
                elif m == "BoundsCheck":
                    inv[(fid, "P3", "BoundsCheck")].append((body, b))
                elif m in ("Misaligned", "NullDeref"):
                    continue  # compiler-inserted debug checks on raw pointer derefs
                else:
                    inv[(fid, "P1", "assert:" + m)].append((body, b))
            elif t["k"] == "call":
                c = classify_call(t)
                if c:
                    inv[(fid, c[0], c[1])].append((body, b))
    return inv


def root_fn(fid):
    """the function a closure is written in (`f::{closure#0}::{closure#1}` -> `f`)"""
    import re
    return re.sub(r"(::\{closure#\d+\})+$", "", fid)


def fold_closures(inv):
    """inventory keyed by the function a site is written in: whether a panicking construct sits in the body of `f` or in
    a closure inside `f` is a matter of spelling (`for` loop / iterator adaptor), not of reachability"""
    out = defaultdict(list)
    for (fid, cls, kind), sites in inv.items():
        out[(root_fn(fid), cls, kind)].extend(sites)
    return out


def fold_table(table, prog=None):
    out = {}
    for (fid, cls, kind), (cnt, why) in table.items():
        fids = [root_fn(fid)]
        if prog is not None and fids[0] not in prog.bodies and fids[0] in prog.gone:
            # the function was inlined into its former callers and deleted: its triaged sites are theirs now
            fids = [root_fn(c) for c in prog.gone[fids[0]]]
            why = why + " (triaged in `%s`, since inlined here)" % fid.split("::")[-1]
        for f in fids:
            k = (f, cls, kind)
            if k in out:
                out[k] = (out[k][0] + cnt, out[k][1] + "; " + why)
            else:
                out[k] = (cnt, why)
    return out
