"""C01-R3 terminate-or-fail: a value that owns a `TerminatingWrite` must leave every function
through a move (into `terminate`, a callee, a container, the return value) — never through a
silent `Drop` on an Ok path.  Works on drop-elaborated MIR: a `Drop` terminator of a place that
was definitely moved has already been removed by the compiler; conditionally-moved places are
guarded by drop flags which `feasible_edges` propagates."""
from .model import feasible_edges, place_str, place_local, op_place, place_proj
from .rules import short, site

TW = "tantivy_common::writer::TerminatingWrite"
# concrete leaf writers (impl TerminatingWrite, not generic wrappers)
LEAF_HINT = ("SafeFileWriter", "VecWriter")


def _leaf_adts(prog):
    out = set()
    for im in prog.impls:
        if im.get("trait") == TW:
            row = prog.impl_self_ty(im)
            if row["k"] == "adt" and not row.get("a"):
                out.add(row["def"])
    return out


def owns_tw(prog, crate, tid, leafs, tw_params, memo):
    key = (crate, tid)
    if key in memo:
        return memo[key]
    memo[key] = False   # cycle guard
    row = prog.crate_types[crate][tid]
    k = row["k"]
    res = False
    if k in ("ref", "ptr", "fnptr", "fndef", "prim", "never"):
        res = False
    elif k == "dyn":
        res = TW in row.get("tr", [])
    elif k == "param":
        res = row["s"] in tw_params
    elif k == "adt":
        d = row.get("def")
        if d in leafs:
            res = True
        elif d in ("alloc::sync::Arc", "alloc::rc::Rc", "alloc::sync::Weak", "core::marker::PhantomData",
                   "std::sync::mpmc::Sender", "std::sync::mpsc::Sender", "std::sync::mpsc::Receiver",
                   "crossbeam_channel::channel::Sender", "crossbeam_channel::channel::Receiver"):
            # shared ownership / channels: dropping a handle is not dropping the writer
            res = False
        else:
            for a in row.get("a", []):
                if owns_tw(prog, crate, a, leafs, tw_params, memo):
                    res = True
                    break
            if not res:
                adt = prog.adts.get(d)
                if adt is not None:
                    for v in adt["variants"]:
                        for f in v["fields"]:
                            if owns_tw(prog, adt["_crate"], f["ty"], leafs, _adt_tw_params(prog, adt), memo):
                                res = True
                                break
                        if res:
                            break
    elif k in ("tuple", "array", "slice", "closure", "coroutine"):
        for a in row.get("a", []):
            if owns_tw(prog, crate, a, leafs, tw_params, memo):
                res = True
                break
    memo[key] = res
    return res


def _adt_tw_params(prog, adt):
    # type parameters of ADT definitions are judged at the use site (through the args walk)
    return frozenset()


def tw_params_of(prog, body):
    b = body
    if body.kind == "closure":
        root = prog.body(body.raw.get("root", ""))
        if root is not None:
            b = root
    # a parameter bounded by TerminatingWrite, or by Write when the function is an impl on a wrapper
    return frozenset(p for p, tr in b.raw.get("bounds", []) if tr == TW)


def is_ok_path_function(body):
    return True


def candidate_drops(prog, body, leafs, memo_by_params):
    twp = tw_params_of(prog, body)
    memo = memo_by_params.setdefault((body.crate, twp), {})
    out = []
    drops = []
    for b in body.normal_blocks():
        t = body.term(b)
        if t["k"] == "drop":
            if owns_tw(prog, body.crate, t["ty"], leafs, twp, memo):
                drops.append((b, t, "drop"))
        elif t["k"] == "call":
            f = t.get("f", "")
            if f in ("core::mem::drop", "core::mem::forget"):
                ga = t.get("ga", [])
                if ga and owns_tw(prog, body.crate, ga[0], leafs, twp, memo):
                    drops.append((b, t, f.split("::")[-1] + "()"))
    if not drops:
        return out
    eb = body.error_blocks() if body.returns_result() or _returns_poll_result(body) else set()
    reached, edges = feasible_edges(body, blocked=frozenset(eb))
    # blocks from which an Ok exit is still reachable
    for (b, t, how) in drops:
        if b in reached:
            out.append((b, t, how))
    return out


def _returns_poll_result(body):
    return "core::result::Result" in body.ret_ty()["s"]


def drop_key(body, t, how):
    if how == "drop":
        pl = t["place"]
        names = body.var_names()
        base = names.get(place_local(pl), None)
        if base is None:
            base = "self" if place_local(pl) == 1 and body.argc >= 1 and "self" in str(body.raw.get("names", {})) else "_tmp"
        fields = [e.split(":")[2] or e.split(":")[1] for e in place_proj(pl) if e.startswith("f:")]
        what = ".".join([base] + fields)
        ty = body.types[t["ty"]]["s"]
    else:
        o = t["args"][0]
        p = op_place(o)
        names = body.var_names()
        what = how + " " + (names.get(place_local(p), "_tmp") if p is not None else "const")
        ty = body.types[t["ga"][0]]["s"]
    return what, ty


# (function, dropped place, reason).  Each entry was confirmed by reading the function.
I = "tantivy::indexer::"
ALLOWED = {
    (I + "index_writer::index_documents", "segment_writer"):
        "early `return Ok(())` when the segment updater was killed: the half-written segment is abandoned, "
        "its files are never referenced by any meta and are collected later",
    (I + "segment_serializer::SegmentSerializer::close", "self.fieldnorms_serializer"):
        ("taker", I + "segment_serializer::SegmentSerializer::extract_fieldnorms_serializer", "fieldnorms_serializer",
         "the Option was emptied by extract_fieldnorms_serializer() (Option::take) at function entry; "
         "the extracted serializer is closed or has been handed out earlier"),
    ("tantivy::directory::directory::try_acquire_lock", "write"):
        "lock file: carries no data, flushed; its existence is the lock (no footer / fsync needed)",
    ("<tantivy::directory::managed_directory::ManagedDirectory as tantivy::directory::directory::Directory>::open_write::{closure#1}", "_tmp"):
        "the IntoInnerError of a freshly opened, empty BufWriter inside map_err(|_| ()) — followed by expect(): never on a real Ok path",
    ("tantivy_common::writer::TerminatingWrite::terminate", "self"):
        "the definition of termination: terminate_ref(&mut self) ran (its Ok-continuation dominates this drop)",
}


def _check_taker(prog, body, drop_block, spec):
    _, taker, field, _reason = spec
    from .model import proj_fields, op_local
    calls = [b for b, t in body.calls() if taker in prog.call_targets(t)]
    if not calls:
        return False, "no call to %s in %s" % (taker, body.id)
    dom = body.dominators()
    if not any(c in dom.get(drop_block, ()) for c in calls):
        return False, "the call to %s does not dominate the drop" % short(taker)
    tb = prog.body(taker)
    if tb is None:
        return False, "taker body not found"
    # the taker must-call Option::take on a reference to the field
    takes = [(b, t) for b, t in tb.calls() if t.get("f", "").endswith("Option::<T>::take")]
    okf = False
    for b, t in takes:
        l = op_local(t["args"][0])
        for d in tb.defs().get(l, []):
            if d[0] == "stmt" and d[3].get("r") == "ref" and any(f[1] == field for f in proj_fields(d[3]["p"])):
                okf = True
    if not okf:
        return False, "%s does not call Option::take on field `%s`" % (short(taker), field)
    from .model import must_pass, Ev
    bad = must_pass(tb, [Ev(b, "term") for b, _ in takes], exits="all")
    if bad:
        return False, "%s can return without taking the field" % short(taker)
    return True, "%s dominates the drop and always take()s `%s`" % (short(taker), field)


def rule_terminate_or_fail(rep, prog, rule, allowed=None, report_all=False):
    allowed = ALLOWED if allowed is None else allowed
    leafs = _leaf_adts(prog)
    if len(leafs) < 2:
        rep.fail(rule, "anchor:leaf writers", "cannot establish: expected the concrete TerminatingWrite impls "
                 "(SafeFileWriter, VecWriter), found %s" % sorted(leafs))
        return
    memo_by_params = {}
    nbodies = 0
    ncand = 0
    seen_allowed = set()
    owning_locals = 0
    for body in prog.bodies.values():
        if body.kind in ("const", "static", "promoted"):
            continue
        nbodies += 1
        cands = candidate_drops(prog, body, leafs, memo_by_params)
        for (b, t, how) in cands:
            ncand += 1
            what, ty = drop_key(body, t, how)
            k = (body.id, what)
            if k in allowed and isinstance(allowed[k], tuple):
                seen_allowed.add(k)
                ok, why = _check_taker(prog, body, b, allowed[k])
                rep.check(ok, rule, "%s: %s of `%s`" % (short(body.id), how, what), "permitted: " + allowed[k][3] + " — " + why,
                          "taker condition failed: " + why, site=site(body, b))
                continue
            if k in allowed:
                seen_allowed.add(k)
                rep.ok(rule, "%s: %s of `%s`" % (short(body.id), how, what), "permitted: " + allowed[k], site=site(body, b))
                continue
            rep.fail(rule, "%s: Ok-path %s of `%s`" % (short(body.id), how, what),
                     "a value of type `%s` that owns a TerminatingWrite is dropped on a path that returns Ok "
                     "(writer closed without terminate(): data not synced, footer not appended)" % ty,
                     site=site(body, b))
    # how many bodies handle owning values at all (moves into terminate etc.)
    term_calls = prog.who_calls(set(prog.method_family(TW + "::terminate")))
    rep.floor(rule, "calls to TerminatingWrite::terminate", len(term_calls), 6)
    rep.ok(rule, "scan", "%d bodies scanned; %d Ok-path drop candidate(s) of writer-owning values; %d terminate() call sites"
           % (nbodies, ncand, len(term_calls)))
    for k in allowed:
        if k not in seen_allowed:
            rep.stale(rule, "%s / %s" % (short(k[0]), k[1]), "permitted drop `%s` in `%s`" % (k[1], k[0]))
    rep.stale_floor(rule, "permitted Ok-path drops", len(allowed))
