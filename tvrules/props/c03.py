"""C03 — queries match exactly the documents their meaning prescribes: only (1) the deleted-docs
discipline of every counting / collecting path and (2) the agreement of sibling Weight methods."""
from ..model import (Ev, must_pass, must_precede, trace_through, trace_back, op_local, op_place, place_local,
                     is_bare, provenance, proj_fields, flows_to)
from ..rules import (rule_precede, rule_must_pass, get_body, calls_to, site, short, rule_who_may_call, family, return_defs)

W = "tantivy::query::weight::Weight::"
DS = "tantivy::docset::DocSet::"
SR = "tantivy::index::segment_reader::SegmentReader::"
BW = "<tantivy::query::boolean_query::boolean_weight::BooleanWeight<TScoreCombiner> as tantivy::query::weight::Weight>::"
TW = "<tantivy::query::term_query::term_weight::TermWeight as tantivy::query::weight::Weight>::"
SBS = "<tantivy::collector::sort_key::sort_by_score::SortBySimilarityScore as tantivy::collector::sort_key::sort_key_computer::SortKeyComputer>::collect_segment_top_k"
DCS = "tantivy::collector::default_collect_segment_impl"


def option_arms(body, names):
    """(none_blocks, some_blocks): targets of the discriminant switches on the Option returned by
    a call to `names` (possibly wrapped in a tuple first)."""
    dests = set()
    for b, t in body.calls():
        if {t.get("f"), t.get("res")} & set(names) and is_bare(t["dest"]):
            dests |= flows_to(body, t["dest"])
    # tuples containing the option
    changed = True
    while changed:
        changed = False
        for bi in body.normal_blocks():
            for st in body.stmts(bi):
                if st.get("r") == "agg" and st.get("ak") == "tuple" and is_bare(st["d"]) and st["d"] not in dests:
                    if any(op_local(o) in dests for o in st["o"]):
                        dests.add(st["d"])
                        dests |= flows_to(body, st["d"])
                        changed = True
    none_t, some_t = set(), set()
    for bi in body.normal_blocks():
        tt = body.term(bi)
        if tt["k"] != "switch":
            continue
        for st in body.stmts(bi):
            if st.get("r") == "discr" and place_local(st["p"]) in dests and op_local(tt["on"]) == place_local(st["d"]):
                vals = dict((v, tg) for v, tg in tt["vals"])
                if "0" in vals:
                    none_t.add(vals["0"])
                    some_t.add(vals.get("1", tt["else"]))
                elif "1" in vals:
                    some_t.add(vals["1"])
                    none_t.add(tt["else"])
    return none_t, some_t


def closure_filters_alive(prog, body, t, argi):
    """the closure passed as argument argi calls AliveBitSet::is_alive / is_deleted"""
    o = t["args"][argi]
    l = op_local(o)
    if l is None:
        return False
    # the callback is `&mut closure`: follow refs/casts back to the closure aggregate
    steps = trace_through(body, l)
    cdef = [s for s in steps if s[0] == "agg" and "{closure" in str(s[1])]
    if not cdef:
        return False
    cb = prog.body(cdef[0][1])
    if cb is None:
        return False
    return any(ct.get("f", "").endswith("AliveBitSet::is_alive") or ct.get("f", "").endswith("AliveBitSet::is_deleted") for _, ct in cb.calls())


def run(rep, prog, tier):
    rep.rule("C03-R1", "deleted documents are invisible on every counting / collecting path: each consumer of a raw enumerator (Weight::for_each*, count_including_deleted, TermInfo::doc_freq) either sits on the arm where SegmentReader::alive_bitset() is None, or filters through the alive bitset; pure delegations are recognised; the set of consumers equals the frozen table")
    rep.rule("C03-R2", "the answer is the same by counting, collecting or ranking: every impl Weight that overrides for_each / for_each_no_score / for_each_pruning / count builds its scorers through the same constructor as scorer(); a short-cut present in only one sibling must be guarded so that it agrees (BooleanWeight's single-clause short-cut must test minimum_number_should_match)")
    rep.not_decided += ["the meaning of every query type over every corpus (the bulk of the property): values"]
    r1(rep, prog)
    r2(rep, prog)
    r3(rep, prog)
    r4(rep, prog)
    r5(rep, prog)
    rep.rule("C03-R6", "a docset answers for the document it is on (shared with C13-R4): when a DocSet type's advance and seek both reset a field of self (a cache of the current document's data, e.g. the positions of a phrase term), every other moving method it overrides (seek_danger, fill_buffer, fill_bitset_block) resets it too — a forwarder that moves the inner docset and keeps the cache makes a conjunction match documents with the words in the wrong place and drop matching ones")
    from ..report import Retag
    from .c13 import sibling_resets
    sibling_resets(Retag(rep, "C03-R6"), prog, "C03-R6")


PHRASE_SCRATCH = {
    ".positions_buffer": "reusable allocation of the carrying-slop intersection, overwritten before it is read",
    ".slops_buffer": "same",
}


def r5(rep, prog):
    """a phrase matches the same documents whether or not it is scored"""
    import re
    from ..mergecov import Aliases, fmt_path
    R = "C03-R5"
    rep.rule(R, "the phrase matcher has two final steps over the state compute_phrase_match leaves in the scorer — compute_phrase_count when scores are needed, phrase_exists when they are not; 'the answer is the same ... with scoring enabled or disabled' needs both to decide from the same state: every field of PhraseScorer that compute_phrase_match writes and compute_phrase_count reads (scratch buffers tabled) is also read by phrase_exists. A field only the counting sibling looks at (the slop already spent between the first terms, left_slops) makes the two paths accept different documents")
    P = "tantivy::query::phrase_query::phrase_scorer::PhraseScorer::<TPostings>::"
    sets = {}
    for m in ("compute_phrase_match", "compute_phrase_count", "phrase_exists"):
        b = get_body(rep, prog, R, P + m)
        if b is None:
            return
        al = Aliases(b, {1: "self"})
        rd, wr = set(), set()
        for u in al.uses():
            if u[1] != "self" or not u[2]:
                continue
            f = fmt_path(u[2][:1])
            if u[0] in ("r", "rw", "mv"):
                rd.add(f)
            if u[0] in ("w", "rw"):
                wr.add(f)
        sets[m] = (rd, wr, b)
    state = sets["compute_phrase_match"][1] & sets["compute_phrase_count"][0]
    rep.floor(R, "fields the matcher leaves for its final step", len(state), 3)
    for f in sorted(state):
        if f in PHRASE_SCRATCH:
            rep.ok(R, "PhraseScorer%s (scratch)" % f, PHRASE_SCRATCH[f])
            continue
        rep.check(f in sets["phrase_exists"][0], R, "phrase_exists reads PhraseScorer%s like compute_phrase_count" % f, "read by both final steps",
                  "compute_phrase_match writes PhraseScorer%s and compute_phrase_count reads it, but phrase_exists — the final step used when scoring is disabled — never does: the two paths decide from different state. "
                  "For a sloppy phrase of three or more terms the counting path charges the slop already spent between the first terms, the existence path grants the full slop again for the last term: "
                  "`\"a b c\"~1` matches `a x b x c` when counting or collecting doc ids and does not when ranking" % f, site=sets["phrase_exists"][2].span)


# AllScorer::new call sites: function -> list of evidence every site in it needs.  An evidence is
# (kind, regex-or-value): ('call', regex) a guard decided by that call, ('param', i), ('variant', name).
MATCH_ALL_SITES = {
    "<tantivy::query::all_query::AllWeight as tantivy::query::weight::Weight>::scorer":
        (1, [], "AllQuery matches every document by definition"),
    "tantivy::query::boolean_query::boolean_weight::effective_must_scorer":
        (1, [("param", 2)], "restores match-all only when AllScorer clauses were removed from the MUST list (removed_all_scorer_count > 0)"),
    "tantivy::query::boolean_query::boolean_weight::effective_should_scorer_for_union":
        (2, [("param", 2)], "same, for the SHOULD union"),
    "<tantivy::query::exist_query::ExistsWeight as tantivy::query::weight::Weight>::scorer":
        (1, [("call", r"Iterator>::any$")], "some column of the field has a Full index: every document has a value"),
    "<tantivy::query::range_query::range_query_fastfield::FastFieldRangeWeight as tantivy::query::weight::Weight>::scorer":
        (1, [("call", r"BoundsRange::<T>::is_unbounded$")], "a range without bounds matches every document"),
    "tantivy::query::range_query::range_query_fastfield::search_on_u64_ff":
        (2, [("variant", "Full"), ("call", r"Column::<T>::min_value$"), ("call", r"Column::<T>::max_value$")],
         "every value of the column is inside the range AND the column has exactly one value per document (Cardinality::Full): an optional or multivalued column can hold documents without a value"),
    "tantivy::query::term_query::term_weight::TermWeight::specialized_scorer":
        (1, [("call", r"SegmentReader::max_doc$"), ("call", r"InvertedIndexReader::get_term_info$")], "the term's doc_freq equals max_doc: the posting list holds every document (only when scores are not needed)"),
}


def place_proj_has_field(p):
    return False


def r4(rep, prog):
    import re
    from ..rules import dominating_guards, guard_evidence, place_ty
    R = "C03-R4"
    rep.rule(R, "match-all shortcuts are justified: every construction of an AllScorer (a scorer that matches the whole doc-id space without looking at any data) is a tabled site whose guards — the switches that control whether the site is reached — are decided by the evidence recorded for it (the column's cardinality being Full and min/max inside the range for the fast-field range path; is_unbounded(); doc_freq == max_doc; removed AllScorer clauses; ...). A new site, or a site whose guard no longer rests on that evidence, is reported")
    names = prog.names(r"all_query::AllScorer::new$")
    seen = {}
    for b, bi, t in prog.who_calls(set(names)):
        if "::tests::" in b.id:
            continue
        seen.setdefault(b.id, []).append((b, bi))
    for fid, sites_ in sorted(seen.items()):
        if fid not in MATCH_ALL_SITES:
            rep.fail(R, "%s: untabled match-all shortcut" % short(fid), "`%s` builds an AllScorer (matches every document of the segment without reading data) and is not in the reviewed table: "
                     "the condition under which all documents match must be reviewed" % fid, site=site(sites_[0][0], sites_[0][1]))
            continue
        cnt, need, why = MATCH_ALL_SITES[fid]
        rep.check(len(sites_) <= cnt, R, "%s: number of match-all sites" % short(fid), "%d site(s)" % len(sites_),
                  "%d AllScorer sites in `%s`, the table has %d" % (len(sites_), fid, cnt), site=site(sites_[0][0], sites_[0][1]))
        for k, (b, bi) in enumerate(sites_):
            ev = set()
            guards = list(dominating_guards(b, bi))
            # a materialised boolean (`matches!`, `a && b`): the guards of the blocks that assign the taken value
            for sb, arms, l in list(guards):
                ds_ = b.defs().get(l, [])
                if len(ds_) >= 2 and all(d[0] == "stmt" and d[3].get("r") == "use" and "v" in (d[3].get("o") or [{}])[0] for d in ds_):
                    want_true = arms != ("0",)
                    for d in ds_:
                        val = str(d[3]["o"][0].get("v")) not in ("0", "false")
                        if val == want_true:
                            guards.extend(dominating_guards(b, d[1]))
            for sb, arms, l in guards:
                ev |= guard_evidence(prog, b, l)
                # a `match` / `matches!` on an enum: the variants of the arms through which the site is reached
                ds = b.defs().get(l, [])
                if len(ds) == 1 and ds[0][0] == "stmt" and ds[0][3].get("r") == "discr":
                    pty = place_ty(prog, b, ds[0][3]["p"])
                    while pty is not None and pty.get("k") == "ref":
                        pty = dict(prog.crate_types[pty.get("_crate", b.crate)][pty["a"][0]], _crate=pty.get("_crate", b.crate)) if pty.get("a") else None
                    adt = prog.adts.get(pty.get("def")) if pty is not None and pty.get("k") == "adt" else None
                    if adt is not None and adt["kind"] == "enum":
                        by_discr = {str(v.get("discr", i)): v["name"] for i, v in enumerate(adt["variants"])}
                        for a in arms:
                            if a in by_discr:
                                ev.add(("variant", adt["path"], by_discr[a]))
            missing = []
            for kind, val in need:
                if kind == "call":
                    okk = any(e[0] == "call" and re.search(val, e[1]) for e in ev)
                elif kind == "param":
                    okk = ("param", val) in ev
                else:
                    okk = any(e[0] == "variant" and e[2] == val for e in ev)
                if not okk:
                    missing.append("%s %s" % (kind, val))
            rep.check(not missing, R, "%s: match-all site #%d is guarded by its recorded evidence" % (short(fid), k + 1), why,
                      "the AllScorer shortcut in `%s` is no longer controlled by %s (%s): documents that do not match can be returned" % (fid, missing, why), site=site(b, bi))
    for fid in MATCH_ALL_SITES:
        if fid not in seen:
            rep.fail(R, "stale table entry %s" % short(fid), "the tabled match-all site no longer exists: the table must be re-confirmed")


def classify_docspace(body, o):
    """'max_doc' | 'num_docs' | None for an operand, from where its value comes"""
    l = op_local(o)
    if l is None:
        return None
    names = body.var_names()
    tr = trace_back(body, l)
    kinds = set()
    for s_ in tr:
        if s_[0] == "call":
            base = s_[1].split("::")[-1]
            # only the segment reader's own quantities (columnar `num_docs()` is a row count)
            if base in ("max_doc", "num_docs") and "segment_reader::SegmentReader::" in s_[1]:
                kinds.add(base)
        if s_[0] == "param" and names.get(s_[1]) in ("max_doc", "num_docs"):
            kinds.add(names[s_[1]])
        if s_[0] == "field" and s_[2] in ("max_doc", "num_docs"):
            kinds.add(s_[2])
    cur = l
    for _ in range(6):
        if names.get(cur) in ("max_doc", "num_docs"):
            kinds.add(names[cur])
        ds = body.defs().get(cur, [])
        if len(ds) == 1 and ds[0][0] == "stmt" and ds[0][3].get("r") == "use" and op_place(ds[0][3]["o"][0]) is not None and is_bare(op_place(ds[0][3]["o"][0])):
            cur = op_local(ds[0][3]["o"][0])
        else:
            break
    return kinds.pop() if len(kinds) == 1 else None


def r3(rep, prog):
    R = "C03-R3"
    rep.rule(R, "doc-id space vs live count: wherever a function of the query / collector code has a parameter named max_doc (size of the doc-id space) or num_docs (number of live documents), no call site passes a value that provably is the other quantity (SegmentReader::max_doc() vs num_docs(), or a parameter / field / local so named)")
    n = 0
    nclass = 0
    for b in prog.bodies.values():
        if not (b.span.startswith("src/query") or b.span.startswith("src/collector")) or b.kind in ("const", "static", "promoted"):
            continue
        for bi, t in b.calls():
            for callee in prog.call_may_reach(t):
                cb = prog.body(callee)
                if cb is None or not (callee.startswith("tantivy::query::") or callee.startswith("<tantivy::query::")):
                    continue
                cnames = cb.var_names()
                for i in range(1, cb.argc + 1):
                    want = cnames.get(i)
                    if want not in ("max_doc", "num_docs") or i - 1 >= len(t["args"]):
                        continue
                    n += 1
                    got = classify_docspace(b, t["args"][i - 1])
                    if got is None:
                        continue
                    nclass += 1
                    rep.check(got == want, R, "%s -> %s: argument `%s` receives a %s" % (short(b.id), short(callee).split("::")[-1], want, got),
                              "argument %d is a %s" % (i, got),
                              "`%s` passes a %s where `%s` expects `%s`: with deleted documents the doc-id space is larger than the live count, so documents with ids >= num_docs are dropped (or phantom ids appear)" % (b.id, got, callee, want),
                              site=site(b, bi))
    rep.floor(R, "call sites with a max_doc / num_docs parameter", n, 25)
    rep.floor(R, "of which the argument's origin is identified", nclass, 20)


def r1(rep, prog):
    R = "C03-R1"
    FE = set(prog.method_family(W + "for_each")) | set(prog.method_family(W + "for_each_no_score")) | set(prog.method_family(W + "for_each_pruning"))
    CID = set(prog.method_family(DS + "count_including_deleted"))
    ALIVE = {SR + "alive_bitset"}
    # who consumes raw enumerators
    allowed_fe = {
        DCS: "the generic collect path (checked below arm by arm)",
        SBS: "top-K by score with block-WAND (checked below)",
        "tantivy::indexer::index_writer::compute_deleted_bitset": "writer side: applies delete queries; filters by opstamp and intersects with the existing bitset itself",
    }
    rule_who_may_call(rep, prog, R, {W + "for_each", W + "for_each_no_score", W + "for_each_pruning"}, "Weight::for_each*", allowed_fe)
    for fid in (DCS, SBS):
        body = get_body(rep, prog, R, fid)
        if body is None:
            continue
        none_t, some_t = option_arms(body, ALIVE)
        if not rep.check(bool(none_t) and bool(some_t), R, "%s tests alive_bitset()" % short(fid), "Option arms found", "`%s` no longer branches on SegmentReader::alive_bitset(): deleted documents reach the collector" % fid, site=body.span):
            continue
        some_reach = set()
        for s in some_t:
            some_reach |= body.reachable((s,), blocked=frozenset(none_t))
        none_reach = set()
        for s in none_t:
            none_reach |= body.reachable((s,), blocked=frozenset(some_t))
        n = 0
        for b, t in body.calls():
            if not (prog.call_targets(t) & FE):
                continue
            n += 1
            argi = len(t["args"]) - 1
            filt = closure_filters_alive(prog, body, t, argi)
            on_some = b in some_reach and b not in none_reach
            on_none = b in none_reach and b not in some_reach
            ok = filt or on_none
            rep.check(ok, R, "%s: enumeration #%d respects deletes" % (short(fid), n), "callback filters through the alive bitset" if filt else "only on the no-deletes arm",
                      "in `%s` a Weight::for_each* call whose callback does not test the alive bitset is reachable when the segment has deletes: deleted documents are collected" % fid, site=site(body, b))
            if filt:
                rep.check(on_some, R, "%s: filtered enumeration #%d sits on the has-deletes arm" % (short(fid), n), "Some(alive_bitset) arm", "filtered enumeration outside the Some arm", site=site(body, b))
        rep.floor(R, "enumeration sites in %s" % short(fid), n, 2)
    # counting shortcuts
    for fid, raw_what in ((W + "count", "count_including_deleted"), (TW + "count", "TermInfo::doc_freq")):
        body = get_body(rep, prog, R, fid)
        if body is None:
            continue
        none_t, some_t = option_arms(body, ALIVE)
        if not rep.check(bool(none_t) and bool(some_t), R, "%s tests alive_bitset()" % short(fid), "Option arms found", "`%s` no longer branches on alive_bitset(): its count includes deleted documents" % fid, site=body.span):
            continue
        some_reach = set()
        for s in some_t:
            some_reach |= body.reachable((s,), blocked=frozenset(none_t))
        raw_blocks = []
        for b, t in body.calls():
            if prog.call_targets(t) & CID:
                raw_blocks.append(b)
        for bi in body.normal_blocks():
            for st in body.stmts(bi):
                pls = [op_place(o) for o in st.get("o", []) if op_place(o) is not None] + ([st["p"]] if "p" in st else [])
                if any(f[1] == "doc_freq" for pl in pls for f in proj_fields(pl)):
                    raw_blocks.append(bi)
        # closures reading doc_freq (term_info.map(|ti| ti.doc_freq))
        for r_ in prog.body_refs(body):
            cb = prog.body(r_)
            if cb is not None and "{closure" in r_:
                if any(f[1] == "doc_freq" for bi in cb.normal_blocks() for st in cb.stmts(bi) for pl in ([op_place(o) for o in st.get("o", []) if op_place(o) is not None] + ([st["p"]] if "p" in st else [])) for f in proj_fields(pl)):
                    # the closure is used at the call that receives it
                    for b, t in body.calls():
                        if any(o.get("fn") == r_ for o in t["args"]) or any(trace_back(body, op_local(o))[-1][:2] == ("agg", r_) for o in t["args"] if op_local(o) is not None and trace_back(body, op_local(o))):
                            raw_blocks.append(b)
        rep.check(bool(raw_blocks) and not any(b in some_reach for b in raw_blocks), R, "%s: the raw count (%s) is used only without deletes" % (short(fid), raw_what),
                  "%d raw site(s), all on the None arm" % len(raw_blocks),
                  "`%s` uses %s on a path where the segment has deletes (or the raw count site disappeared: %d found): deleted documents are counted" % (fid, raw_what, len(raw_blocks)), site=body.span)
        # on the Some arm the bitset-aware count is used
        CNT = set(prog.method_family(DS + "count"))
        cs = [b for b, t in body.calls() if prog.call_targets(t) & CNT]
        rep.check(any(b in some_reach for b in cs), R, "%s: with deletes it counts through the alive bitset" % short(fid), "DocSet::count(alive_bitset) on the Some arm",
                  "`%s` has no DocSet::count(alive_bitset) on the has-deletes arm" % fid, site=body.span)
    # delegations
    for fid in ("<tantivy::query::boost_query::BoostWeight as tantivy::query::weight::Weight>::count", "<tantivy::query::const_score_query::ConstWeight as tantivy::query::weight::Weight>::count",
                "<tantivy::collector::count_collector::Count as tantivy::collector::Collector>::collect_segment"):
        body = get_body(rep, prog, R, fid)
        if body is None:
            continue
        cs = [(b, t) for b, t in body.calls() if t.get("f") == W + "count"]
        others = [t.get("f") for b, t in body.calls() if t.get("f") != W + "count" and (prog.call_targets(t) & (FE | CID | {W + "scorer"}))]
        rep.check(len(cs) == 1 and not others, R, "%s is a pure delegation to Weight::count" % short(fid), "one call to the inner weight's count", "`%s` no longer delegates to Weight::count only (%s)" % (fid, others), site=body.span)
    # every override of the counting / collecting entry points, taken from the impl map
    CNT = set(prog.method_family(DS + "count"))
    CHECKED = {W + "count", TW + "count", DCS, SBS}
    fams = [("Weight::count", W + "count"), ("Collector::collect_segment", "tantivy::collector::Collector::collect_segment"),
            ("SortKeyComputer::collect_segment_top_k", "tantivy::collector::sort_key::sort_key_computer::SortKeyComputer::collect_segment_top_k")]
    n_over = 0
    for what, tm in fams:
        for fid in [tm] + prog.impls_of_method(tm):
            body = prog.body(fid)
            if body is None:
                continue
            n_over += 1
            if fid in CHECKED:
                rep.ok(R, "%s: %s" % (what, short(fid)), "checked arm by arm above", site=body.span)
                continue
            raw = [t.get("f") for b, t in body.calls() if prog.call_targets(t) & (FE | CID | CNT | {W + "scorer"})]
            deleg = [t.get("f") for b, t in body.calls() if t.get("f") in (W + "count", DCS, fams[2][1]) or t.get("res") in (DCS,)]
            # an override that computes a number without consulting anything is a count shortcut too
            rep.check(not raw and bool(deleg), R, "%s override %s only delegates" % (what, short(fid)), "delegates to %s" % sorted(set(short(d).split("::")[-1] for d in deleg)),
                      "`%s` overrides %s without delegating to a checked implementation (raw enumerators: %s): it was not established that deleted documents stay invisible on this path" % (fid, what, raw or "none, computes its own answer"),
                      site=body.span)
    rep.floor(R, "count / collect_segment / collect_segment_top_k implementations examined", n_over, 9)
    rule_who_may_call(rep, prog, R, {W + "count"}, "Weight::count", {
        "<tantivy::collector::count_collector::Count as tantivy::collector::Collector>::collect_segment": "Count collector",
        "<tantivy::query::boost_query::BoostWeight as tantivy::query::weight::Weight>::count": "delegation",
        "<tantivy::query::const_score_query::ConstWeight as tantivy::query::weight::Weight>::count": "delegation",
        "tantivy::query::query::Query::count": "sums per-segment counts",
    })
    rule_who_may_call(rep, prog, R, CID, "DocSet::count_including_deleted", {
        W + "count": "on the no-deletes arm only (above)",
        "<tantivy::query::boost_query::BoostScorer<S> as tantivy::docset::DocSet>::count_including_deleted": "wrapper forwarding",
        "<tantivy::query::union::bitset_union::BitSetPostingUnion<TDocSet> as tantivy::docset::DocSet>::count_including_deleted": "wrapper forwarding",
        "<&mut dyn tantivy::docset::DocSet as tantivy::docset::DocSet>::count_including_deleted": "wrapper forwarding",
        "<alloc::boxed::Box<TDocSet> as tantivy::docset::DocSet>::count_including_deleted": "wrapper forwarding",
    })


def scorer_constructors(prog, body):
    """callee names in body that build scorers (calls to *scorer* functions of the workspace)"""
    out = set()
    for b, t in body.calls():
        for n in prog.call_targets(t):
            base = n.split("::")[-1]
            if base in ("scorer", "complex_scorer", "specialized_scorer", "per_occur_scorers") and (n.startswith("tantivy::") or n.startswith("<tantivy::")):
                out.add(n)
    return out


def r2(rep, prog):
    R = "C03-R2"
    meths = ("for_each", "for_each_no_score", "for_each_pruning", "count")
    impls = [im for im in prog.impls if im.get("trait") == "tantivy::query::weight::Weight"]
    rep.floor(R, "impl Weight blocks", len(impls), 12)
    n_over = 0
    for im in impls:
        items = {i["name"]: i["path"] for i in im["items"]}
        over = [m for m in meths if m in items]
        if not over or "scorer" not in items:
            continue
        sb = prog.body(items["scorer"])
        if sb is None:
            continue
        sc = scorer_constructors(prog, sb)
        ty = prog.impl_self_ty(im)["s"].split("::")[-1]
        for m in over:
            mb = prog.body(items[m])
            if mb is None:
                continue
            n_over += 1
            mc = scorer_constructors(prog, mb)
            if items["scorer"] in mc:
                mc = (mc - {items["scorer"], W + "scorer"}) | sc   # goes through its own scorer()
            if m == "count" and any(t.get("f") == W + "count" for _, t in mb.calls()):
                rep.ok(R, "%s::%s delegates to the inner weight" % (ty, m), "pure delegation", site=mb.span)
                continue
            missing = mc - sc
            extra = sc - mc
            if not missing and not extra:
                rep.ok(R, "%s::%s builds scorers like scorer()" % (ty, m), "constructors: %s" % sorted(short(x).split("::")[-1] for x in mc), site=mb.span)
                continue
            # a short-cut present in scorer() only: must be guarded so that both agree
            if not missing and extra and "BooleanWeight" in ty:
                guarded = True
                why = ""
                dom = sb.dominators()
                for b, t in sb.calls():
                    if prog.call_targets(t) & extra:
                        reads = False
                        for d in dom.get(b, ()):
                            for st in sb.stmts(d):
                                pls = [op_place(o) for o in st.get("o", []) if op_place(o) is not None] + ([st["p"]] if "p" in st else [])
                                if any(f[1] == "minimum_number_should_match" for pl in pls for f in proj_fields(pl)):
                                    reads = True
                        if not reads:
                            guarded = False
                rep.check(guarded, R, "%s::%s vs scorer(): the single-clause short-cut honours minimum_number_should_match" % (ty, m),
                          "the short-cut in scorer() is dominated by a test reading minimum_number_should_match",
                          "BooleanWeight::scorer() short-cuts a single clause to the clause's own scorer without looking at minimum_number_should_match, while %s always goes through complex_scorer: "
                          "Count (scorer) and DocSetCollector/TopDocs (for_each*) disagree for one clause with a minimum the clause cannot satisfy" % m, site=sb.span)
                continue
            rep.fail(R, "%s::%s vs scorer()" % (ty, m), "`%s` builds its scorers through %s, scorer() through %s: the sibling methods can enumerate different documents"
                     % (items[m], sorted(short(x) for x in mc), sorted(short(x) for x in sc)), site=mb.span)
    rep.floor(R, "overridden sibling methods compared with scorer()", n_over, 9)
