"""C17 — a sorted index keeps every segment in sort order with unchanged semantics: only that the
one doc-id mapping reaches every structure that is written."""
from ..model import (Ev, must_precede, trace_through, trace_back, op_local, op_place, place_local, is_bare, provenance, proj_fields)
from ..rules import (rule_precede, rule_must_pass, get_body, calls_to, site, short, rule_who_may_call, option_root)

I = "tantivy::indexer::"
RW = I + "segment_writer::remap_and_write"
FIN = I + "segment_writer::SegmentWriter::finalize_inner"
MW = I + "merger::IndexMerger::write"


def run(rep, prog, tier):
    rep.rule("C17-R1", "the mapping reaches every structure: in remap_and_write the doc_id_map parameter is the argument of FieldNormsWriter::serialize, serialize_postings and FastFieldsWriter::serialize (not a constant None, not another value) and drives the store rewrite; finalize_inner hands the same mapping to remap_and_write and remap_doc_opstamps, after padding the fieldnorms; in IndexMerger::write the four writers receive the same mapping")
    rep.rule("C17-R2", "SegmentSerializer::for_segment opens the temp store exactly on the branch decided by (sort_by_field.is_some() || manual_doc_id_mapping) && !is_in_merge, the regular store on the other")
    rep.not_decided += ["the sort order itself, null placement, disjunctness tests (values)"]
    r1(rep, prog)
    r2(rep, prog)
    r3(rep, prog)
    r4(rep, prog)
    r5(rep, prog)
    r6(rep, prog)


def r6(rep, prog):
    """a typed arena map is read with the type it was written with"""
    import re
    R = "C17-R6"
    rep.rule(R, "typed arena maps are read with the type they were written with: ColumnarWriter keeps one ArenaHashMap per kind of column; ArenaHashMap stores plain bytes and get::<V> / read::<V> / mutate_or_create::<V> reinterpret them (MemoryArena::slice is unchecked). For every map field, all typed accesses in columnar::writer name the same value type V. sort_order — which computes the doc id permutation of a sorted segment — is one of the readers: reading a date column's ColumnWriter (28 bytes) as a NumericalColumnWriter (32 bytes) relies on the unspecified field order of a repr(Rust) struct and reads past the entry")
    acc = {}
    n = 0
    for fid, b in sorted(prog.bodies.items()):
        if "tantivy_columnar::columnar::writer" not in fid or "::tests::" in fid or b.kind in ("const", "static", "promoted"):
            continue
        for bi, t in b.calls():
            f = t.get("f") or ""
            m = re.search(r"arena_hashmap::ArenaHashMap::(get|read|mutate_or_create|get_mut)$", f)
            if not m or not t.get("ga"):
                continue
            fld = None
            l = op_local(t["args"][0])
            for _ in range(4):
                if l is None:
                    break
                tr = trace_through(b, l)
                flds = [x[2] for x in tr if x[0] == "field" and str(x[2]).endswith("_hash_map")]
                if flds:
                    fld = flds[0]
                    break
                last = tr[-1] if tr else None
                if last and last[0] == "agg" and last[1] == "tuple":
                    st = b.stmts(last[2])[last[3]]
                    idx = next((x[1] for x in tr if x[0] == "field"), 0)
                    l = op_local(st["o"][idx]) if idx < len(st.get("o", [])) else None
                    continue
                break
            if fld is None:
                continue
            n += 1
            ty = prog.crate_types[b.crate][t["ga"][0]]["s"] if isinstance(t["ga"][0], int) else str(t["ga"][0])
            acc.setdefault(fld, {}).setdefault(ty, []).append((b, bi, m.group(1)))
    rep.floor(R, "typed accesses to ColumnarWriter's arena maps resolved to a field", n, 20)
    rep.floor(R, "arena map fields seen", len(acc), 6)
    for fld, tys in sorted(acc.items()):
        if len(tys) == 1:
            rep.ok(R, "ColumnarWriter.%s is always accessed as %s" % (fld, short(next(iter(tys)))), "%d typed access(es)" % sum(len(v) for v in tys.values()))
            continue
        major = max(tys.items(), key=lambda kv: len(kv[1]))[0]
        for ty, sites_ in sorted(tys.items()):
            if ty == major:
                continue
            b, bi, how = sites_[0]
            rep.check(False, R, "ColumnarWriter.%s is always accessed with one value type" % fld, "",
                      "ColumnarWriter.%s holds `%s` values (%d typed accesses), but `%s` reads it with %s::<%s>: the bytes of the entry are reinterpreted as another struct. For the date columns, sort_order reads a 28-byte "
                      "ColumnWriter as a 32-byte NumericalColumnWriter — it only sorts correctly while rustc happens to lay `column_writer` out first, and when the entry ends its 1 MiB arena page the unchecked read goes past "
                      "the allocation" % (fld, short(major), len(tys[major]), b.id, how, short(ty)), site=site(b, bi))


def r5(rep, prog):
    """per-document data of a merge is copied in the order of the doc id mapping"""
    import re
    from ..rules import natural_loop, dominating_guards
    R = "C17-R5"
    rep.rule(R, "merged per-document data follows the doc id mapping: IndexMerger::write_fieldnorms and write_storable_fields receive the merge's SegmentDocIdMapping; every place where they append data for the merged segment (Vec::push / extend of the field-norm buffer, StoreWriter::store_bytes / stack) lies either inside a loop driven by doc_id_mapping.iter_old_doc_addrs() or on the arm of a test of doc_id_mapping.is_trivial() that holds (the stacked mapping, where segment after segment IS the mapping). Copying segment by segment under any other condition (\"no deletes\") is wrong for a sorted index, whose k-way merge interleaves the segments")
    ITER = "tantivy::indexer::doc_id_mapping::SegmentDocIdMapping::iter_old_doc_addrs"
    TRIV = "tantivy::indexer::doc_id_mapping::SegmentDocIdMapping::is_trivial"
    ADAPT = prog.names(r"IntoIterator>?::into_iter$|Iterator::(enumerate|copied|cloned|by_ref|peekable|zip)$")
    SINK = re.compile(r"alloc::vec::Vec::<T, A>::(push|extend_from_slice|extend_from_within|append|insert|resize)$|core::iter::traits::collect::Extend::extend$|tantivy::store::writer::StoreWriter::(store_bytes|stack|store)$")
    n = 0
    for meth in ("write_fieldnorms", "write_storable_fields"):
        fid = "tantivy::indexer::merger::IndexMerger::" + meth
        b = get_body(rep, prog, R, fid)
        if b is None:
            continue
        loops = []
        for bi, t in b.calls():
            if not (t.get("f") or "").endswith("Iterator::next"):
                continue
            l = op_local(t["args"][0])
            lv = provenance(b, l, extra_transparent=ADAPT) if l is not None else set()
            if not any(x[0] == "call" and x[1] == ITER for x in lv):
                continue
            hb, lp, steps = bi, natural_loop(b, bi), 0
            while not lp and steps < 4 and len(b.pred(hb)) == 1:
                hb = b.pred(hb)[0]
                lp = natural_loop(b, hb)
                steps += 1
            if lp:
                loops.append(lp)
        rep.check(bool(loops), R, "%s has a loop driven by iter_old_doc_addrs()" % meth, "%d loop(s)" % len(loops),
                  "IndexMerger::%s has no loop driven by doc_id_mapping.iter_old_doc_addrs(): the order of what it writes cannot follow the mapping" % meth, site=b.span)
        for bi, t in b.calls():
            f = t.get("f") or ""
            if not SINK.search(f):
                continue
            n += 1
            in_loop = any(bi in lp for lp in loops)
            triv = False
            for sb, through, gl in dominating_guards(b, bi):
                tr = trace_back(b, gl)
                if tr and tr[-1][0] == "call" and tr[-1][1] == TRIV and all(x[0] in ("use", "cast") for x in tr[:-1]) and set(through) <= {"else", "1"}:
                    triv = True
            rep.check(in_loop or triv, R, "%s: %s at bb%d follows the mapping" % (meth, short(f), bi), "inside the iter_old_doc_addrs() loop" if in_loop else "on the is_trivial() arm (stacked mapping)",
                      "IndexMerger::%s appends data of the merged segment with `%s` outside the loop over doc_id_mapping.iter_old_doc_addrs() and not under `doc_id_mapping.is_trivial()`: data is copied segment after segment "
                      "although the mapping may interleave the segments (a sorted index merged by the k-way path) — the values end up on the wrong documents" % (meth, short(f)), site=site(b, bi))
    rep.floor(R, "append sites of merged per-document data", n, 4)


def r3(rep, prog):
    """the sort key of a freshly written sorted segment is an order-preserving image of the value"""
    import re
    R = "C17-R3"
    rep.rule(R, "order-preserving sort key: the closure of ColumnarWriter::sort_order that turns a NumericalValue into the u64 key by which the documents of a new sorted segment are permuted maps each variant through MonotonicallyMappableToU64::to_u64 of the variant's own payload type (u64 / i64 / f64; a bare u64 payload is also accepted): a plain cast or `coerce` is not monotone for negative i64 / dates before 1970, the segment is then written out of order")
    SO = "tantivy_columnar::columnar::writer::ColumnarWriter::sort_order"
    cls = [n for n in prog.bodies if n.startswith(SO + "::{closure#") and prog.bodies[n].argc == 2
           and prog.bodies[n].local_ty_str(2).endswith("value::NumericalValue") and "Option<u64>" in prog.bodies[n].local_ty_str(0)]
    if not rep.check(len(cls) == 1, R, "the numerical sort-key closure of sort_order", "%s" % [short(c) for c in cls],
                     "cannot establish: expected one closure NumericalValue -> Option<u64> in ColumnarWriter::sort_order, found %d" % len(cls)):
        return
    b = prog.bodies[cls[0]]
    somes = [(bi, st) for bi in b.normal_blocks() for st in b.stmts(bi) if st.get("r") == "agg" and st.get("adt") == "core::option::Option" and st.get("variant") == "Some"]
    if not rep.check(len(somes) >= 1, R, "the key closure returns Some(key)", "%d site(s)" % len(somes), "cannot establish: no Some(..) in the key closure", site=b.span):
        return
    adt = prog.adts.get("tantivy_columnar::value::NumericalValue")
    want = {v["name"]: prog.crate_types[adt["_crate"]][v["fields"][0]["ty"]]["s"] for v in adt["variants"]} if adt else {}
    seen = set()
    for bi, st in somes:
        l = op_local(st["o"][0])
        leaves = provenance(b, l) if l is not None else set()
        for leaf in sorted(leaves, key=str):
            if leaf[0] == "call":
                m = re.match(r"^<(\w+) as tantivy_columnar::column_values::monotonic_mapping::MonotonicallyMappableToU64>::to_u64$", leaf[1])
                t = b.term(leaf[2])
                al = op_local(t["args"][0]) if t.get("args") else None
                tr = trace_back(b, al) if al is not None else []
                var = next((s[1] for s in tr if s[0] == "downcast"), None)
                okk = bool(m) and var is not None and want.get(var) == m.group(1) and tr[-1] == ("param", 2)
                if okk:
                    seen.add(var)
                rep.check(okk, R, "key of NumericalValue::%s" % (var or "?"), "%s::to_u64 of the variant's payload" % (m.group(1) if m else "?"),
                          "the sort key of a sorted segment is computed by `%s` (payload variant %s): not the order-preserving MonotonicallyMappableToU64::to_u64 of the variant's own type; "
                          "values of both signs are permuted in the wrong order" % (leaf[1], var), site=site(b, leaf[2]))
            elif leaf[0] == "param":
                # the payload itself: fine for U64 only
                tr = trace_back(b, l)
                var = next((s[1] for s in tr if s[0] == "downcast"), None)
                okk = var == "U64"
                if okk:
                    seen.add(var)
                rep.check(okk, R, "key of NumericalValue::%s" % (var or "?"), "the u64 payload itself",
                          "the sort key of a sorted segment uses the raw payload of a non-u64 variant (%s)" % var, site=b.span)
            else:
                rep.fail(R, "key source %s" % str(leaf[:2]), "the sort key of a sorted segment has a source that is not an order-preserving mapping of the value: %s" % str(leaf[:2]), site=b.span)
    rep.check(seen >= set(want), R, "every NumericalValue variant has an order-preserving key", "%s" % sorted(seen),
              "variants without a recognised order-preserving key: %s" % sorted(set(want) - seen), site=b.span)


def r4(rep, prog):
    """the doc id mapping is handed down unchanged"""
    import re
    R = "C17-R4"
    rep.rule(R, "the mapping is handed down unchanged: a function that receives the segment's doc id mapping (a parameter of type Option<&DocIdMapping>) gives exactly that parameter to every callee parameter of that type — never a constant None, never another value (JsonPostingsWriter::serialize, SpecializedPostingsWriter::serialize, serialize_postings, remap_and_write, ...): a structure serialised with None keeps insertion-order doc ids while all the others are remapped")
    TY = re.compile(r"Option<&(tantivy::indexer::doc_id_mapping::)?DocIdMapping>")
    n = 0
    for fid, b in sorted(prog.bodies.items()):
        ps = [i for i in range(1, b.argc + 1) if TY.search(b.local_ty_str(i))]
        if not ps or "::tests::" in fid:
            continue
        for bi, t in b.calls():
            callee = t.get("res") or t.get("f") or ""
            cb = prog.bodies.get(callee)
            for j, a in enumerate(t.get("args", [])):
                l = op_local(a)
                if cb is not None and j + 1 <= cb.argc:
                    is_map = bool(TY.search(cb.local_ty_str(j + 1)))
                elif l is not None:
                    is_map = bool(TY.search(b.local_ty_str(l)))
                else:
                    is_map = "k" in a and bool(TY.search(b.types[a["k"]]["s"]))
                if not is_map:
                    continue
                n += 1
                root = option_root(b, a) if l is not None else ("const", a.get("v", "None"))
                rep.check(root[0] == "param" and root[1] in ps, R, "%s -> %s: the mapping argument is the function's own doc_id_map" % (short(fid), short(callee)), "parameter passed through",
                          "`%s` gives `%s` %s where its own doc id mapping parameter is expected: that structure is written without (or with another) doc id remapping on a sorted index, "
                          "its doc ids no longer denote the documents of the other structures" % (fid, callee, root), site=site(b, bi))
    rep.floor(R, "hand-over sites of the doc id mapping", n, 10)


def root_of(body, o):
    """root description of an operand: ('param', i) / ('local', l) after following copies, refs and Option re-wraps"""
    return option_root(body, o)


def r1(rep, prog):
    R = "C17-R1"
    body = get_body(rep, prog, R, RW)
    if body is not None:
        names = body.var_names()
        pidx = [l for l in range(1, body.argc + 1) if names.get(l) == "doc_id_map"]
        if rep.check(len(pidx) == 1, R, "remap_and_write has a doc_id_map parameter", "param _%s" % pidx, "cannot establish: remap_and_write has no `doc_id_map` parameter", site=body.span):
            p = pidx[0]
            consumers = [
                ("tantivy::fieldnorm::writer::FieldNormsWriter::serialize", 2, "FieldNormsWriter::serialize"),
                ("tantivy::postings::postings_writer::serialize_postings", 4, "serialize_postings"),
                ("tantivy::fastfield::writer::FastFieldsWriter::serialize", 2, "FastFieldsWriter::serialize"),
            ]
            for callee, ai, what in consumers:
                cs = calls_to(prog, body, {callee})
                if not rep.check(len(cs) == 1, R, "remap_and_write calls %s" % what, "1 call", "expected one call to %s in remap_and_write, found %d" % (what, len(cs)), site=body.span):
                    continue
                b, t = cs[0]
                r = root_of(body, t["args"][ai])
                rep.check(r == ("param", p), R, "%s receives the doc_id_map parameter" % what, "argument %d <- parameter doc_id_map" % ai,
                          "%s is given %s instead of the doc_id_map parameter: this structure is written in insertion order while the others are remapped" % (what, r), site=site(body, b))
            # the store rewrite is driven by the mapping
            it = [(b, t) for b, t in body.calls() if t.get("f", "").endswith("DocIdMapping::iter_old_doc_ids")]
            okk = False
            for b, t in it:
                tr = trace_through(body, op_local(t["args"][0]))
                okk = any(s == ("param", p) for s in tr)
            rep.check(okk, R, "the store is rewritten in the order of the mapping", "iter_old_doc_ids() on the doc_id_map parameter", "the store rewrite does not iterate the doc_id_map parameter", site=body.span)
            SB = [(b, t) for b, t in body.calls() if t.get("f", "").endswith("StoreWriter::store_bytes")]
            GD = [(b, t) for b, t in body.calls() if t.get("f", "").endswith("StoreReader::get_document_bytes")]
            rep.check(len(SB) == 1 and len(GD) == 1, R, "the store rewrite copies document bytes old id by old id", "get_document_bytes -> store_bytes", "store rewrite loop not recognised (get_document_bytes=%d store_bytes=%d)" % (len(GD), len(SB)), site=body.span)
    fb = get_body(rep, prog, R, FIN)
    if fb is not None:
        names = fb.var_names()
        pidx = [l for l in range(1, fb.argc + 1) if names.get(l) == "mapping"]
        if rep.check(len(pidx) == 1, R, "finalize_inner has a mapping parameter", "param _%s" % pidx, "cannot establish: finalize_inner has no `mapping` parameter", site=fb.span):
            p = pidx[0]
            for callee, ai, what in ((RW, 6, "remap_and_write"), (I + "segment_writer::remap_doc_opstamps", 1, "remap_doc_opstamps")):
                cs = calls_to(prog, fb, {callee})
                if rep.check(len(cs) == 1, R, "finalize_inner calls %s" % what, "1 call", "expected one call to %s, found %d" % (what, len(cs)), site=fb.span):
                    r = root_of(fb, cs[0][1]["args"][ai])
                    rep.check(r == ("param", p), R, "finalize_inner gives its mapping to %s" % what, "argument %d <- parameter mapping" % ai,
                              "%s receives %s instead of finalize_inner's mapping: %s" % (what, r, "doc opstamps (and so deletes) no longer follow the documents" if "opstamps" in what else "the segment is written unsorted"), site=site(fb, cs[0][0]))
        rule_precede(rep, prog, R, FIN, {"tantivy::fieldnorm::writer::FieldNormsWriter::fill_up_to_max_doc"}, {RW}, "fill_up_to_max_doc", "remap_and_write", a_ok=False)
    mb = get_body(rep, prog, R, MW)
    if mb is not None:
        roots = {}
        gone_writers = []
        for callee, ai in ((I + "merger::IndexMerger::write_fieldnorms", 2), (I + "merger::IndexMerger::write_postings", 3),
                           (I + "merger::IndexMerger::write_storable_fields", 2), (I + "merger::IndexMerger::write_fast_fields", 2)):
            cs = calls_to(prog, mb, {callee})
            if callee not in prog.bodies and cs:
                gone_writers.append((callee.split("::")[-1], cs))      # written into IndexMerger::write (see below)
                continue
            if rep.check(len(cs) == 1, R, "IndexMerger::write calls %s" % callee.split("::")[-1], "1 call", "expected one call to %s, found %d" % (callee, len(cs)), site=mb.span):
                roots[callee.split("::")[-1]] = root_of(mb, cs[0][1]["args"][ai])
        for nm, cs in gone_writers:
            # the mapping is then an argument of one of the calls the writer made
            common = set(roots.values())
            cand = {root_of(mb, a) for _, t in cs for a in t["args"]}
            if len(common) == 1 and common & cand:
                roots[nm] = list(common)[0]
        vals = set(roots.values())
        names = mb.var_names()
        one = len(vals) == 1 and len(roots) == 4 and list(vals)[0][0] == "local"      # (whatever the variable is called)
        rep.check(one, R, "the four merge writers receive the same doc_id_mapping", "%s" % roots,
                  "IndexMerger::write does not hand one and the same mapping to fieldnorms, postings, store and fast fields (%s): the merged structures disagree on document ids" % roots, site=mb.span)
        # the mapping is computed once (single definition per path)
        if one:
            l = list(vals)[0][1]
            ds = mb.defs().get(l, [])
            rep.check(1 <= len(ds) <= 3 and all(d[0] == "call" or d[0] == "stmt" for d in ds), R, "doc_id_mapping is computed before the writers run", "%d defining site(s) (one per branch of the sort test)" % len(ds), "doc_id_mapping is redefined between the writers", site=mb.span)


def r2(rep, prog):
    R = "C17-R2"
    fid = I + "segment_serializer::SegmentSerializer::for_segment"
    body = get_body(rep, prog, R, fid)
    if body is None:
        return
    OW = {"tantivy::index::segment::Segment::open_write"}
    SC = "tantivy::index::segment_component::SegmentComponent"
    comp_at = {}
    for b, t in calls_to(prog, body, OW):
        tr = trace_back(body, op_local(t["args"][1])) if op_local(t["args"][1]) is not None else []
        if tr and tr[-1][0] == "agg" and tr[-1][1].startswith(SC):
            comp_at[tr[-1][1].split("::")[-1]] = b
    if not rep.check("TempStore" in comp_at and "Store" in comp_at, R, "for_segment opens TempStore and Store", "%s" % sorted(comp_at), "cannot establish: for_segment no longer opens both store components (%s)" % sorted(comp_at), site=body.span):
        return
    # find the switch separating them
    dom = body.dominators()
    common = [d for d in dom[comp_at["TempStore"]] if d in dom[comp_at["Store"]] and body.term(d)["k"] == "switch"]
    sep = None
    for d in sorted(common, reverse=True):
        tt = body.term(d)
        tgts = [tg for _, tg in tt["vals"]] + [tt["else"]]
        r_t = [tg for tg in tgts if comp_at["TempStore"] in body.reachable((tg,))]
        r_s = [tg for tg in tgts if comp_at["Store"] in body.reachable((tg,))]
        if r_t and r_s and not (set(r_t) & set(r_s)):
            sep = d
            break
    if not rep.check(sep is not None, R, "TempStore and Store are opened on the two arms of one test", "separating switch found", "the two store components are not on exclusive arms of one test", site=body.span):
        return
    # the operands of the deciding test chain: every block from which the separating switch is reachable
    flds = set()
    params = set()
    tr_names = tuple(prog.names(r"Option::<T>::is_some$"))

    def note(o):
        pl = op_place(o)
        if pl is None:
            return
        for f in proj_fields(pl):
            flds.add(f[1])
        l = place_local(pl)
        if 1 <= l <= body.argc:
            params.add(body.var_names().get(l, l))
        for s_ in trace_through(body, l, transparent=tr_names):
            if s_[0] == "field":
                flds.add(s_[2])
            if s_[0] == "param":
                params.add(body.var_names().get(s_[1], s_[1]))
    region = [b for b in body.normal_blocks() if sep in body.reachable((b,))]
    for d in region:
        tt = body.term(d)
        if tt["k"] == "switch":
            note(tt["on"])
        for st in body.stmts(d):
            for o in st.get("o", []):
                note(o)
            if "p" in st:
                for f in proj_fields(st["p"]):
                    flds.add(f[1])
    rep.check({"sort_by_field", "manual_doc_id_mapping"} <= flds and "is_in_merge" in params, R, "the store choice depends on sort_by_field, manual_doc_id_mapping and is_in_merge",
              "fields %s, params %s" % (sorted(f for f in flds if f in ("sort_by_field", "manual_doc_id_mapping")), sorted(str(p) for p in params if p == "is_in_merge")),
              "the branch choosing TempStore does not test sort_by_field / manual_doc_id_mapping / is_in_merge (fields %s params %s): a sorted segment would have no temp store to rewrite from" % (sorted(flds), sorted(map(str, params))), site=body.span)
