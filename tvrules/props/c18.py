"""C18 — at most one writer per index; the lock follows the writer's lifetime (typestate)."""
from ..model import (Ev, must_pass, must_precede, trace_through, trace_back, op_local, op_place, place_local,
                     is_bare, provenance, place_proj, proj_fields, ok_continuation_events)
from ..rules import (rule_precede, rule_must_pass, rule_result_checked, rule_who_may_call, get_body, family,
                     calls_to, site, short, rule_between, return_defs, guard_live_at, locals_of_type)

D = "tantivy::directory::directory::Directory::"
IW = "tantivy::indexer::index_writer::IndexWriter"
IWN = IW + "::<D>::new"
MM = "<tantivy::directory::mmap_directory::MmapDirectory as tantivy::directory::directory::Directory>::"
RAM = "<tantivy::directory::ram_directory::RamDirectory as tantivy::directory::directory::Directory>::"
DL = "tantivy::directory::directory::DirectoryLock"


def run(rep, prog, tier):
    rep.rule("C18-R1", "who-may-construct IndexWriter (struct literal) = {IndexWriter::new}; new's DirectoryLock parameter flows into the _directory_lock field")
    rep.rule("C18-R2", "who-may-call IndexWriter::new = {Index::writer_with_options (lock = Ok value of acquire_lock(&INDEX_WRITER_LOCK), non-blocking), IndexWriter::rollback (lock = taken from self)}")
    rep.rule("C18-R3", "who-may-touch field _directory_lock = {new (init), rollback (take)}")
    rep.rule("C18-R4", "no mem::forget / ManuallyDrop / Box::leak / into_raw on a value owning a DirectoryLock")
    rep.rule("C18-R5", "lock primitives: try_acquire_lock creates through Directory::open_write and maps FileAlreadyExists to busy; MmapDirectory::open_write uses create_new(true); MmapDirectory::acquire_lock's non-blocking arm must-pass try_lock_exclusive and returns LockBusy; RamDirectory::open_write reports FileAlreadyExists; DirectoryLockGuard::drop deletes the lock file")
    rep.not_decided += ["flock behaviour across processes", "atomicity of the create primitive (the OS's / RwLock's)"]
    r1(rep, prog)
    r2(rep, prog)
    r3(rep, prog)
    r4(rep, prog)
    r5(rep, prog)
    r6(rep, prog)
    r7(rep, prog)
    r8(rep, prog)
    r9(rep, prog)
    from ..report import Retag
    from .c05 import flock_files_stay
    flock_files_stay(Retag(rep, "C18-R10"), prog, "C18-R10")


def r7(rep, prog):
    """only the owner of a lock file removes it"""
    R = "C18-R7"
    rep.rule(R, "only the owner removes the lock file: in the default locking module (directory::directory) Directory::delete is called by DirectoryLockGuard's Drop (the holder releases its own lock); any other delete there — e.g. a clean-up in try_acquire_lock — must be dominated by the Ok continuation of this function's own open_write (the file it removes is the one it has just created). A failed attempt that deletes the path removes the lock file of the live writer, and the next attempt succeeds while that writer is alive")
    dele = family(prog, D + "delete")
    ow = family(prog, D + "open_write")
    n = 0
    for fid in sorted(prog.bodies):
        if not (fid.startswith("tantivy::directory::directory::") or fid.startswith("<tantivy::directory::directory::")):
            continue
        b = prog.bodies[fid]
        for bi, t in calls_to(prog, b, dele):
            n += 1
            if "DirectoryLockGuard as core::ops::drop::Drop>::drop" in fid:
                rep.ok(R, "%s deletes the lock file it holds" % short(fid), "release by the owner", site=site(b, bi))
                continue
            opens = calls_to(prog, b, ow)
            okk = False
            if opens:
                evs = []
                for ob, ot in opens:
                    e, chk = ok_continuation_events(b, ob)
                    evs += list(e)
                okk = bool(evs) and not must_precede(b, evs, [Ev(bi, "term")])
            rep.check(okk, R, "%s deletes a lock path only after it created the file itself" % short(fid), "dominated by the Ok continuation of its own open_write",
                      "`%s` can delete the lock path on a path where its own open_write did not succeed: a failed attempt to take the lock removes the lock file of the writer that holds it, "
                      "and the next attempt gets a second writer" % fid, site=site(b, bi))
    rep.floor(R, "Directory::delete call sites in the default locking module", n, 1)


def r8(rep, prog):
    """a lock file that was created has an owner on every exit"""
    R = "C18-R8"
    rep.rule(R, "a created lock file has an owner on every exit: in try_acquire_lock every path from the Ok continuation of Directory::open_write (the lock file now exists) to an exit — the Ok exit and the error exits, e.g. a failed flush — passes the construction of the DirectoryLockGuard (whose Drop removes the file) or an explicit Directory::delete; otherwise a failed attempt leaves a lock file that nobody owns and every later writer gets LockBusy although no writer exists")
    fid = "tantivy::directory::directory::try_acquire_lock"
    b = get_body(rep, prog, R, fid)
    if b is None:
        return
    ow = family(prog, D + "open_write")
    opens = calls_to(prog, b, ow)
    if not rep.check(len(opens) == 1, R, "try_acquire_lock creates the lock file once", "1 open_write", "expected one open_write in try_acquire_lock, found %d" % len(opens), site=b.span):
        return
    evs, chk = ok_continuation_events(b, opens[0][0])
    starts = []
    for e in evs:
        starts += [e.b] if e.kind == "enter" else list(b.succ(e.b))
    owners = [Ev(bi, "stmt", i) for bi in b.normal_blocks() for i, st in enumerate(b.stmts(bi))
              if st.get("r") == "agg" and st.get("adt") == "tantivy::directory::directory::DirectoryLockGuard"]
    owners += [Ev(bi, "term") for bi, t in calls_to(prog, b, family(prog, D + "delete"))]
    bad = must_pass(b, owners, exits="all", starts=tuple(starts)) if owners else [0]
    rep.check(not bad, R, "after the lock file exists, every exit has passed the guard (or a delete)", "%d owner event(s)" % len(owners),
              "try_acquire_lock can return (with an error) after the lock file was created without having built the DirectoryLockGuard and without deleting the file: the lock file stays behind, "
              "no DirectoryLock owns it, and every later attempt to create a writer fails with LockBusy", site=site(b, bad[0]) if bad and bad[0] else b.span)


def r9(rep, prog):
    """rollback does not lose the lock when the replacement writer cannot be built"""
    R = "C18-R9"
    rep.rule(R, "the lock survives a failed rollback: IndexWriter::rollback takes the DirectoryLock out of self (Option::take) and hands it to IndexWriter::new by value; every error exit of rollback reachable after the take must put a lock back into self._directory_lock — otherwise a rollback that fails (e.g. meta.json unreadable for a moment) drops the lock while the old writer object is still alive: a second writer can be created next to it, and a retried rollback panics on the missing lock")
    fid = IW + "::<D>::rollback"
    b = get_body(rep, prog, R, fid)
    if b is None:
        return
    takes = [bi for bi, t in b.calls() if (t.get("f") or "").endswith("Option::<T>::take")]
    if not rep.check(len(takes) >= 1, R, "rollback takes the lock out of self", "%d take()" % len(takes), "cannot establish: no Option::take in rollback", site=b.span):
        return
    from ..mergecov import Aliases
    al = Aliases(b, {1: "self"})
    restores = []
    for bi in b.normal_blocks():
        for i, st in enumerate(b.stmts(bi)):
            if not is_bare(st["d"]):
                r = al.resolve(st["d"])
                if r and r[0] == "self" and (r[1] == () or r[1][:1] == (("f", "_directory_lock"),)):
                    restores.append(Ev(bi, "stmt", i))
    eb = b.error_blocks()
    from ..model import reach_positions
    reached = reach_positions(b, restores, starts=tuple(b.succ(takes[0])))
    bad = [e for e in sorted(eb) if e in reached and reached[e] >= 0 and e in b.reachable(tuple(b.succ(takes[0])))]
    rep.check(not bad, R, "a failed rollback keeps the writer lock", "every error exit after take() has stored a lock (or a whole writer) back into self",
              "IndexWriter::rollback can return an error after it took the DirectoryLock out of self without putting one back (IndexWriter::new consumed and dropped it): the lock file is released while the old "
              "writer is still alive — a second writer can be created — and calling rollback again panics on the missing lock", site=site(b, bad[0]) if bad else b.span)


def r6(rep, prog):
    """type-level clauses decided from the fact base (the thorough tier adds compile_fail witnesses)"""
    R = "C18-R6"
    rep.rule("C18-R6", "typestate surface: IndexWriter::new is not public, every IndexWriter field is private (no external struct literal), DirectoryLock's payload is private")
    nb = prog.body(IWN)
    if nb is not None:
        rep.check(nb.raw.get("vis") == "restricted", R, "IndexWriter::new is not nameable from outside the crate", "visibility: restricted",
                  "IndexWriter::new is public: user code can build a writer around a lock it made up", site=nb.span)
    adt = prog.adts.get(IW)
    if adt is not None:
        pubf = [f["name"] for f in adt["variants"][0]["fields"] if f.get("pub")]
        rep.check(not pubf, R, "IndexWriter has no public field", "%d private fields" % len(adt["variants"][0]["fields"]), "public fields %s allow an external struct literal / lock extraction" % pubf, site=adt["span"])
    dl = prog.adts.get(DL)
    if dl is not None:
        pubf = [f["name"] for f in dl["variants"][0]["fields"] if f.get("pub")]
        rep.check(not pubf, R, "DirectoryLock's payload is private", "tuple field private", "DirectoryLock's payload is public", site=dl["span"])


def constructors_of(prog, adt):
    out = []
    for b in prog.bodies.values():
        for bi, bl in enumerate(b.blocks):
            for i, st in enumerate(bl["st"]):
                if st.get("r") == "agg" and st.get("adt") == adt:
                    out.append((b, bi, i, st))
    return out


def r1(rep, prog):
    R = "C18-R1"
    cons = constructors_of(prog, IW)
    who = sorted({b.id for b, _, _, _ in cons})
    rep.check(who == [IWN], R, "IndexWriter is only constructed in IndexWriter::new", "struct literal sites: %s" % [short(w) for w in who],
              "IndexWriter struct literals in %s: a writer could exist without having been given a lock" % who)
    for b, bi, i, st in cons:
        if b.id != IWN:
            continue
        idx = st["fields"].index("_directory_lock") if "_directory_lock" in st["fields"] else -1
        okk = False
        why = "field _directory_lock missing"
        if idx >= 0:
            tr = trace_back(b, op_local(st["o"][idx]))
            # Some(directory_lock) where directory_lock is parameter 3
            if tr and tr[-1][0] == "agg" and tr[-1][1].endswith("Option::Some"):
                s2 = b.stmts(tr[-1][2])[tr[-1][3]]
                t2 = trace_back(b, op_local(s2["o"][0]))
                okk = bool(t2) and t2[-1][0] == "param" and DL in b.local_ty_str(t2[-1][1])
                why = "Some(%s)" % (t2[-1],)
        rep.check(okk, R, "IndexWriter::new stores its DirectoryLock parameter in _directory_lock", why,
                  "the _directory_lock field of the new writer is not Some(<the lock parameter>) (%s)" % why, site=site(b, bi))
    nb = prog.body(IWN)
    if nb is not None:
        nparams = [l for l in range(1, nb.argc + 1) if DL in nb.local_ty_str(l) and nb.local_ty(l)["k"] == "adt"]
        rep.check(len(nparams) == 1, R, "IndexWriter::new takes the lock by value", "parameter _%s: DirectoryLock" % nparams,
                  "IndexWriter::new does not take a DirectoryLock by value")


def r2(rep, prog):
    R = "C18-R2"
    WWO = "tantivy::index::index::Index::writer_with_options"
    RB = IW + "::<D>::rollback"
    ok, callers = rule_who_may_call(rep, prog, R, {IWN}, "IndexWriter::new", {
        WWO: "creation: lock freshly acquired",
        RB: "rollback: lock moved from the old writer",
    })
    wb = prog.body(WWO)
    if wb is not None:
        for b, t in calls_to(prog, wb, {IWN}):
            tr = trace_through(wb, op_local(t["args"][2]))
            acq = family(prog, D + "acquire_lock")
            okk = any(s[0] == "call" and s[1] in acq for s in tr) and (("downcast", "Continue") in tr or ("downcast", "Ok") in tr)
            if not okk and tr and tr[-1][0] == "multi" and (("downcast", "Continue") in tr or ("downcast", "Ok") in tr):
                # the acquisition sits in a helper written into this function (`match acquire_lock(..) { Ok(l) => Ok(l), Err(e) => Err(..) }`):
                # several definitions of the intermediate Result; every non-constant source of the lock must be the acquire_lock call
                lv = provenance(wb, op_local(t["args"][2]), extra_transparent=tuple(prog.names(r"Try>?::branch$|Result::<T, E>::map_err$")))
                srcs = {x for x in lv if x[0] in ("call", "param", "static", "field")}
                okk = bool(srcs) and all(x[0] == "call" and x[1] in acq for x in srcs)
            rep.check(okk, R, "writer_with_options passes the freshly acquired lock", "new(.., lock <- Continue(acquire_lock(..)?))",
                      "the lock given to IndexWriter::new in writer_with_options does not come from the Ok value of acquire_lock", site=site(wb, b))
        for b, t in calls_to(prog, wb, family(prog, D + "acquire_lock")):
            lv = provenance(wb, op_local(t["args"][1]))
            rep.check(("static", "tantivy::directory::directory_lock::INDEX_WRITER_LOCK") in lv and len([l for l in lv if l[0] == "static"]) == 1, R,
                      "writer_with_options acquires INDEX_WRITER_LOCK", "lock argument is the INDEX_WRITER_LOCK static", "writer_with_options acquires %s" % sorted(lv), site=site(wb, b))
    # the static is non-blocking
    cb = prog.body("tantivy::directory::directory_lock::INDEX_WRITER_LOCK::{closure#0}")
    okb = False
    if cb is not None:
        for b in cb.normal_blocks():
            for st in cb.stmts(b):
                if st.get("r") == "agg" and st.get("adt") == "tantivy::directory::directory_lock::Lock":
                    i = st["fields"].index("is_blocking")
                    okb = st["o"][i].get("v") == "0"
    rep.check(okb, R, "INDEX_WRITER_LOCK is non-blocking", "is_blocking: false", "INDEX_WRITER_LOCK is not `is_blocking: false`: a second writer would wait instead of failing with a lock error")
    rb = prog.body(RB)
    if rb is not None:
        news = calls_to(prog, rb, {IWN})
        rep.check(len(news) == 1, R, "rollback builds the replacement writer itself", "1 call to IndexWriter::new",
                  "IndexWriter::rollback no longer passes its lock to IndexWriter::new (%d calls): the lock is not kept across rollback" % len(news), site=rb.span)
        # the lock taken out of self must not be dropped / released inside rollback
        rel = [(b, t) for b, t in rb.calls() if t.get("f") in ("core::mem::drop",) and any(DL in rb.types[g]["s"] for g in t.get("ga", []))]
        acq = [(b, t) for b, t in rb.calls() if prog.call_targets(t) & (family(prog, D + "acquire_lock") | {WWO})]
        rep.check(not rel and not acq, R, "rollback neither releases nor re-acquires the writer lock", "no drop(lock), no acquire_lock / writer_with_options inside rollback",
                  "IndexWriter::rollback releases (%d) or re-acquires (%d) the writer lock: another writer can be created in between and the rolled-back writer is left without a lock" % (len(rel), len(acq)),
                  site=site(rb, (rel or acq)[0][0]) if (rel or acq) else rb.span)
        for b, t in news:
            tr = trace_through(rb, op_local(t["args"][2]), transparent=tuple(prog.names(r"Option::<T>::(take|expect|unwrap)$")) + ("core::ops::deref::DerefMut::deref_mut",))
            okk = any(s[0] == "field" and s[2] == "_directory_lock" for s in tr) and any(s[0] == "call" and s[1].endswith("Option::<T>::take") for s in trace_through(rb, op_local(t["args"][2]), transparent=tuple(prog.names(r"Option::<T>::(expect|unwrap)$"))))
            rep.check(okk, R, "rollback hands its own lock to the new writer", "new(.., self._directory_lock.take().expect(..))",
                      "rollback does not pass the lock taken from self._directory_lock to IndexWriter::new", site=site(rb, b))


def r3(rep, prog):
    R = "C18-R3"
    touch = {}
    for b in prog.bodies.values():
        for bi, bl in enumerate(b.blocks):
            if bl.get("cl"):
                continue
            for st in bl["st"]:
                places = [st["d"]] + ([st["p"]] if "p" in st else []) + [op_place(o) for o in st.get("o", []) if op_place(o) is not None]
                for pl in places:
                    if any(f[1] == "_directory_lock" and f[2] == IW for f in proj_fields(pl)):
                        touch.setdefault(b.id, []).append((bi, st.get("r"), st.get("mut")))
            t = bl["t"]
            if t["k"] == "drop" and any(f[1] == "_directory_lock" and f[2] == IW for f in proj_fields(t["place"])):
                touch.setdefault(b.id, []).append((bi, "drop", None))
    allowed = {IW + "::<D>::rollback"}
    bad = sorted(set(touch) - allowed)
    rep.check(not bad and (IW + "::<D>::rollback") in touch, R, "only rollback touches the _directory_lock field after construction",
              "accessed in: %s" % [short(k) for k in touch], "the _directory_lock field is accessed in %s: the lock can leave the writer" % bad)


def r4(rep, prog):
    R = "C18-R4"
    LEAK = prog.names(r"^core::mem::forget$|ManuallyDrop::<T>::new$|Box::<T.*>::leak$|Arc::<T.*>::into_raw$|Box::<T.*>::into_raw$")

    def owns_lock(body, tid, memo):
        hits = prog.type_mentions(body.crate, tid, lambda row: row["k"] == "adt" and row.get("def") in (DL, IW))
        return bool(hits)
    bad = []
    n = 0
    for (b, bi, t) in prog.who_calls(LEAK):
        n += 1
        for tid in t.get("ga", []):
            if owns_lock(b, tid, {}):
                bad.append((b, bi, t))
    rep.check(not bad, R, "no leak primitive is applied to a value owning a DirectoryLock / IndexWriter", "%d leak-primitive call site(s) in the workspace, none on a lock owner" % n,
              "%s leaks a value owning the writer lock: the lock would never be released" % (bad[0][0].id if bad else ""), site=(site(bad[0][0], bad[0][1]) if bad else ""))
    # DirectoryLock is not Clone / Copy
    cl = [im for im in prog.impls if im.get("trait") in ("core::clone::Clone", "core::marker::Copy") and prog.impl_self_ty(im).get("def") == DL]
    rep.check(not cl, R, "DirectoryLock is neither Clone nor Copy", "impl table", "DirectoryLock implements Clone/Copy: the lock could be duplicated")


def r5(rep, prog):
    R = "C18-R5"
    fid = "tantivy::directory::directory::try_acquire_lock"
    ow = family(prog, D + "open_write")
    rule_must_pass(rep, prog, R, fid, ow, "Directory::open_write", a_ok=True)
    # the closure mapping the error: FileAlreadyExists -> FileExists
    tb = prog.body(fid)
    if tb is not None:
        # the mapping may be written in place (match), as a closure, or as a named function handed to map_err
        cl = [tb] + [prog.body(r) for r in prog.body_refs(tb) if "{closure" in r or r.startswith("tantivy::directory::")]
        okm = False
        for c in cl:
            if c is None:
                continue
            for b in c.normal_blocks():
                for st in c.stmts(b):
                    if st.get("r") == "agg" and st.get("variant") == "FileExists":
                        okm = True
        rep.check(okm, R, "try_acquire_lock maps FileAlreadyExists to FileExists", "map_err closure builds TryAcquireLockError::FileExists", "try_acquire_lock no longer distinguishes an existing lock file", site=tb.span)
        # a DirectoryLockGuard is built with the given path
        g = [st for b in tb.normal_blocks() for st in tb.stmts(b) if st.get("r") == "agg" and st.get("adt") == "tantivy::directory::directory::DirectoryLockGuard"]
        rep.check(len(g) == 1, R, "try_acquire_lock returns a DirectoryLockGuard", "1 guard literal", "no DirectoryLockGuard built in try_acquire_lock", site=tb.span)
    # default acquire_lock: busy when the file exists and no retry is left
    ab = get_body(rep, prog, R, D + "acquire_lock")
    if ab is not None:
        rule_must_pass(rep, prog, R, ab.id, {fid}, "try_acquire_lock", exits="ok", a_ok=False)
        busy = [st for b in ab.normal_blocks() for st in ab.stmts(b) if st.get("r") == "agg" and st.get("variant") == "LockBusy"]
        rep.check(bool(busy), R, "Directory::acquire_lock can return LockBusy", "%d site(s)" % len(busy), "Directory::acquire_lock never returns LockBusy", site=ab.span)
        # Ok only flows from try_acquire_lock's Ok
        for kind, b, x in return_defs(ab):
            tr = trace_through(ab, x) if kind == "ok" and x is not None else []
            rep.check(any(s[0] == "call" and s[1] == fid for s in tr), R, "acquire_lock's Ok value is try_acquire_lock's", "Ok(result)", "acquire_lock returns a lock that does not come from try_acquire_lock", site=site(ab, b))
    # DirectoryLockGuard::drop deletes the path
    db = get_body(rep, prog, R, "<tantivy::directory::directory::DirectoryLockGuard as core::ops::drop::Drop>::drop")
    if db is not None:
        rule_must_pass(rep, prog, R, db.id, family(prog, D + "delete"), "Directory::delete(path)", exits="all")
        for b, t in calls_to(prog, db, family(prog, D + "delete")):
            tr = trace_through(db, op_local(t["args"][1]), transparent=tuple(prog.names(r"Deref::deref$|AsRef::as_ref$")))
            rep.check(any(s[0] == "field" and s[2] == "path" for s in tr), R, "the guard deletes its own lock file", "delete(&self.path)", "DirectoryLockGuard::drop deletes another path", site=site(db, b))
    # MmapDirectory::open_write: create_new(true)
    mb = get_body(rep, prog, R, MM + "open_write")
    if mb is not None:
        cn = [(b, t) for b, t in mb.calls() if t.get("f", "").endswith("OpenOptions::create_new")]
        okk = len(cn) == 1 and cn[0][1]["args"][1].get("v") == "1"
        rep.check(okk, R, "MmapDirectory::open_write uses create_new(true)", "exclusive creation", "MmapDirectory::open_write does not open with create_new(true): a second lock holder would succeed", site=mb.span)
        if cn:
            rule_precede(rep, prog, R, mb.id, {cn[0][1]["f"]}, prog.names(r"OpenOptions::open$"), "create_new(true)", "OpenOptions::open", a_ok=False)
        # AlreadyExists -> FileAlreadyExists
        cl = [mb] + [prog.body(r) for r in prog.body_refs(mb) if "{closure" in r]      # a map_err closure or a match in place
        rep.check(any(c is not None and any(st.get("variant") == "FileAlreadyExists" for b in c.normal_blocks() for st in c.stmts(b)) for c in cl), R,
                  "MmapDirectory::open_write reports FileAlreadyExists", "map_err closure", "MmapDirectory::open_write no longer reports FileAlreadyExists", site=mb.span)
    # MmapDirectory::acquire_lock
    ma = get_body(rep, prog, R, MM + "acquire_lock")
    if ma is not None:
        TRY = prog.names(r"try_lock_exclusive$")
        LOCK = prog.names(r"(^|::)lock_exclusive$")
        tcalls = calls_to(prog, ma, TRY)
        lcalls = calls_to(prog, ma, LOCK)
        rep.check(len(tcalls) == 1 and len(lcalls) == 1, R, "MmapDirectory::acquire_lock uses flock on both arms", "lock_exclusive (blocking) / try_lock_exclusive (non-blocking)",
                  "MmapDirectory::acquire_lock: expected one lock_exclusive and one try_lock_exclusive, found %d / %d" % (len(lcalls), len(tcalls)), site=ma.span)
        A = [Ev(b, "term") for b, _ in tcalls + lcalls]
        bad = must_pass(ma, A, exits="ok")
        rep.check(not bad, R, "MmapDirectory::acquire_lock returns Ok only after taking the flock", "every Ok exit passes lock_exclusive or try_lock_exclusive",
                  "MmapDirectory::acquire_lock can return a DirectoryLock without having locked the file", site=ma.span)
        busy = [st for b in ma.normal_blocks() for st in ma.stmts(b) if st.get("r") == "agg" and st.get("variant") == "LockBusy"]
        cl = [prog.body(r) for r in prog.body_refs(ma) if "{closure" in r]
        busy_cl = [1 for c in cl if c is not None for b in c.normal_blocks() for st in c.stmts(b) if st.get("variant") == "LockBusy"]
        # two sites: `false` from try_lock and an Err from it; the second one sits in a map_err closure or in a match arm
        rep.check(bool(busy) and len(busy) + len(busy_cl) >= 2, R, "a refused try_lock yields LockBusy", "Err(LockBusy) on `false` and on Err", "MmapDirectory::acquire_lock no longer returns LockBusy when try_lock_exclusive fails", site=ma.span)
        # the returned lock owns the File
        rl = [st for b in ma.normal_blocks() for st in ma.stmts(b) if st.get("r") == "agg" and st.get("adt") == "tantivy::directory::mmap_directory::ReleaseLockFile"]
        okf = False
        for st in rl:
            i = st["fields"].index("_file")
            tr = trace_through(ma, op_local(st["o"][i]))
            okf = any(s[0] == "call" and s[1].endswith("OpenOptions::open") for s in tr)
        rep.check(okf, R, "the DirectoryLock owns the locked File", "ReleaseLockFile{_file: <the opened file>}", "the returned lock does not own the locked file handle (closing it releases the flock early)", site=ma.span)
    # RamDirectory::open_write
    rb = get_body(rep, prog, R, RAM + "open_write")
    if rb is not None:
        fa = [b for b in rb.normal_blocks() for st in rb.stmts(b) if st.get("r") == "agg" and st.get("variant") == "FileAlreadyExists"]
        rep.check(bool(fa), R, "RamDirectory::open_write reports FileAlreadyExists", "Err(FileAlreadyExists) arm present", "RamDirectory::open_write never fails on an existing file: two writers could hold the lock", site=rb.span)
        w = calls_to(prog, rb, {"tantivy::directory::ram_directory::InnerDirectory::write"})
        okk = False
        for b, t in w:
            sw = rb.term(t["to"])
            swsrc = trace_back(rb, op_local(sw["on"])) if sw["k"] == "switch" else []
            if sw["k"] == "switch" and swsrc and swsrc[-1][0] == "call" and swsrc[-1][2] == b:
                tv = [tg for v, tg in sw["vals"] if v == "0"]
                if tv:
                    reach_true = rb.reachable((sw["else"],)) if "0" in [v for v, _ in sw["vals"]] else set()
                    okk = any(x in reach_true for x in fa) and not any(x in rb.reachable((tv[0],)) for x in fa)
        rep.check(okk, R, "RamDirectory::open_write fails exactly when the insert found an existing entry", "`exists` -> Err(FileAlreadyExists)", "the FileAlreadyExists arm is not tied to the result of InnerDirectory::write", site=rb.span)
    iw = get_body(rep, prog, R, "tantivy::directory::ram_directory::InnerDirectory::write")
    if iw is not None:
        lv = provenance(iw, 0, extra_transparent=tuple(prog.names(r"Option::<T>::is_some$")))
        rep.check(any(l[0] == "call" and l[1].endswith("HashMap::<K, V, S, A>::insert") for l in lv), R, "InnerDirectory::write reports whether the path existed", "insert(..).is_some()", "InnerDirectory::write's result is not insert(..).is_some()", site=iw.span)
