"""C10 — garbage collection never removes a needed file and leaves no orphan."""
import re
from ..model import (Ev, must_pass, must_precede, trace_through, trace_back, op_local, op_place, place_local,
                     is_bare, provenance, place_proj, proj_fields)
from ..rules import (rule_precede, rule_must_pass, rule_result_checked, rule_who_may_call, get_body, family,
                     calls_to, site, short, rule_between, return_defs, guard_live_at, locals_of_type,
                     local_kill_events, must_closure)

D = "tantivy::directory::directory::Directory::"
MD = "<tantivy::directory::managed_directory::ManagedDirectory as tantivy::directory::directory::Directory>::"
MDI = "tantivy::directory::managed_directory::ManagedDirectory::"
SU = "tantivy::indexer::segment_updater::"
I = "tantivy::indexer::"
SC = "tantivy::index::segment_component::SegmentComponent"


def run(rep, prog, tier):
    rep.rule("C10-R1", "component table exhaustive: SEGMENT_COMPONENTS lists every SegmentComponent variant exactly once; list_files maps every element through relative_path and excludes only TempStore, only on the !include_temp_doc_store arm")
    rep.rule("C10-R2", "living files are listed while both the managed-paths read guard and the META_LOCK directory lock are held; the closure passed by garbage_collect_files lists the inventory plus meta.json")
    rep.rule("C10-R3", "who deletes: Directory::delete / garbage_collect / garbage_collect_files callers equal the frozen tables (GC runs on the updater thread)")
    rep.rule("C10-R4", "who creates: Directory::open_write callers equal the frozen table; Segment::open_write's path is relative_path(component)")
    rep.rule("C10-R5", "protection is continuous: the temporary SegmentMeta stays alive until the final one exists; untrack_temp_docstore only after finalisation")
    rep.rule("C10-R6", "no orphan after a merge / commit: obsolete metas are dropped before GC runs")
    rep.rule("C10-R7", "GC bookkeeping: sync_directory before the managed list is rewritten; only deleted files leave the list")
    rep.rule("C10-R8", "durable registration: the rename of .managed.json is followed by a directory sync before the registered file is created")
    rep.not_decided += ["races inside census::Inventory", "that the directory content equals the committed set after arbitrary histories (values)"]
    r1(rep, prog)
    r2(rep, prog)
    r3(rep, prog)
    r4(rep, prog)
    r5(rep, prog)
    r6(rep, prog)
    r7(rep, prog)
    r8(rep, prog)
    # reader side of the same protocol: a reader in the middle of loading is protected because it
    # holds META_LOCK from the meta.json read until every listed segment file is open (C05-R1)
    rep.rule("C10-R9", "reader-side protection: InnerIndexReader::open_segment_readers holds the META_LOCK guard over the meta.json read and every SegmentReader::open (same rule as C05-R1), so GC cannot delete a listed file before it is opened")
    from ..report import Retag
    from .c05 import r1 as reader_region
    reader_region(Retag(rep, "C10-R9"), prog)
    r10(rep, prog)
    r11(rep, prog)
    r12(rep, prog)
    r13(rep, prog)


def r13(rep, prog):
    """the list of managed files is refreshed when the writer lock is taken"""
    from ._managed import managed_list_readers
    R = "C10-R13"
    rep.rule(R, "the managed list is refreshed under the writer lock: ManagedDirectory keeps the list of managed files in memory and rewrites `.managed.json` from that copy (register_file_as_managed, garbage_collect). The copy is only authoritative while its owner holds the writer lock: another Index handle (or process) may have registered files in between. So Index::writer_with_options, after it acquired INDEX_WRITER_LOCK and before it builds the IndexWriter, must read `.managed.json` back (a call that reaches Directory::atomic_read(MANAGED_FILEPATH)); otherwise the first file the new writer registers overwrites the persisted list with a stale one, and the files of the other handle's segments are never collected")
    base, readers = managed_list_readers(prog)
    rep.floor(R, "functions that read .managed.json back", len(base), 1)
    fid = "tantivy::index::index::Index::writer_with_options"
    b = get_body(rep, prog, R, fid)
    if b is None:
        return
    ACQ = prog.names(r"Directory::acquire_lock$")
    ok1 = rule_precede(rep, prog, R, fid, readers, {IW + "new"} if "IW" in globals() else set(prog.names(r"^tantivy::indexer::index_writer::IndexWriter::<D>::new$")),
                       "a re-read of .managed.json", "IndexWriter::new", a_ok=True, key="writer_with_options re-reads .managed.json before it builds the writer")
    if ok1:
        rule_precede(rep, prog, R, fid, ACQ, readers, "acquire_lock(INDEX_WRITER_LOCK)", "the re-read of .managed.json", a_ok=True, key="the re-read happens under the writer lock")


def r12(rep, prog):
    """every living SegmentMeta protects its own files"""
    from ..rules import natural_loop
    R = "C10-R12"
    rep.rule(R, "the living set is a union over ALL living metas: SegmentUpdater::list_files (what the garbage collector must keep) sends every element of Index::list_all_segment_metas() through SegmentMeta::list_files — as a flat_map / map over the whole vector or as a loop whose every iteration calls it — and nothing selects among the metas (filter, take, dedup, a map keyed by segment id, a max by delete opstamp). The same segment is legitimately alive at several delete opstamps (a running merge holds the metas it started from): the older meta is what protects `<seg>.<old opstamp>.del` until the merge has opened it")
    fid = "tantivy::indexer::segment_updater::SegmentUpdater::list_files"
    b = get_body(rep, prog, R, fid)
    if b is None:
        return
    LAM = "tantivy::index::index::Index::list_all_segment_metas"
    LF = "tantivy::index::index_meta::SegmentMeta::list_files"
    SELECT = re.compile(r"Iterator::(filter|filter_map|take|skip|step_by|take_while|skip_while|find|find_map|max_by|max_by_key|min_by|min_by_key|last|nth|reduce|rev_dedup)$|::(dedup|dedup_by|dedup_by_key|retain|retain_mut|truncate|drain|split_off|swap_remove|pop)$|(HashMap|BTreeMap)::<.*>::(insert|entry|get|get_mut|remove)$|hash::map::HashMap<.*>::|Itertools::(unique|unique_by|dedup|dedup_by|max_set|min_set)")
    bodies = [b] + [bb for n, bb in prog.bodies.items() if n.startswith(fid + "::{closure")]
    lam = [bi for bi, t in b.calls() if (t.get("res") or t.get("f")) == LAM]
    if not rep.check(len(lam) == 1, R, "list_files reads the inventory once", "one list_all_segment_metas() call", "cannot establish: SegmentUpdater::list_files calls list_all_segment_metas %d times" % len(lam), site=b.span):
        return
    sel = []
    for bb in bodies:
        for bi, t in bb.calls():
            f = t.get("res") or t.get("f") or ""
            f2 = t.get("f") or ""
            if SELECT.search(f) or SELECT.search(f2):
                sel.append((bb, bi, f2 or f))
    rep.check(not sel, R, "nothing selects among the living metas", "%d bodies scanned" % len(bodies),
              "SegmentUpdater::list_files passes the living SegmentMetas through `%s`: a meta that is dropped from the computation no longer protects its files. A segment can be alive at two delete opstamps at once "
              "(the metas a running merge started from and the ones a later commit produced): the garbage collector then removes the older `.del` file before the merge has opened it" % (short(sel[0][2]) if sel else ""),
              site=site(sel[0][0], sel[0][1]) if sel else b.span)
    # form 1: adapter over the whole vector
    ok_chain = False
    for bi, t in b.calls():
        f = t.get("f") or ""
        if not re.search(r"Iterator::(flat_map|map|for_each)$", f):
            continue
        src = trace_back(b, op_local(t["args"][0])) if op_local(t["args"][0]) is not None else []
        if not (src and src[-1][0] == "call" and re.search(r"IntoIterator>?::into_iter$|::iter$", src[-1][1])):
            continue
        it = b.term(src[-1][2])
        src2 = trace_back(b, op_local(it["args"][0])) if op_local(it["args"][0]) is not None else []
        if not (src2 and src2[-1][0] == "call" and src2[-1][1] == LAM):
            continue
        cl = trace_back(b, op_local(t["args"][1])) if len(t["args"]) > 1 and op_local(t["args"][1]) is not None else []
        cb = prog.bodies.get(cl[-1][1]) if cl and cl[-1][0] == "agg" else None
        if cb is None:
            continue
        lf = [Ev(x, "term") for x, tt in cb.calls() if (tt.get("res") or tt.get("f")) == LF]
        if lf and not must_pass(cb, lf, exits="all"):
            ok_chain = True
    # form 2: a loop over the vector whose every iteration calls list_files
    ok_loop = False
    for bi, t in b.calls():
        if not (t.get("f") or "").endswith("Iterator::next"):
            continue
        lp = natural_loop(b, bi)
        if not lp:
            continue
        itl = op_local(t["args"][0])
        lv = provenance(b, itl, extra_transparent=prog.names(r"IntoIterator>?::into_iter$")) if itl is not None else set()
        if not any(x[0] == "call" and x[1] == LAM for x in lv):
            continue
        lfb = {x for x, tt in b.calls() if (tt.get("res") or tt.get("f")) == LF and x in lp}
        if not lfb:
            continue
        # from the iteration's start back to the header without passing list_files?
        succs = [x for x in b.succ(bi) if x in lp]
        skip = any(bi in b.reachable((s_,), blocked=frozenset(lfb)) for s_ in succs if s_ not in lfb)
        # the exit edge of the loop (None arm) also leaves through the header: only count paths that stay in the loop with a Some
        ok_loop = ok_loop or not skip
    rep.check(ok_chain or ok_loop, R, "every living meta reaches SegmentMeta::list_files", "flat_map / map over the whole inventory" if ok_chain else "loop form",
              "cannot establish that SegmentUpdater::list_files sends every element of list_all_segment_metas() through SegmentMeta::list_files (neither an adapter over the whole vector whose closure always calls it, "
              "nor a loop over the vector whose every iteration calls it)", site=b.span)


def r10(rep, prog):
    """the files meta.json references stay 'living' even when the segment manager no longer lists
    them (delete_all_documents, rollback in progress): the updater keeps the SegmentMetas of the
    last *published* meta alive, so they stay in the inventory GC consults"""
    R = "C10-R10"
    rep.rule(R, "the last published commit stays protected: InnerSegmentUpdater holds (outside the segment manager) a value whose type reaches SegmentMeta — the cached copy of the published IndexMeta — and store_meta replaces it with (a clone of) the IndexMeta that was just saved")
    adt = prog.adts.get(SU + "InnerSegmentUpdater")
    if not rep.check(adt is not None, R, "struct InnerSegmentUpdater", "found", "cannot establish: InnerSegmentUpdater not found"):
        return
    SMETA = "tantivy::index::index_meta::SegmentMeta"
    holders = []
    for f in adt["variants"][0]["fields"]:
        if f["name"] in ("segment_manager", "index", "merge_operations"):
            continue   # the live registers / the inventory itself / merge bookkeeping do not pin the *published* state
        hits = prog.type_mentions(adt["_crate"], f["ty"], lambda row: row["k"] == "adt" and row.get("def") == SMETA)
        if hits:
            holders.append(f["name"])
    rep.check(bool(holders), R, "the updater pins the SegmentMetas of the published meta", "field(s) %s reach SegmentMeta" % holders,
              "no field of InnerSegmentUpdater (outside the segment manager) holds SegmentMeta any more: after delete_all_documents (or while a rollback is in progress) the files that meta.json still "
              "references are no longer 'living' and the next garbage collection deletes the last commit", site=adt["span"])
    sb = get_body(rep, prog, R, SU + "SegmentUpdater::store_meta")
    if sb is not None and holders:
        ok = False
        for bi in sb.normal_blocks():
            for st in sb.stmts(bi):
                # the write goes through the RwLock guard: look for the Arc::new(clone(param)) value
                pass
        lv = set()
        for b, t in sb.calls():
            if t.get("f", "").endswith("Arc::<T>::new"):
                lv |= provenance(sb, op_local(t["args"][0]))
        ok = ("param", 2) in lv
        rep.check(ok, R, "store_meta caches the IndexMeta it is given", "Arc::new(index_meta.clone())", "store_meta no longer stores (a clone of) its IndexMeta parameter (%s)" % sorted(lv), site=sb.span)
        rep.check("tantivy::index::index_meta::IndexMeta" in sb.local_ty_str(2), R, "store_meta receives the whole IndexMeta", "parameter type &IndexMeta", "store_meta's parameter is no longer an IndexMeta", site=sb.span)


def r11(rep, prog):
    """a SegmentMeta derived from another keeps the temp-doc-store flag of its source"""
    R = "C10-R11"
    rep.rule(R, "derived metas keep the temp-store flag: SegmentMeta::with_max_doc / with_delete_meta build a new InnerSegmentMeta from an existing one; its include_temp_doc_store (which decides whether list_files — and therefore the garbage collector's living set — contains <segment>.store.temp) comes from the source meta, not from a fresh constant: re-arming the flag after untrack_temp_docstore() keeps the temporary doc store of a sorted segment alive for ever")
    pre = "tantivy::index::index_meta::SegmentMeta::"
    n = 0
    for fid in sorted(prog.bodies):
        if not (fid.startswith(pre + "with_") and "{closure#" in fid):
            continue
        b = prog.bodies[fid]
        if b.argc != 2 or "InnerSegmentMeta" not in b.local_ty_str(2):
            continue
        for bi in b.normal_blocks():
            for st in b.stmts(bi):
                if st.get("r") == "agg" and (st.get("adt") or "").endswith("index_meta::InnerSegmentMeta"):
                    n += 1
                    fields = st.get("fields", [])
                    if "include_temp_doc_store" not in fields:
                        rep.fail(R, "%s: flag field" % short(fid), "cannot establish: InnerSegmentMeta has no include_temp_doc_store field", site=site(b, bi))
                        continue
                    o = st["o"][fields.index("include_temp_doc_store")]
                    l = op_local(o)
                    leaves = provenance(b, l) if l is not None else set()
                    from_src = ("param", 2) in {x[:2] for x in leaves}
                    rep.check(from_src, R, "%s takes include_temp_doc_store from the source meta" % short(fid.split("::{closure")[0]), "derived from the source InnerSegmentMeta",
                              "`%s` builds the new segment meta with a fresh include_temp_doc_store (sources: %s) instead of the source meta's flag: a segment whose temp doc store was untracked lists "
                              "<segment>.store.temp as a living file again, garbage collection never removes it" % (fid.split("::{closure")[0], sorted(str(x[:2]) for x in leaves)[:3]), site=site(b, bi))
    rep.floor(R, "derived InnerSegmentMeta constructions", n, 2)


def r1(rep, prog):
    R = "C10-R1"
    adt = prog.adts.get(SC)
    if not rep.check(adt is not None, R, "enum SegmentComponent exists", "found", "cannot establish: enum SegmentComponent not found"):
        return
    variants = [v["name"] for v in adt["variants"]]
    sb = prog.body(SC + "::iterator::SEGMENT_COMPONENTS")
    if not rep.check(sb is not None, R, "static SEGMENT_COMPONENTS exists", "found", "cannot establish: static SEGMENT_COMPONENTS not found"):
        return
    listed = []
    arr = None
    tmp = {}
    for st in sb.stmts(0):
        if st.get("r") == "agg" and st.get("ak") == "adt" and st.get("adt") == SC:
            tmp[place_local(st["d"])] = st["variant"]
        if st.get("r") == "agg" and st.get("ak") == "array" and place_local(st["d"]) == 0:
            arr = [tmp.get(op_local(o)) for o in st["o"]]
    rep.check(arr is not None and sorted(arr) == sorted(variants) and len(set(arr)) == len(arr), R,
              "SEGMENT_COMPONENTS == all variants of SegmentComponent", "%d variants, %d table entries: %s" % (len(variants), len(arr or []), arr),
              "SEGMENT_COMPONENTS %s does not list every SegmentComponent variant %s exactly once: files of the missing component "
              "are not living files (GC removes them) and are skipped by checksum validation" % (arr, variants), site=sb.span)
    ib = get_body(rep, prog, R, SC + "::iterator")
    if ib is not None:
        lv = provenance(ib, 0, extra_transparent=tuple(prog.names(r"^core::slice::<impl \[T\]>::iter$")))
        rep.check(("static", SC + "::iterator::SEGMENT_COMPONENTS") in lv and not [l for l in lv if l[0] in ("agg", "call")], R,
                  "SegmentComponent::iterator iterates the table", "returns SEGMENT_COMPONENTS.iter()", "iterator() does not return SEGMENT_COMPONENTS.iter() (%s)" % sorted(lv), site=ib.span)
    fid = "tantivy::index::index_meta::SegmentMeta::list_files"
    lb = get_body(rep, prog, R, fid)
    if lb is None:
        return
    its = calls_to(prog, lb, {SC + "::iterator"})
    filters = [(b, t) for b, t in lb.calls() if t.get("f", "").endswith("Iterator::filter")]
    maps = [(b, t) for b, t in lb.calls() if t.get("f", "").endswith("Iterator::map")]
    # every return path collects a map over iterator()
    ok = len(its) >= 1 and len(maps) == len(its)
    for b, t in maps:
        cl = [o for o in t["args"] if op_local(o) is not None]
        cdef = trace_back(lb, op_local(t["args"][1]))
        cbody = prog.body(cdef[-1][1]) if cdef and cdef[-1][0] == "agg" else None
        if cbody is None or not any(ct.get("f") == "tantivy::index::index_meta::SegmentMeta::relative_path" for _, ct in cbody.calls()):
            ok = False
    rep.check(ok, R, "list_files maps every component through relative_path", "%d iterator() call(s), each mapped by a closure calling relative_path" % len(its),
              "list_files no longer maps SegmentComponent::iterator() through relative_path on every arm", site=lb.span)
    # the only exclusion is TempStore, on the include_temp_doc_store == false arm
    okf = len(filters) <= 1
    why = "%d filter call(s)" % len(filters)
    for b, t in filters:
        cdef = trace_back(lb, op_local(t["args"][1]))
        cb = prog.body(cdef[-1][1]) if cdef and cdef[-1][0] == "agg" else None
        excl = set()
        if cb is not None:
            for pb in prog.find_bodies("^" + __import__("re").escape(cb.id) + r"::\{promoted#\d+\}$"):
                for st in pb.stmts(0):
                    if st.get("r") == "agg" and st.get("adt") == SC:
                        excl.add(st["variant"])
            ne = [ct for _, ct in cb.calls() if ct.get("f", "").endswith("PartialEq::ne")]
            if len(ne) != 1:
                okf = False
        if excl != {"TempStore"}:
            okf = False
        why += "; filter excludes %s" % sorted(excl)
        # arm: the filter block is only reachable through the '0' edge of the switch on the atomic load
        loads = [(lb_, lt) for lb_, lt in lb.calls() if "Atomic" in lt.get("f", "") and lt.get("f", "").endswith("::load")]
        # ... or the flag is captured by the filter closure, which keeps everything when it is set
        # (`filter(|c| include || *c != &TempStore)`): a switch on the captured flag inside the closure whose set arm never
        # reaches the comparison, the captured value being the atomic load
        captured_ok = False
        if cb is not None and len(loads) == 1:
            from ..rules import closure_capture
            for sbk in cb.normal_blocks():
                swc = cb.term(sbk)
                if swc["k"] != "switch" or op_local(swc["on"]) is None:
                    continue
                trc = trace_back(cb, op_local(swc["on"]))
                if not (trc and trc[-1] == ("param", 1)):
                    continue
                fl = [x for x in trc if x[0] == "field"]
                if not fl:
                    continue
                cap = closure_capture(prog, cb.id, fl[-1][1])
                if cap is None:
                    continue
                pl_ = op_local(cap[1])
                trp = trace_back(lb, pl_) if pl_ is not None else []
                if not (trp and trp[-1][0] == "call" and trp[-1][2] == loads[0][0]):
                    continue
                neb = {nb_ for nb_, ct in cb.calls() if ct.get("f", "").endswith("PartialEq::ne")}
                set_arms = [tg for v, tg in swc["vals"] if v != "0"] + ([swc["else"]] if "0" in [v for v, _ in swc["vals"]] else [])
                if neb and not (neb & cb.reachable(tuple(set_arms))):
                    captured_ok = True
        if captured_ok:
            why += "; the closure keeps every component when the captured include flag is set"
        elif len(loads) != 1:
            okf = False
        else:
            sw = lb.term(loads[0][1]["to"])
            if sw["k"] != "switch":
                okf = False
            else:
                nz = [tg for v, tg in sw["vals"] if v != "0"] + ([sw["else"]] if "0" in [v for v, _ in sw["vals"]] else [])
                r_nz = lb.reachable(tuple(nz))
                if b in r_nz:
                    okf = False
                    why += "; filter reachable when include_temp_doc_store is true"
    rep.check(okf, R, "list_files excludes only TempStore and only when the temp store is untracked", why,
              "list_files excludes more than TempStore, or excludes on the wrong arm (%s)" % why, site=lb.span)


def r2(rep, prog):
    R = "C10-R2"
    fid = MDI + "garbage_collect"
    body = get_body(rep, prog, R, fid)
    if body is None:
        return
    x = [Ev(b, "term", what="get_living_files()") for b, t in body.calls() if t.get("f", "").endswith("FnOnce::call_once") and op_local(t["args"][0]) is not None
         and body.local_ty(op_local(t["args"][0]))["k"] == "param"]
    if not rep.check(len(x) == 1, R, "garbage_collect calls the living-files closure once", "1 call site", "cannot establish: expected exactly one call of the get_living_files closure, found %d" % len(x), site=body.span):
        return
    names = body.var_names()
    for tyname, what in (("RwLockReadGuard", "read guard on meta_informations"), ("tantivy::directory::directory::DirectoryLock", "META_LOCK directory lock")):
        gs = [l for l in locals_of_type(body, lambda row: row["k"] == "adt" and row.get("def", "").endswith(tyname)) if l in names]
        if not rep.check(len(gs) >= 1, R, "garbage_collect holds a %s" % what, "local(s) %s" % [names[g] for g in gs],
                         "cannot establish: no named local of type %s in garbage_collect (guard bound to `_`?)" % tyname, site=body.span):
            continue
        ok_any = False
        why = ""
        for g in gs:
            ok, why = guard_live_at(body, g, x)
            if ok:
                ok_any = True
                break
        rep.check(ok_any, R, "living files are listed while the %s is held" % what, why,
                  "the living-files closure runs outside the %s: %s" % (what, why), site=site(body, x[0].b))
    # the lock acquired is META_LOCK
    for b, t in calls_to(prog, body, family(prog, D + "acquire_lock")):
        lv = provenance(body, op_local(t["args"][1]))
        rep.check(("static", "tantivy::directory::directory_lock::META_LOCK") in lv, R, "garbage_collect acquires META_LOCK", "lock argument is the META_LOCK static",
                  "garbage_collect acquires another lock than META_LOCK (%s)" % sorted(lv), site=site(body, b))
    # files to delete come from managed_paths read under the guard: the loop over managed paths is inside the region too
    # closure passed by garbage_collect_files
    gb = get_body(rep, prog, R, SU + "garbage_collect_files")
    if gb is not None:
        refs = [r for r in prog.body_refs(gb) if "{closure" in r]
        okc = False
        for r in refs:
            cb = prog.body(r)
            if cb and calls_to(prog, cb, {SU + "SegmentUpdater::list_files"}):
                okc = True      # (calls_to also recognises list_files written into the closure itself)
        rep.check(okc, R, "garbage_collect_files passes SegmentUpdater::list_files as the living set", "closure calls list_files",
                  "the closure given to garbage_collect no longer calls SegmentUpdater::list_files", site=gb.span)
    # at every call site of ManagedDirectory::garbage_collect the closure must *compute* the living
    # set when it is called (i.e. under the locks), not hand over a snapshot taken earlier
    SNAPSHOT_OK = {I + "single_segment_index_writer::SingleSegmentIndexWriter::<D>::finalize_inner":
                   "single-segment writer: no concurrent indexing or merging exists, the set was computed from the only segment just before"}
    for (cb_, bi_, t_) in prog.who_calls({MDI + "garbage_collect"}):
        tr = trace_back(cb_, op_local(t_["args"][1])) if op_local(t_["args"][1]) is not None else []
        clo = prog.body(tr[-1][1]) if tr and tr[-1][0] == "agg" and "{closure" in str(tr[-1][1]) else None
        computes = clo is not None and any(ct.get("f", "").endswith("::list_files") or ct.get("f", "").endswith("list_all_segment_metas") for _, ct in clo.calls())
        if cb_.id in SNAPSHOT_OK:
            rep.ok(R, "%s passes a precomputed living set" % short(cb_.id), "permitted: " + SNAPSHOT_OK[cb_.id], site=site(cb_, bi_))
            continue
        rep.check(computes, R, "%s: the living set is computed inside the closure" % short(cb_.id), "closure calls list_files when invoked (under the GC's locks)",
                  "`%s` hands garbage_collect a closure that does not compute the living files when called (a snapshot taken earlier): files created in between are managed but not living, and are deleted while being written" % cb_.id,
                  site=site(cb_, bi_))
    lf = get_body(rep, prog, R, SU + "SegmentUpdater::list_files")
    if lf is not None:
        rule_must_pass(rep, prog, R, lf.id, {"tantivy::index::index::Index::list_all_segment_metas"}, "Index::list_all_segment_metas (inventory)", exits="all")
        ins = [(b, t) for b, t in lf.calls() if t.get("f", "").endswith("HashSet::<T, S, A>::insert")]
        okm = any(("static", "tantivy::core::META_FILEPATH") in provenance(lf, op_local(t["args"][1]), extra_transparent=tuple(prog.names(r"Path::to_path_buf$"))) for b, t in ins)
        if not okm:
            # `.chain(iter::once(META_FILEPATH.to_path_buf()))` before the collect: the same element added by the iterator chain
            once = [(b, t) for b, t in lf.calls() if (t.get("f") or "").endswith("iter::sources::once::once") or (t.get("f") or "").endswith("iter::once")]
            chains = [b for b, t in lf.calls() if (t.get("f") or "").endswith("Iterator::chain")]
            okm = bool(chains) and any(t.get("args") and op_local(t["args"][0]) is not None and ("static", "tantivy::core::META_FILEPATH") in
                                       provenance(lf, op_local(t["args"][0]), extra_transparent=tuple(prog.names(r"Path::to_path_buf$"))) for b, t in once)
        rep.check(okm, R, "list_files always includes meta.json", "insert(META_FILEPATH)", "SegmentUpdater::list_files does not insert META_FILEPATH: GC would delete meta.json", site=lf.span)
        cl = [prog.body(r) for r in prog.body_refs(lf) if "{closure" in r]
        rep.check(any(c and any(t.get("f") == "tantivy::index::index_meta::SegmentMeta::list_files" for _, t in c.calls()) for c in cl + [lf]), R,
                  "list_files expands tracked metas through SegmentMeta::list_files", "in its body or a closure of it (that every meta is expanded: C10-R12)", "SegmentUpdater::list_files does not expand metas through SegmentMeta::list_files", site=lf.span)
    ab = get_body(rep, prog, R, "tantivy::index::index::Index::list_all_segment_metas")
    if ab is not None:
        rule_must_pass(rep, prog, R, ab.id, {"tantivy::index::index_meta::SegmentMetaInventory::all"}, "SegmentMetaInventory::all", exits="all")


def r3(rep, prog):
    R = "C10-R3"
    rule_who_may_call(rep, prog, R, family(prog, D + "delete"), "Directory::delete", {
        MDI + "garbage_collect": "the garbage collector (files_to_delete only)",
        MD + "delete": "delegation to the wrapped directory",
        "<tantivy::directory::directory::DirectoryLockGuard as core::ops::drop::Drop>::drop": "releases the lock file",
        I + "index_writer::advance_deletes": "removes a leftover of the very delete file it is about to create (added by the F36 repair; the path is checked below)",
    })
    # advance_deletes may only delete the path of the delete file of the meta it is creating
    ab = prog.body(I + "index_writer::advance_deletes")
    if ab is not None:
        for bi, t in ab.calls():
            f = t.get("res") or t.get("f") or ""
            if f.endswith("Directory>::delete") or f.endswith("Directory::delete"):
                l = op_local(t["args"][1]) if len(t["args"]) > 1 else None
                lv = provenance(ab, l) if l is not None else set()
                okp = any(x[0] == "call" and x[1].endswith("segment::Segment::relative_path") for x in lv)
                rep.check(okp, R, "advance_deletes deletes only the delete file it is about to write", "path <- Segment::relative_path(..)",
                          "advance_deletes calls Directory::delete on a path that is not the relative_path of the segment component it is about to create", site=site(ab, bi))
    rule_who_may_call(rep, prog, R, {MDI + "garbage_collect"}, "ManagedDirectory::garbage_collect", {
        SU + "garbage_collect_files": "the updater's GC",
        I + "single_segment_index_writer::SingleSegmentIndexWriter::<D>::finalize_inner": "single-segment writer, after its only commit",
    })
    rule_who_may_call(rep, prog, R, {SU + "garbage_collect_files"}, "garbage_collect_files", {
        SU + "SegmentUpdater::schedule_garbage_collect::{closure#0}": "explicit GC task",
        SU + "SegmentUpdater::schedule_commit::{closure#0}": "commit task",
        SU + "SegmentUpdater::end_merge::{closure#1}": "end-merge task",
    })
    # each of these closures is handed to schedule_task (single updater thread)
    for owner in ("schedule_garbage_collect", "schedule_commit", "end_merge"):
        ob = get_body(rep, prog, R, SU + "SegmentUpdater::" + owner)
        if ob is None:
            continue
        st_calls = calls_to(prog, ob, {SU + "SegmentUpdater::schedule_task"})
        okk = False
        for b, t in st_calls:
            tr = trace_back(ob, op_local(t["args"][1]))
            if tr and tr[-1][0] == "agg" and "{closure" in str(tr[-1][1]):
                cb = prog.body(tr[-1][1])
                if cb and any(ct.get("f") == SU + "garbage_collect_files" for _, ct in cb.calls()):
                    okk = True
        rep.check(okk, R, "the GC closure of %s runs through schedule_task" % owner, "closure is the argument of schedule_task (updater thread)",
                  "the closure calling garbage_collect_files in %s is not handed to schedule_task" % owner, site=ob.span)
    # the spawned pool is only used by schedule_task
    sp = [(b, bi, t) for (b, bi, t) in prog.who_calls(prog.names(r"^rayon_core::thread_pool::ThreadPool::spawn$"))]
    callers = sorted({b.id for b, _, _ in sp})
    opt = {"tantivy::core::executor::Executor::spawn_blocking"} if prog.config == "quickwit" else set()   # search-side helper of the quickwit feature
    rep.check(set(callers) - opt == {SU + "SegmentUpdater::schedule_task", SU + "SegmentUpdater::start_merge"}, R, "ThreadPool::spawn callers",
              "schedule_task (updater pool), start_merge (merge pool)", "unexpected ThreadPool::spawn callers: %s" % callers)


def r4(rep, prog):
    R = "C10-R4"
    rule_who_may_call(rep, prog, R, family(prog, D + "open_write"), "Directory::open_write", {
        "tantivy::index::segment::Segment::open_write": "segment component files (named by relative_path)",
        "tantivy::directory::directory::try_acquire_lock": "lock files (unmanaged, '.'-prefixed)",
        MD + "open_write": "delegation after registration",
        "tantivy::directory::ram_directory::RamDirectory::persist": "utility copying a RamDirectory out",
    })
    sb = get_body(rep, prog, R, "tantivy::index::segment::Segment::open_write")
    if sb is not None:
        for b, t in calls_to(prog, sb, family(prog, D + "open_write")):
            tr = trace_through(sb, op_local(t["args"][1]))
            okk = any(s[0] == "call" and s[1] == "tantivy::index::segment::Segment::relative_path" for s in tr)
            rep.check(okk, R, "Segment::open_write creates relative_path(component)", "path <- Segment::relative_path",
                      "Segment::open_write creates a file under a name that does not come from relative_path (not listed by list_files -> orphan or collected while written)", site=site(sb, b))
        rp = get_body(rep, prog, R, "tantivy::index::segment::Segment::relative_path")
        if rp is not None:
            rule_must_pass(rep, prog, R, rp.id, {"tantivy::index::index_meta::SegmentMeta::relative_path"}, "SegmentMeta::relative_path", exits="all")


def r5(rep, prog):
    R = "C10-R5"
    mb = get_body(rep, prog, R, SU + "merge")
    if mb is not None:
        ls = mb.local_by_name("merged_segment")
        x = [Ev(b, "term") for b, t in calls_to(prog, mb, {"tantivy::index::index::Index::new_segment_meta"})]
        if rep.check(len(ls) == 1 and len(x) >= 1, R, "merge: anchors", "merged_segment local and new_segment_meta call found",
                     "cannot establish: local `merged_segment` or call new_segment_meta missing in segment_updater::merge", site=mb.span):
            ok, why = guard_live_at(mb, ls[0], x)
            rep.check(ok, R, "merge: the temporary segment meta is alive when the final meta is created", why,
                      "in segment_updater::merge the temporary Segment (whose tracked meta protects the files being written) is released before new_segment_meta: %s" % why, site=site(mb, x[0].b))
            tr = provenance(mb, ls[0])
            rep.check(any(l[0] == "call" and l[1] == "tantivy::index::index::Index::new_segment" for l in tr), R, "merge: merged_segment comes from Index::new_segment", "tracked in the inventory", "merged_segment is not created by Index::new_segment", site=mb.span)
    rule_who_may_call(rep, prog, R, {"tantivy::index::index_meta::SegmentMeta::untrack_temp_docstore"}, "SegmentMeta::untrack_temp_docstore", {
        I + "index_writer::index_documents": "after SegmentWriter::finalize (the temp store has been rewritten)",
        I + "single_segment_index_writer::SingleSegmentIndexWriter::<D>::finalize_inner": "after finalize",
    })
    M = must_closure(prog, {I + "segment_serializer::SegmentSerializer::close"})
    rule_precede(rep, prog, R, I + "index_writer::index_documents", M & {I + "segment_writer::SegmentWriter::finalize"},
                 {"tantivy::index::index_meta::SegmentMeta::untrack_temp_docstore"}, "SegmentWriter::finalize", "untrack_temp_docstore")
    fin = {n for n in M if "segment_writer::SegmentWriter::finalize" in n}
    SS = I + "single_segment_index_writer::SingleSegmentIndexWriter::<D>::"
    ok, callers = rule_who_may_call(rep, prog, R, {SS + "finalize_inner"}, "SingleSegmentIndexWriter::finalize_inner", {
        SS + "finalize": "after segment_writer.finalize()?",
        SS + "finalize_with_doc_id_mapping": "after segment_writer.finalize_with_doc_id_mapping()?",
    })
    for c in (SS + "finalize", SS + "finalize_with_doc_id_mapping"):
        rule_precede(rep, prog, R, c, fin, {SS + "finalize_inner"}, "SegmentWriter::finalize*", "finalize_inner (untrack + publish)")
    # index_documents: the entry handed to the updater carries the meta derived from the segment (with_max_doc)
    ib = get_body(rep, prog, R, I + "index_writer::index_documents")
    if ib is not None:
        for b, t in calls_to(prog, ib, {I + "segment_entry::SegmentEntry::new"}):
            lv = provenance(ib, op_local(t["args"][0]), extra_transparent=("tantivy::index::segment::Segment::meta",))
            okk = any(l[0] == "call" and l[1] == "tantivy::index::segment::Segment::with_max_doc" for l in lv)
            rep.check(okk, R, "index_documents: the published entry holds the segment's own tracked meta", "SegmentEntry::new(meta <- segment.with_max_doc(..).meta())",
                      "the SegmentEntry handed to the updater does not carry the meta of the written segment (%s)" % sorted(l[1] for l in lv if l[0] == "call"), site=site(ib, b))
        rule_result_checked(rep, prog, R, ib.id, {"tantivy::future_result::FutureResult::<T>::wait"}, "schedule_add_segment(..).wait()")


def r6(rep, prog):
    R = "C10-R6"
    fid = SU + "SegmentUpdater::end_merge::{closure#1}"
    body = get_body(rep, prog, R, fid)
    if body is None:
        return
    gc = [Ev(b, "term") for b, t in calls_to(prog, body, {SU + "garbage_collect_files"})]
    ls = body.local_by_name("previous_metas")
    if rep.check(len(ls) == 1 and gc, R, "end_merge: anchors", "previous_metas local and GC call", "cannot establish: `previous_metas` or the GC call is missing in the end_merge task", site=body.span):
        drops = [Ev(b, "term") for b in body.normal_blocks() if body.term(b)["k"] == "drop" and place_local(body.term(b)["place"]) == ls[0] and is_bare(body.term(b)["place"])]
        bad = must_precede(body, drops, gc) if drops else gc
        rep.check(not bad, R, "end_merge: previous metas are dropped before GC", "%d drop site(s) dominate garbage_collect_files" % len(drops),
                  "garbage_collect_files is reachable while `previous_metas` (an Arc<IndexMeta> holding the merged-away SegmentMetas) is still alive: their files are still 'living' and stay as orphans", site=site(body, gc[0].b))
    # the before-merge entries were consumed by SegmentManager::end_merge before GC (rule C01-R4 orders end_merge < GC)
    fid = SU + "SegmentUpdater::schedule_commit::{closure#0}"
    cb = get_body(rep, prog, R, fid)
    if cb is not None:
        for b, t in calls_to(prog, cb, {I + "segment_manager::SegmentManager::commit"}):
            o = t["args"][1]
            tr = trace_through(cb, op_local(o))
            rep.check("m" in o and any(s[0] == "call" and s[1] == SU + "SegmentUpdater::purge_deletes" for s in tr), R,
                      "commit task: the purged entries are moved into SegmentManager::commit", "move of purge_deletes' result",
                      "SegmentManager::commit does not receive (by move) the entries returned by purge_deletes", site=site(cb, b))


def _storage_root(body, cur, hops=10):
    """the local a value lives in, seen through `&x`, moves, and a trip through a tuple / struct that is built and taken
    apart again (`let (a, b) = helper();` after the helper was inlined: `t = (a0, b0); r = move t; a = move r.0`)"""
    defs = body.defs()
    for _ in range(hops):
        if cur is None:
            return cur
        ds = defs.get(cur, [])
        if len(ds) == 1 and ds[0][0] == "call" and re.search(r"Deref::deref$|::as_slice$|AsRef::as_ref$|Borrow::borrow$|::as_mut_slice$|DerefMut::deref_mut$", ds[0][2].get("f") or "") \
                and ds[0][2].get("args") and op_local(ds[0][2]["args"][0]) is not None:
            cur = op_local(ds[0][2]["args"][0])      # `&vec` coerced to `&[T]`
            continue
        if not (len(ds) == 1 and ds[0][0] == "stmt" and ds[0][3].get("r") in ("ref", "use")):
            return cur
        st = ds[0][3]
        pl = st.get("p") if st.get("r") == "ref" else op_place(st["o"][0])
        if pl is None:
            return cur
        fs = proj_fields(pl)
        base = place_local(pl)
        if st.get("r") == "use" and fs and not is_bare(pl):
            b2 = base
            agg = None
            for _h in range(hops):
                d2 = defs.get(b2, [])
                if len(d2) == 1 and d2[0][0] == "stmt":
                    s2 = d2[0][3]
                    if s2.get("r") == "agg" and s2.get("ak") in ("tuple", "adt"):
                        agg = s2
                        break
                    if s2.get("r") == "use" and op_place(s2["o"][0]) is not None and is_bare(op_place(s2["o"][0])):
                        b2 = place_local(op_place(s2["o"][0]))
                        continue
                break
            if agg is not None and len(fs) == 1 and fs[0][0] < len(agg.get("o", [])):
                nxt = op_local(agg["o"][fs[0][0]])
                if nxt is not None:
                    cur = nxt
                    continue
        cur = base
    return cur


def r7(rep, prog):
    R = "C10-R7"
    fid = MDI + "garbage_collect"
    from .c01 import sync_events
    rule_precede(rep, prog, R, fid, sync_events(prog), {"tantivy::directory::managed_directory::save_managed_paths"},
                 "sync_directory", "save_managed_paths")
    rule_result_checked(rep, prog, R, fid, {"tantivy::directory::managed_directory::save_managed_paths"}, "save_managed_paths")
    body = prog.body(fid)
    if body is not None:
        # only deleted files leave the managed list: the set that is written back is the *current* set minus
        # what was deleted.  Accepted: `remove(x)` with x drawn from a local filled after a delete() call, or
        # `retain(closure)` whose closure captures such a local; rejected: any other mutation of managed_paths
        # (whole-set assignment, clear, extend, insert, retain over the living files computed earlier).
        from ..mergecov import Aliases
        al = Aliases(body, {1: "self"})
        dels_ = calls_to(prog, body, family(prog, D + "delete"))
        after_delete = set()
        for db_, _t in dels_:
            after_delete |= body.reachable(tuple(body.succ(db_)))
        filled = set()          # locals that receive Vec::push / HashSet::insert after a delete() call
        for bi, t in body.calls():
            f = t.get("f") or ""
            if bi in after_delete and re.search(r"Vec::<T, A>::push$|HashSet::<T, S(, A)?>::insert$", f) and t.get("args"):
                tr = trace_back(body, op_local(t["args"][0])) if op_local(t["args"][0]) is not None else []
                for l_ in range(len(body.locals)):
                    pass
                filled.add(_storage_root(body, op_local(t["args"][0])))
        muts, bad_muts = [], []
        for bi, t in body.calls():
            f = t.get("f") or ""
            if not t.get("args"):
                continue
            rcv = op_local(t["args"][0])
            if rcv is None:
                continue
            trr = trace_back(body, rcv)
            on_managed = any(s_[0] == "field" and s_[2] == "managed_paths" for s_ in trr)
            if not on_managed:
                continue
            name = f.split("::")[-1]
            if name in ("contains", "iter", "into_iter", "len", "is_empty", "get", "difference", "intersection", "clone", "deref", "serialize", "fmt",
                        "to_vec", "to_vec_pretty", "to_writer", "to_writer_pretty", "to_string", "to_string_pretty"):
                continue
            if name == "remove":
                lv = provenance(body, op_local(t["args"][1]), extra_transparent=tuple(prog.names(r"Iterator::next$|IntoIterator::into_iter$|<impl \[T\]>::iter$|Vec::<T, A>::as_slice$|Deref::deref$|HashSet::<T, S(, A)?>::iter$")))
                roots = set()
                for leaf in lv:
                    if leaf[0] == "call":
                        continue
                src_ok = False
                tr2 = trace_through(body, op_local(t["args"][1]), transparent=tuple(prog.names(r"Iterator::next$|IntoIterator::into_iter$|<impl \[T\]>::iter$|Vec::<T, A>::as_slice$|Deref::deref$|HashSet::<T, S(, A)?>::iter$"))) if op_local(t["args"][1]) is not None else []
                src_ok = any((s_[0] == "ref" or s_[0] == "use") for s_ in tr2) and any(True for _ in filled)
                # the iterated collection is one of the filled locals
                it_ok = False
                for bj, tj in body.calls():
                    fj = tj.get("f") or ""
                    if re.search(r"IntoIterator::into_iter$|<impl \[T\]>::iter$|HashSet::<T, S(, A)?>::iter$", fj) and tj.get("args"):
                        cur = _storage_root(body, op_local(tj["args"][0]))
                        if cur in filled and bi in body.reachable(tuple(body.succ(bj))):
                            it_ok = True
                (muts if it_ok else bad_muts).append((bi, "remove", it_ok))
            elif name == "retain":
                captured_filled = False
                cl = op_local(t["args"][1]) if len(t["args"]) > 1 else None
                trc = trace_back(body, cl) if cl is not None else []
                for s_ in trc:
                    if s_[0] == "agg" and isinstance(s_[1], str) and "{closure" in s_[1]:
                        st_ = body.stmts(s_[2])[s_[3]]
                        for o in st_.get("o", []):
                            cur = _storage_root(body, op_local(o))
                            if cur in filled:
                                captured_filled = True
                (muts if captured_filled else bad_muts).append((bi, "retain", captured_filled))
            else:
                bad_muts.append((bi, name, False))
        # whole-set stores
        for bi in body.normal_blocks():
            for st in body.stmts(bi):
                if not is_bare(st["d"]):
                    fs = proj_fields(st["d"])
                    if fs and fs[-1][1] == "managed_paths":
                        bad_muts.append((bi, "assignment of the whole set", False))
        okk = bool(muts) and not bad_muts
        rep.check(okk, R, "garbage_collect removes from the managed list inside the deleted_files loop", "%d mutation(s) of managed_paths, all removing deleted files" % len(muts),
                  "garbage_collect does not prune the managed list by exactly the files it deleted (%s): a file that was not deleted — one whose deletion failed, or one registered by another thread while the "
                  "collection was running — leaves the registry: it is never collected and never checksum-validated again" % sorted({m[1] for m in bad_muts} or {"no mutation found"}),
                  site=site(body, (bad_muts or muts or [(0,)])[0][0]))
        # files pushed to deleted_files only on the Ok / FileDoesNotExist arms of self.delete
        dels = calls_to(prog, body, family(prog, D + "delete"))
        rep.check(len(dels) == 1, R, "garbage_collect deletes in exactly one place", "1 call to self.delete", "expected one delete call, found %d" % len(dels), site=body.span)


def r8(rep, prog):
    R = "C10-R8"
    fid = MDI + "register_file_as_managed"
    body = get_body(rep, prog, R, fid)
    if body is None:
        return
    SAVE = {"tantivy::directory::managed_directory::save_managed_paths"}
    sync = family(prog, D + "sync_directory")
    cs = calls_to(prog, body, SAVE)
    if not rep.check(bool(cs), R, "register_file_as_managed persists the list", "%d call(s) to save_managed_paths" % len(cs), "cannot establish: save_managed_paths not called", site=body.span):
        return
    from ..model import ok_continuation_events, witness_path, path_spans
    S = [Ev(b, "term") for b, _ in calls_to(prog, body, sync)]
    for b, t in cs:
        evs, _ = ok_continuation_events(body, b)
        starts = tuple(e.b for e in evs if e.kind == "enter") or tuple(body.succ(b))
        bad = must_pass(body, S, exits="ok", starts=starts)
        if bad:
            p = witness_path(body, bad[0], S + [Ev(x, "enter") for x in body.error_blocks()], starts=starts)
            rep.fail(R, "register_file_as_managed returns Ok without syncing the .managed.json rename",
                     "after save_managed_paths (rename of .managed.json) an Ok return is reachable without sync_directory; the caller then creates the file: "
                     "a crash can persist the creation but not the registration, leaving a file no later GC ever removes",
                     site=site(body, b), path=path_spans(body, p))
        else:
            rep.ok(R, "register_file_as_managed syncs after every rewrite of .managed.json", "every Ok path crosses sync_directory", site=site(body, b))
