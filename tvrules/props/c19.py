"""C19 — tokens and snippets point inside the text, on char boundaries."""
from ..model import (Ev, must_pass, must_precede, trace_through, trace_back, op_local, op_place, place_local,
                     is_bare, provenance, proj_fields, place_proj)
from ..rules import (rule_precede, rule_must_pass, get_body, calls_to, site, short, return_defs)
from .. import panics

TOK = "tantivy_tokenizer_api::Token"
T = "tantivy::tokenizer::"
SN = "tantivy::snippet::"
ADV = {
    "simple": "<tantivy::tokenizer::simple_tokenizer::SimpleTokenStream<'_> as tantivy_tokenizer_api::TokenStream>::advance",
    "whitespace": "<tantivy::tokenizer::whitespace_tokenizer::WhitespaceTokenStream<'_> as tantivy_tokenizer_api::TokenStream>::advance",
    "ngram": "<tantivy::tokenizer::ngram_tokenizer::NgramTokenStream<'_> as tantivy_tokenizer_api::TokenStream>::advance",
}
REGEX_ADV = "<tantivy::tokenizer::regex_tokenizer::RegexTokenStream<'_> as tantivy_tokenizer_api::TokenStream>::advance"
RAW = "<tantivy::tokenizer::raw_tokenizer::RawTokenizer as tantivy_tokenizer_api::Tokenizer>::token_stream"
FACET = "<tantivy::tokenizer::facet_tokenizer::FacetTokenizer as tantivy_tokenizer_api::Tokenizer>::token_stream"

WRITERS = {
    ADV["simple"]: "tokenizer: offsets are the operands of its own slice of the text (R2)",
    ADV["whitespace"]: "tokenizer: same",
    ADV["ngram"]: "tokenizer: same",
    REGEX_ADV: "tokenizer: cursor + regex match bounds",
    RAW: "tokenizer: 0 .. text.len()",
    "tantivy_tokenizer_api::Token::reset": "resets to 0 / defaults",
}
LITERALS = {
    "<tantivy_tokenizer_api::Token as core::clone::Clone>::clone": "derive(Clone): copies both offsets",
    "<tantivy_tokenizer_api::Token as core::default::Default>::default": "offsets 0..0",
    "tantivy::tokenizer::split_compound_words::SplitCompoundWordsTokenStream::<'_, T>::split": "`..*token`: both offsets copied from the source token",
}


def root_local(body, l, limit=16):
    """follow single-definition plain copies/moves of bare locals back to their root"""
    for _ in range(limit):
        ds = body.defs().get(l, [])
        if len(ds) != 1 or ds[0][0] != "stmt":
            return l
        st = ds[0][3]
        if st.get("r") != "use":
            return l
        p = op_place(st["o"][0])
        if p is None or not is_bare(p):
            return l
        l = p
    return l


def token_field_writes(body):
    out = []
    for bi in body.normal_blocks():
        for i, st in enumerate(body.stmts(bi)):
            fs = proj_fields(st["d"])
            if fs and fs[-1][2] == TOK:
                out.append((bi, i, fs[-1][1], st))
    return out


def run(rep, prog, tier):
    rep.rule("C19-R1", "only tokenizers write offsets: who-may-write Token::{offset_from, offset_to} and who-may-build a Token literal equal the frozen tables; no TokenFilter stream writes them")
    rep.rule("C19-R2", "offsets are self-checked by construction: in the Simple / Whitespace / Ngram streams the two values stored in offset_from / offset_to are the very operands of the Range used to slice the stream's text, and token.text is cleared and then filled with exactly that slice before `true` is returned (Rust's str slicing then proves in-bounds, char-boundary, from <= to, text == slice)")
    rep.rule("C19-R3", "snippet never panics: panic inventory over src/snippet from the public entry points equals the triaged table, and the invariant the reasons rest on (every highlighted range lies inside the fragment) is maintained: FragmentCandidate::stop_offset only grows (max with the token's end)")
    rep.rule("C19-R4", "to_html escapes all fragment text: every push of fragment text goes through encode_minimal; only the prefix/postfix are pushed raw")
    rep.not_decided += ["texts produced by filters / stemmers", "that highlighted text analyses to a query term", "max_num_chars accounting (chars vs bytes)"]
    r1(rep, prog)
    r2(rep, prog)
    r3(rep, prog)
    r4(rep, prog)
    r5(rep, prog)
    r6(rep, prog)
    r7(rep, prog)
    r8(rep, prog)
    r9(rep, prog)


def r9(rep, prog):
    """a token that starts a new fragment must fit into it"""
    R = "C19-R9"
    rep.rule(R, "no fragment is longer than max_num_chars: search_fragments starts a new fragment at a token that does not fit into the current one (FragmentCandidate::new(token.offset_from)) and then adds the token. On that path nothing has compared the token's own length with max_num_chars yet, so between the restart and try_add_token of the same iteration there must be a test that involves max_num_chars and can keep the token out; otherwise any token longer than the limit yields an over-long fragment ('the fragment is ... no longer than the configured number of characters')")
    b = get_body(rep, prog, R, SN + "search_fragments")
    if b is None:
        return
    heads = [bi for bi, t in b.calls() if (t.get("f") or "").endswith("TokenStream::next")]
    news = [bi for bi, t in b.calls() if (t.get("f") or "") == SN + "FragmentCandidate::new"]
    adds = [bi for bi, t in b.calls() if (t.get("f") or "") == SN + "FragmentCandidate::try_add_token"]
    if not rep.check(len(heads) == 1 and adds, R, "anchors in search_fragments", "next %s, FragmentCandidate::new %s, try_add_token %s" % (heads, news, adds),
                     "cannot establish: search_fragments no longer has one TokenStream::next loop with a try_add_token", site=b.span):
        return
    H = heads[0]
    from ..rules import natural_loop
    lp = natural_loop(b, H)
    hb = H
    steps = 0
    while not lp and steps < 4 and len(b.pred(hb)) == 1:
        hb = b.pred(hb)[0]
        lp = natural_loop(b, hb)
        steps += 1
    restarts = [x for x in news if x in lp]
    if not rep.check(bool(restarts), R, "the fragment restart inside the loop", "%s" % restarts, "cannot establish: no FragmentCandidate::new inside the token loop of search_fragments", site=b.span):
        return
    for r in restarts:
        ok = False
        region = set(b.reachable((r,), blocked=frozenset({hb, H} | set(adds)))) | {r}
        for sb in region:
            t = b.term(sb)
            if t["k"] != "switch" or op_local(t["on"]) is None:
                continue
            lv = provenance(b, op_local(t["on"]))
            if ("param", 4) not in lv:
                continue
            arms = [tg for _, tg in t["vals"]] + [t.get("else")]
            reach_add = [bool(set(adds) & (set(b.reachable((tg,), blocked=frozenset({hb, H, sb}))) | {tg})) for tg in arms if tg is not None]
            if any(reach_add) and not all(reach_add):
                ok = True
        rep.check(ok, R, "the token that restarts a fragment is measured against max_num_chars", "a test on max_num_chars lies between the restart and try_add_token",
                  "search_fragments restarts the fragment at a token that does not fit and adds that token unconditionally: a token longer than max_num_chars on its own (`set_max_num_chars(10)`, "
                  "`Donaudampfschifffahrtsgesellschaft`) becomes a fragment of 34 characters; also with max_num_chars = 0", site=site(b, r))


STR_CUTS = {
    ADV["simple"]: (1, "R2: the slice operands are the stored offsets, produced by char_indices of the text"),
    ADV["whitespace"]: (1, "R2: same"),
    ADV["ngram"]: (1, "R2: operands are code point frontiers yielded by CodepointFrontiers over the same text"),
    "<tantivy::tokenizer::ngram_tokenizer::CodepointFrontiers<'_> as core::iter::traits::iterator::Iterator>::next":
        (1, "`&self.s[offset..]` where offset is the running sum of char lengths decoded from the front of s"),
    REGEX_ADV: (1, "R5: `&self.text[m.end()..]`, the end of a regex Match on that text"),
    "<tantivy::tokenizer::facet_tokenizer::FacetTokenStream<'_> as tantivy_tokenizer_api::TokenStream>::advance":
        (2, "cut at the position of the 0x00 facet separator (ASCII: both sides are boundaries) or at text.len()"),
    "tantivy::tokenizer::split_compound_words::SplitCompoundWordsTokenStream::<'_, T>::split":
        (1, "split_at the end of an aho-corasick match of a whole-str pattern over the token text"),
}
STR_CUT_CALLS = r"^(core::str::traits::<impl core::ops::index::Index<I> for str>::index|core::str::traits::<impl core::ops::index::IndexMut<I> for str>::index_mut|core::str::<impl str>::(split_at|split_at_mut|split_at_checked|get_unchecked|get_unchecked_mut|slice_unchecked|slice_mut_unchecked)|core::str::converts::from_utf8_unchecked|core::str::converts::from_utf8_unchecked_mut|alloc::string::String::(from_utf8_unchecked|truncate|split_off|drain|remove|insert|insert_str|replace_range))$"


def r8(rep, prog):
    """every place where a tokenizer cuts a str by a byte index is a triaged site"""
    R = "C19-R8"
    rep.rule(R, "byte-index cuts of text in the tokenizers: every call in src/tokenizer and tokenizer-api that cuts a str or String at a byte index (str indexing, split_at, *_unchecked, String::truncate / split_off / drain / replace_range ...) is one of the triaged sites of the table, each with the reason why its index is a character boundary inside the text; in particular no Tokenizer::token_stream hands its stream a sub-slice of the text")
    CUTS = prog.names(STR_CUT_CALLS)
    found = {}
    nbodies = 0
    for b in prog.bodies.values():
        if b.kind in ("const", "static", "promoted"):
            continue
        if not (b.span.startswith("src/tokenizer/") or b.span.startswith("tokenizer-api/")):
            continue
        nbodies += 1
        for bi, t in b.calls():
            f = t.get("res") or t.get("f") or ""
            if f in CUTS:
                # sites are keyed by the function they are written in: a cut inside a closure of `next` and the same cut
                # written straight into `next` are the same site
                found.setdefault(b.raw.get("root") or b.id, []).append((bi, f, b))
    rep.floor(R, "tokenizer bodies scanned", nbodies, 150)
    for fid, (n, why) in sorted(STR_CUTS.items()):
        got = len(found.get(fid, []))
        b = prog.body(fid)
        rep.check(got <= n and b is not None, R, "byte-index cuts in %s" % short(fid), "%d site(s): %s" % (got, why),
                  ("`%s` cuts text at a byte index at %d sites, %d were triaged (%s): the new cut has no argument that its index is a character boundary inside the text" % (fid, got, n, why)) if b is not None else "cannot establish: body `%s` not found" % fid,
                  site=site(found[fid][-1][2], found[fid][-1][0]) if b is not None and found.get(fid) else (b.span if b is not None else None))
    for fid, ss in sorted(found.items()):
        if fid in STR_CUTS:
            continue
        b = prog.body(fid)
        rep.check(False, R, "byte-index cut in %s" % short(fid), "",
                  "`%s` cuts text at a byte index (%s) and is not a triaged site: nothing shows that the index is a character boundary inside the text; a tokenizer that panics or shortens its text breaks every caller (indexing, snippets)" % (fid, short(ss[0][1])),
                  site=site(ss[0][2], ss[0][0]))
    rep.floor(R, "triaged byte-index cut sites present", sum(len(v) for k, v in found.items() if k in STR_CUTS), 8)


def r5(rep, prog):
    """RegexTokenStream keeps a byte cursor next to the text it has not consumed yet"""
    from ..mergecov import Aliases, fmt_path
    R = "C19-R5"
    rep.rule(R, "cursor bookkeeping of the regex tokenizer: offsets are `cursor + match.start()/end()` where `cursor` is the number of bytes already cut off the front of `text`; so every store into self.cursor adds `m.end()` of a regex Match and every store into self.text is `&self.text[m.end()..]` of the same Match (a RangeFrom slice of the text itself): the two advance by the same number of bytes on every path")
    fid = "<tantivy::tokenizer::regex_tokenizer::RegexTokenStream<'_> as tantivy_tokenizer_api::TokenStream>::advance"
    b = get_body(rep, prog, R, fid)
    if b is None:
        return
    al = Aliases(b, {1: "self"})

    def match_end_source(l):
        """local of the Match whose end() produced l, or None"""
        tr = trace_back(b, l)
        if tr and tr[-1][0] == "call" and tr[-1][1].endswith("Match::<'h>::end") and all(s[0] in ("use", "cast") for s in tr[:-1]):
            t = b.term(tr[-1][2])
            cur_l = op_local(t["args"][0])
            for _ in range(8):
                ds = b.defs().get(cur_l, [])
                if len(ds) != 1 or ds[0][0] != "stmt":
                    break
                st_ = ds[0][3]
                if st_.get("r") in ("ref", "rawptr") and is_bare(st_["p"]):
                    cur_l = st_["p"]
                elif st_.get("r") in ("use",) and op_place(st_["o"][0]) is not None and is_bare(op_place(st_["o"][0])):
                    cur_l = op_place(st_["o"][0])
                else:
                    break
            return cur_l
        return None
    cur, txt = [], []
    for bi in b.normal_blocks():
        for i, st in enumerate(b.stmts(bi)):
            if is_bare(st["d"]):
                continue
            r = al.resolve(st["d"])
            if not r or r[0] != "self":
                continue
            if r[1] == (("f", "cursor"),):
                # `self.cursor = (self.cursor + k).0`
                src = op_local(st["o"][0]) if st.get("o") else None
                m = None
                tr = trace_back(b, src) if src is not None else []
                if tr and tr[-1][0] == "bin" and tr[-1][1] in ("AddWithOverflow", "Add"):
                    bst = b.stmts(tr[-1][2])[tr[-1][3]]
                    ops = bst.get("o", [])
                    if len(ops) == 2:
                        r0 = al.resolve(op_place(ops[0]))
                        if r0 == ("self", (("f", "cursor"),)) and op_local(ops[1]) is not None:
                            m = match_end_source(op_local(ops[1]))
                cur.append((bi, m))
            elif r[1] == (("f", "text"),):
                src = op_local(st["o"][0]) if st.get("o") else None
                m = None
                tr = trace_back(b, src) if src is not None else []
                call = next((s for s in tr if s[0] == "call"), None)
                if call and call[1].endswith("::index") and "str" in call[1]:
                    t = b.term(call[2])
                    base = al.resolve(op_place(t["args"][0]))
                    rng = trace_back(b, op_local(t["args"][1])) if op_local(t["args"][1]) is not None else []
                    if base and base[1][:1] == (("f", "text"),) and rng and rng[-1][0] == "agg" and str(rng[-1][1]).endswith("RangeFrom::RangeFrom"):
                        ast = b.stmts(rng[-1][2])[rng[-1][3]]
                        if ast.get("o") and op_local(ast["o"][0]) is not None:
                            m = match_end_source(op_local(ast["o"][0]))
                txt.append((bi, m))
    rep.check(len(cur) >= 1 and all(m is not None for _, m in cur), R, "every store into self.cursor adds Match::end()", "%d store(s)" % len(cur),
              "RegexTokenStream::advance stores into self.cursor something else than `self.cursor + m.end()`: the byte cursor and the remaining text can drift apart, every later token gets shifted offsets", site=site(b, cur[0][0]) if cur else b.span)
    rep.check(len(txt) >= 1 and all(m is not None for _, m in txt), R, "every store into self.text is &self.text[m.end()..]", "%d store(s)" % len(txt),
              "RegexTokenStream::advance re-assigns self.text from something else than the RangeFrom slice `&self.text[m.end()..]`: the bytes cut off the text are not the bytes added to the cursor", site=site(b, txt[0][0]) if txt else b.span)
    ms = {m for _, m in cur + txt if m is not None}
    rep.check(len(cur) == len(txt) and len(ms) <= 1, R, "cursor and text advance by the end of the same Match", "match local %s" % sorted(ms),
              "self.cursor and self.text are not advanced pairwise by the same Match (%d cursor store(s), %d text store(s), matches %s)" % (len(cur), len(txt), sorted(ms)), site=b.span)


def r6(rep, prog):
    """the highlighted ranges a Snippet exposes are disjoint by construction"""
    R = "C19-R6"
    rep.rule(R, "disjoint highlights by construction: tokens may overlap (n-gram analyzers), so the ranges collected in a fragment can overlap; every Snippet built outside the tests receives its `highlighted` vector from collapse_overlapped_ranges (sort, deduplicate, merge) — `Snippet::highlighted()` is public, 'highlighted ranges are sorted, disjoint' must hold for it and not only for to_html()")
    names = prog.names(r"snippet::Snippet::new$")
    sites_ = [(b, bi, t) for b, bi, t in prog.who_calls(set(names)) if "::tests::" not in b.id]
    rep.floor(R, "Snippet::new call sites", len(sites_), 1)
    for b, bi, t in sites_:
        l = op_local(t["args"][1]) if len(t.get("args", [])) > 1 else None
        lv = provenance(b, l) if l is not None else set()
        okk = any(x[0] == "call" and x[1].endswith("snippet::collapse_overlapped_ranges") for x in lv)
        if not okk:
            # ... or the constructor itself collapses what it is given
            nb = prog.bodies.get("tantivy::snippet::Snippet::new")
            if nb is not None:
                for sb, stt in [(x, y) for x in nb.normal_blocks() for y in nb.stmts(x)]:
                    if stt.get("r") == "agg" and (stt.get("adt") or "").endswith("snippet::Snippet") and "highlighted" in stt.get("fields", []):
                        hl = op_local(stt["o"][stt["fields"].index("highlighted")])
                        if hl is not None and any(x[0] == "call" and x[1].endswith("snippet::collapse_overlapped_ranges") for x in provenance(nb, hl)):
                            okk = True
        rep.check(okk, R, "%s gives Snippet::new collapsed ranges" % short(b.id), "highlighted <- collapse_overlapped_ranges(..)",
                  "`%s` builds a Snippet whose highlighted ranges come straight from the fragment's token matches (%s): with an analyzer whose tokens overlap (n-grams) `Snippet::highlighted()` returns "
                  "overlapping, unsorted ranges such as [0..3, 1..4]" % (b.id, sorted(str(x[1]) for x in lv if x[0] == "call")[:3]), site=site(b, bi))


def r7(rep, prog):
    """the snippet generator looks a token up as the analyzer produced it"""
    R = "C19-R7"
    rep.rule(R, "no case folding behind the analyzer's back: FragmentCandidate::try_add_token decides whether a token is highlighted by looking its text up among the query terms; both come out of the field's analyzer, so the key is the token text itself. A to_lowercase() on the way makes a case-preserving analyzer (whitespace, raw) highlight `HELLO` for the query `hello` and miss `HELLO` for the query `HELLO`: 'each [highlighted range] covers text whose analysis yields a query term'")
    fid = "tantivy::snippet::FragmentCandidate::try_add_token"
    b = get_body(rep, prog, R, fid)
    if b is None:
        return
    gets = [(bi, t) for bi, t in b.calls() if (t.get("f") or "").endswith("BTreeMap::<K, V, A>::get")]
    if not gets:
        # the lookup may be done by the caller, which then hands try_add_token the score it found
        for cb_, cbi, ct in prog.who_calls({fid}):
            g2 = [(bi, t) for bi, t in cb_.calls() if (t.get("f") or "").endswith("BTreeMap::<K, V, A>::get")]
            if g2 and "::tests::" not in cb_.id:
                b, gets = cb_, g2
                break
    if not rep.check(len(gets) == 1, R, "try_add_token looks the token up once", "1 BTreeMap::get", "expected one BTreeMap::get in try_add_token, found %d" % len(gets), site=b.span):
        return
    bi, t = gets[0]
    l = op_local(t["args"][1])
    lv = provenance(b, l) if l is not None else set()
    folds = sorted(x[1] for x in lv if x[0] == "call" and ("to_lowercase" in x[1] or "to_uppercase" in x[1] or "to_ascii_" in x[1]))
    rep.check(not folds, R, "the lookup key is the token text as analysed", "no case folding",
              "FragmentCandidate::try_add_token folds the case of the token text (%s) before it looks it up among the query terms: with a case-preserving analyzer a token that does not match the query is "
              "highlighted and a token that matches is not" % folds, site=site(b, bi))


def r1(rep, prog):
    R = "C19-R1"
    writers = {}
    literals = {}
    for b in prog.bodies.values():
        if b.kind in ("const", "static", "promoted"):
            continue
        for bi, i, fld, st in token_field_writes(b):
            if fld in ("offset_from", "offset_to"):
                writers.setdefault(b.id, []).append((bi, fld))
        for bi in b.normal_blocks():
            for st in b.stmts(bi):
                if st.get("r") == "agg" and st.get("adt") == TOK:
                    literals.setdefault(b.id, []).append(bi)
    for w, sites_ in sorted(writers.items()):
        b = prog.body(w)
        rep.check(w in WRITERS, R, "offset writer %s" % short(w), WRITERS.get(w, ""),
                  "`%s` assigns Token::%s but is not a tokenizer of the table: a filter must keep the offsets of the source text" % (w, sites_[0][1]), site=site(b, sites_[0][0]))
    for w in WRITERS:
        rep.check(w in writers, R, "table entry %s" % short(w), "present", "cannot establish: expected offset writer `%s` not found" % w)
    for w, blocks in sorted(literals.items()):
        if "serde" in w:
            continue  # derive(Deserialize): data round trip, not a token stream
        b = prog.body(w)
        rep.check(w in LITERALS, R, "Token literal in %s" % short(w), LITERALS.get(w, ""),
                  "`%s` builds a Token by literal and is not in the table" % w, site=site(b, blocks[0]))
    # the split-compound literal copies offsets from the source token
    sb = prog.body("tantivy::tokenizer::split_compound_words::SplitCompoundWordsTokenStream::<'_, T>::split")
    if sb is not None:
        okk = True
        n = 0
        for bi in sb.normal_blocks():
            for st in sb.stmts(bi):
                if st.get("r") == "agg" and st.get("adt") == TOK:
                    n += 1
                    for fld in ("offset_from", "offset_to"):
                        i = st["fields"].index(fld)
                        pl = op_place(st["o"][i])
                        direct = pl is not None and any(f[1] == fld and f[2] == TOK for f in proj_fields(pl))
                        tr = trace_through(sb, op_local(st["o"][i])) if op_local(st["o"][i]) is not None else []
                        if not direct and not any(s[0] == "field" and s[2] == fld for s in tr):
                            okk = False
        rep.check(okk and n >= 1, R, "split-compound tokens keep the source offsets", "%d literal(s): offset_from/offset_to copied field to field" % n,
                  "SplitCompoundWordsTokenStream::split builds tokens whose offsets are not copied from the source token", site=sb.span)
    # filters: enumerate TokenStream impls and confirm none but the tokenizers is a writer
    impls = [im for im in prog.impls if im.get("trait") == "tantivy_tokenizer_api::TokenStream"]
    rep.floor(R, "TokenStream implementations examined", len(impls), 12)


def r2(rep, prog):
    R = "C19-R2"
    IDX = prog.names(r"^core::str::traits::<impl core::ops::index::Index<I> for str>::index$")
    for name, fid in ADV.items():
        body = get_body(rep, prog, R, fid)
        if body is None:
            continue
        w = [(bi, i, fld, st) for bi, i, fld, st in token_field_writes(body) if fld in ("offset_from", "offset_to")]
        wf = [x for x in w if x[2] == "offset_from"]
        wt = [x for x in w if x[2] == "offset_to"]
        if not rep.check(len(wf) == 1 and len(wt) == 1, R, "%s: one write per offset" % name, "offset_from and offset_to assigned once each",
                         "%s::advance assigns offsets %d / %d times" % (name, len(wf), len(wt)), site=body.span):
            continue
        rf = root_local(body, op_local(wf[0][3]["o"][0]))
        rt = root_local(body, op_local(wt[0][3]["o"][0]))
        idx = [(b, t) for b, t in body.calls() if t.get("res") in IDX or t.get("f") in IDX]
        ok_idx = False
        why = "no str slice found"
        the_idx = None
        for b, t in idx:
            tr = trace_back(body, op_local(t["args"][1]))
            if tr and tr[-1][0] == "agg" and tr[-1][1].endswith("range::Range::Range"):
                st = body.stmts(tr[-1][2])[tr[-1][3]]
                a, c = (root_local(body, op_local(o)) for o in st["o"])
                base = trace_through(body, op_local(t["args"][0]))
                on_text = any(s[0] == "field" and s[2] == "text" for s in base) and not any(s[0] == "field" and s[2] == "token" for s in base)
                why = "slice operands roots (_%s,_%s) vs offsets roots (_%s,_%s); base is self.text: %s" % (a, c, rf, rt, on_text)
                if (a, c) == (rf, rt) and on_text:
                    ok_idx = True
                    the_idx = b
        rep.check(ok_idx, R, "%s: the stored offsets are the operands of the slice of self.text" % name, why,
                  "%s::advance stores offsets that are not the operands of its `&self.text[from..to]` slice (%s): offsets are no longer validated by the slicing" % (name, why), site=site(body, wf[0][0]))
        if the_idx is None:
            continue
        PUSH = prog.names(r"^alloc::string::String::push_str$")
        CLEAR = prog.names(r"^alloc::string::String::clear$")
        pcs = calls_to(prog, body, PUSH)
        okp = False
        for b, t in pcs:
            src = trace_through(body, op_local(t["args"][1]))
            dst = trace_through(body, op_local(t["args"][0]))
            if any(s[0] == "call" and len(s) > 2 and s[2] == the_idx for s in src) and any(s[0] == "field" and s[2] == "text" and True for s in dst) and any(s[0] == "field" and s[2] == "token" for s in dst):
                okp = True
        rep.check(okp and len(pcs) == 1, R, "%s: token.text receives exactly that slice" % name, "one push_str(token.text, &self.text[from..to])",
                  "%s::advance does not fill token.text with the slice it validated" % name, site=site(body, the_idx))
        rule_precede(rep, prog, R, fid, CLEAR, PUSH, "token.text.clear()", "push_str", a_ok=False, key="%s: text cleared before the push" % name)
        # `true` is returned only after the push
        trues = []
        for bi in body.normal_blocks():
            for i, st in enumerate(body.stmts(bi)):
                if is_bare(st["d"]) and st["d"] == 0 and st.get("r") == "use" and st["o"][0].get("v") == "1":
                    trues.append(Ev(bi, "stmt", i))
        bad = must_precede(body, [Ev(b, "term") for b, _ in pcs], trues) if trues else [1]
        rep.check(not bad, R, "%s: `true` only after the token was written" % name, "%d `return true` site(s) dominated by the push" % len(trues),
                  "%s::advance can return true without having produced the token text" % name, site=body.span)
    # raw tokenizer: 0 .. text.len()
    rb = get_body(rep, prog, R, RAW)
    if rb is not None:
        w = [(bi, i, fld, st) for bi, i, fld, st in token_field_writes(rb) if fld in ("offset_from", "offset_to")]
        okr = len(w) == 2
        for bi, i, fld, st in w:
            o = st["o"][0]
            if fld == "offset_from":
                okr = okr and o.get("v") == "0"
            else:
                tr = trace_through(rb, op_local(o)) if op_local(o) is not None else []
                okr = okr and any(s[0] == "call" and s[1].endswith("<impl str>::len") for s in tr) and any(s == ("param", 2) for s in trace_through(rb, op_local(rb.term(tr[-1][2])["args"][0])) if tr and tr[-1][0] == "call")
        rep.check(okr, R, "raw tokenizer: offsets are 0 .. text.len()", "constants of the input", "RawTokenizer does not set offsets to 0 .. text.len()", site=rb.span)
    # regex tokenizer: provenance only
    gb = get_body(rep, prog, R, REGEX_ADV)
    if gb is not None:
        okg = True
        cursor_ok = False
        for bi in gb.normal_blocks():
            for st in gb.stmts(bi):
                fs = proj_fields(st["d"])
                if fs and fs[-1][1] == "cursor":
                    lv = set()
                    for o in st.get("o", []):
                        if op_local(o) is not None:
                            lv |= provenance(gb, op_local(o))
                    if any(l[0] == "call" and l[1].endswith("Match::<'h>::end") for l in lv):
                        cursor_ok = True
        for bi, i, fld, st in token_field_writes(gb):
            if fld == "offset_from":
                lv = provenance(gb, op_local(st["o"][0])) if op_local(st["o"][0]) is not None else set()
                if not any(l[0] == "call" and l[1].endswith("Match::<'h>::start") for l in lv):
                    okg = False
            if fld == "offset_to":
                pl = op_place(st["o"][0])
                fl = {f[1] for f in proj_fields(pl)} if pl is not None else set()
                tr = trace_back(gb, op_local(st["o"][0])) if op_local(st["o"][0]) is not None else []
                if "cursor" not in fl and not any(x[0] == "field" and x[2] == "cursor" for x in tr):
                    okg = False
        okg = okg and cursor_ok
        rep.check(okg, R, "regex tokenizer: offsets derive from cursor + regex match bounds", "provenance: Match::start / Match::end (char-boundary guarantee of the regex crate is trusted)",
                  "RegexTokenStream offsets no longer derive from the regex match bounds", site=gb.span)
    # facet tokenizer never sets offsets (R1 table) — positions only


def r3(rep, prog):
    R = "C19-R3"
    ents = [b.id for b in prog.bodies.values() if b.span.startswith("src/snippet/mod.rs") and b.kind in ("fn", "assocfn") and b.raw.get("vis") == "pub"]
    rep.floor(R, "public snippet entry points", len(ents), 8)

    def in_scope(fid):
        b = prog.body(fid)
        return b is not None and b.span.startswith("src/snippet/mod.rs")
    scope = prog.reachable_bodies(ents, scope=in_scope) | set(ents)
    inv = panics.fold_closures(panics.inventory(prog, scope))
    INV = "every highlighted range lies inside [start_offset, stop_offset) of its fragment and offsets come from tokens of the same text (C19-R2): "
    TABLE = {
        (SN + "search_fragments", "P4", "Overflow(Sub)"): (2, INV + "next.offset_to >= next.offset_from >= fragment.start_offset (token offsets_from are non-decreasing; a fragment starts at a token's offset_from); memory_budget arithmetic none"),
        (SN + "select_best_fragment_combination", "P3", "index"): (1, INV + "&text[start_offset..stop_offset]: both are token offsets of `text` (char boundaries, in bounds), start <= stop because stop_offset only grows from start_offset"),
        (SN + "select_best_fragment_combination::{closure#1}", "P4", "Overflow(Sub)"): (2, INV + "item.start/end >= fragment.start_offset"),
        (SN + "Snippet::to_html", "P3", "index"): (3, INV + "ranges are relative to the fragment, sorted and merged by collapse_overlapped_ranges, so start_from <= item.start <= item.end <= fragment.len() on char boundaries"),
        (SN + "SnippetGenerator::snippet", "P3", "index"): (1, "&fragment_candidates[..]: the full range never panics"),
        (SN + "merge_overlapping_ranges", "P1", "panic"): (1, "debug_assert!(is_sorted): the only caller, collapse_overlapped_ranges, sorts first (sort_and_deduplicate_ranges)"),
    }
    TABLE = panics.fold_table(TABLE, prog)
    for k, sites_ in sorted(inv.items()):
        fid, cls, kind = k
        key = "%s: %s %s" % (short(fid), cls, kind)
        if k in TABLE and TABLE[k][0] > 0:
            cnt, why = TABLE[k]
            rep.check(len(sites_) <= cnt, R, key, "triaged (%d site(s)): %s" % (len(sites_), why),
                      "%d site(s) where the table has %d" % (len(sites_), cnt), site=site(sites_[0][0], sites_[0][1]))
        else:
            rep.fail(R, key, "untriaged panicking construct (%s %s, %d site(s)) reachable from the snippet API" % (cls, kind, len(sites_)), site=site(sites_[0][0], sites_[0][1]))
    rep.extra["snippet_scope_bodies"] = len(scope)
    rep.extra["snippet_panic_sites"] = sum(len(v) for v in inv.values())
    # the invariant: stop_offset is monotone
    fid = SN + "FragmentCandidate::try_add_token"
    body = get_body(rep, prog, R, fid)
    if body is not None:
        ws = []
        for bi in body.normal_blocks():
            for i, st in enumerate(body.stmts(bi)):
                fs = proj_fields(st["d"])
                if fs and fs[-1][1] == "stop_offset":
                    ws.append((bi, i, st))
        okm = bool(ws)
        why = "%d write(s)" % len(ws)
        for bi, i, st in ws:
            l = op_local(st["o"][0])
            tr = trace_back(body, l) if l is not None else []
            mono = False
            if tr and tr[-1][0] == "call" and (tr[-1][1].endswith("cmp::Ord::max") or tr[-1][1].endswith("cmp::max")):
                t = body.term(tr[-1][2])
                srcs = []
                for o in t["args"]:
                    s = trace_back(body, op_local(o)) if op_local(o) is not None else []
                    srcs.append({x[2] for x in s if x[0] == "field"})
                mono = any("stop_offset" in s for s in srcs) and any("offset_to" in s for s in srcs)
                why = "stop_offset = max(stop_offset, token.offset_to)"
            else:
                # guarded assignment: the write is only reachable through a comparison involving stop_offset
                dom = body.dominators().get(bi, set())
                for d in dom:
                    for s2 in body.stmts(d):
                        if s2.get("r") == "bin" and s2.get("op") in ("Gt", "Lt", "Ge", "Le"):
                            flds = set()
                            for o in s2["o"]:
                                if op_local(o) is not None:
                                    flds |= {x[2] for x in trace_back(body, op_local(o)) if x[0] == "field"}
                            if "stop_offset" in flds and "offset_to" in flds:
                                mono = True
                                why = "assignment guarded by a comparison of token.offset_to with stop_offset"
            if not mono:
                okm = False
                why = "stop_offset is overwritten with a value that is not max(stop_offset, token.offset_to)"
        rep.check(okm, R, "FragmentCandidate::stop_offset only grows", why,
                  "try_add_token sets stop_offset to the end of the *last* token, not the maximum: with overlapping tokens (n-grams) a highlighted range ends beyond the fragment and "
                  "Snippet::to_html slices out of bounds (%s)" % why, site=site(body, ws[0][0]) if ws else body.span)
        # highlighted ranges are the token's own offsets
        okh = False
        for bi in body.normal_blocks():
            for st in body.stmts(bi):
                if st.get("r") == "agg" and st.get("adt", "").endswith("range::Range"):
                    f = [{x[2] for x in trace_back(body, op_local(o)) if x[0] == "field"} for o in st["o"] if op_local(o) is not None]
                    okh = len(f) == 2 and "offset_from" in f[0] and "offset_to" in f[1]
        rep.check(okh, R, "highlighted ranges are token.offset_from..token.offset_to", "Range literal built from the token's fields", "try_add_token records a range that is not the token's own offsets", site=body.span)
    sf = get_body(rep, prog, R, SN + "search_fragments")
    if sf is not None:
        # a new fragment starts at the token's offset_from
        okn = False
        for b, t in calls_to(prog, sf, {SN + "FragmentCandidate::new"}):
            tr = trace_back(sf, op_local(t["args"][0])) if op_local(t["args"][0]) is not None else []
            if any(s[0] == "field" and s[2] == "offset_from" for s in tr):
                okn = True
        rep.check(okn, R, "a fragment starts at a token's offset_from", "FragmentCandidate::new(next.offset_from)", "search_fragments starts fragments elsewhere than at a token start", site=sf.span)


def r4(rep, prog):
    R = "C19-R4"
    fid = SN + "Snippet::to_html"
    body = get_body(rep, prog, R, fid)
    if body is None:
        return
    PUSH = prog.names(r"^alloc::string::String::push_str$")
    ENC = prog.names(r"^htmlescape::encode::encode_minimal$|^htmlescape::encode_minimal$")
    pcs = calls_to(prog, body, PUSH)
    rep.floor(R, "push_str sites in to_html", len(pcs), 5)
    nenc = nraw = 0
    for k, (b, t) in enumerate(pcs):
        tr = trace_through(body, op_local(t["args"][1]), transparent=tuple(prog.names(r"Deref::deref$")))
        enc = any(s[0] == "call" and s[1] in ENC for s in tr)
        raw = any(s[0] == "field" and s[2] in ("snippet_prefix", "snippet_postfix") for s in tr)
        if enc:
            nenc += 1
        elif raw:
            nraw += 1
        rep.check(enc or raw, R, "to_html push #%d" % (k + 1), "escaped fragment text" if enc else "prefix/postfix",
                  "to_html pushes text that is neither encode_minimal(..) of fragment text nor the prefix/postfix: unescaped fragment text reaches the HTML", site=site(body, b))
    rep.check(nenc >= 3 and nraw == 2, R, "to_html: 3 escaped pushes, 2 raw tag pushes", "%d escaped / %d raw" % (nenc, nraw), "unexpected mix of pushes in to_html: %d escaped / %d raw" % (nenc, nraw), site=body.span)
    # every encode_minimal argument is a slice of self.fragment
    for b, t in calls_to(prog, body, ENC):
        tr = trace_through(body, op_local(t["args"][0]), transparent=tuple(prog.names(r"Deref::deref$|Index::index$|impl core::ops::index::Index<I> for str>::index$|String as core::ops::index::Index<I>>::index$")))
        rep.check(any(s[0] == "field" and s[2] == "fragment" for s in tr), R, "encode_minimal is applied to fragment text", "argument is a slice of self.fragment", "encode_minimal is applied to something else than the fragment", site=site(body, b))
