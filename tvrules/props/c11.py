"""C11 — an I/O error never corrupts the index nor is silently swallowed."""
from collections import Counter, defaultdict

from ..model import (Ev, must_pass, must_precede, trace_through, trace_back, op_local, op_place, place_local,
                     is_bare, provenance, reach_positions, place_proj)
from ..rules import (rule_precede, rule_must_pass, rule_result_checked, rule_who_may_call, get_body, family,
                     calls_to, site, short, rule_between, return_defs, locals_of_type)
from .. import errfate

SU = "tantivy::indexer::segment_updater::"
I = "tantivy::indexer::"
IW = I + "index_writer::IndexWriter::<D>::"

ENTRY_PREFIXES = (
    IW, I + "prepared_commit::PreparedCommit", "tantivy::index::index::Index::", "tantivy::index::index::IndexBuilder::",
    "tantivy::reader::IndexReader", "tantivy::reader::InnerIndexReader", "tantivy::reader::IndexReaderBuilder",
    I + "single_segment_index_writer::", SU + "merge_indices", SU + "merge_filtered_segments",
    "<tantivy::indexer::index_writer::IndexWriter<D> as core::ops::drop::Drop>::drop",
)

IMD = "in-memory decode of bytes already read (io::Error is only the BinarySerializable signature), search side — no storage operation"
# (function, callee, fate) -> (count, reason); every entry was read.
FATE_TABLE_ = {
    ("<tantivy::indexer::index_writer::IndexWriter<D> as core::ops::drop::Drop>::drop", "JoinHandle::join (the joined thread's own Result)", "discarded"):
        (1, "Drop cannot report: the workers are joined to let them finish; a writer dropped without commit discards its uncommitted work anyway"),
    # --- fate 'err-arm-continues': the Result is matched, but the Err arm reaches a non-error exit
    ("tantivy::directory::managed_directory::ManagedDirectory::garbage_collect", "<tantivy::directory::managed_directory::ManagedDirectory as tantivy::directory::directory::Directory>::delete", "err-arm-continues"):
        (1, "GC: FileDoesNotExist counts as deleted, an IoError keeps the file managed and it is retried by the next GC (logged)"),
    ("tantivy::directory::managed_directory::ManagedDirectory::wrap", "tantivy::directory::directory::Directory::atomic_read", "err-arm-continues"):
        (1, "FileDoesNotExist(.managed.json) = a fresh directory: start with an empty managed set; every other error is returned"),
    ("tantivy::indexer::index_writer::advance_deletes", "<tantivy::directory::managed_directory::ManagedDirectory as tantivy::directory::directory::Directory>::delete", "err-arm-continues"):
        (1, "added by the F36 repair: FileDoesNotExist = there is no leftover delete file to remove (the normal case); an IoError is returned"),
    ("tantivy::directory::managed_directory::ManagedDirectory::reload_managed_files", "tantivy::directory::directory::Directory::atomic_read", "err-arm-continues"):
        (1, "same as wrap (added by the F34 repair): FileDoesNotExist(.managed.json) = nothing was registered yet, there is nothing to merge; every other error is returned"),
    ("tantivy::directory::mmap_directory::file_watcher::FileWatcher::spawn::{closure#0}", "tantivy::directory::mmap_directory::file_watcher::FileWatcher::compute_checksum", "err-arm-continues"):
        (1, "watcher thread: meta.json momentarily unreadable, retried at the next poll; no caller to report to"),
    ("tantivy::directory::watch_event_router::WatchCallbackList::broadcast", "std::thread::builder::Builder::spawn", "err-arm-continues"):
        (1, "thread spawn failure is logged; the sender is dropped with the closure, so the returned future resolves to its error message"),
    ("tantivy::index::segment_reader::SegmentReader::open_with_custom_alive_set", "tantivy::index::segment::Segment::open_read", "err-arm-continues"):
        (1, "optional component: a missing positions file means no positions (CompositeFile::empty); every other error is returned"),
    ("tantivy::indexer::index_writer::IndexWriter::<D>::rollback", "tantivy::indexer::index_writer::IndexWriter::<D>::operation_receiver", "err-arm-continues"):
        (1, "the receiver is only drained when it exists; Err means the writer was killed and there is nothing to drain"),
    ("tantivy::indexer::index_writer::IndexWriter::<D>::wait_merging_threads", "tantivy::indexer::segment_updater::SegmentUpdater::wait_merging_thread", "err-arm-continues"):
        (1, "logged and then returned: `result` is the function's return value"),
    ("tantivy::indexer::segment_updater::SegmentUpdater::start_merge", "tantivy::indexer::segment_manager::SegmentManager::start_merge", "err-arm-continues"):
        (1, "logged, then returned to the caller as an already-failed FutureResult (`return err.into()`)"),
    ("tantivy::reader::IndexReaderBuilder::try_into::{closure#0}", "tantivy::reader::InnerIndexReader::reload", "err-arm-continues"):
        (1, "OnCommitWithDelay callback on the watcher thread: a failed background reload is logged, the previous searcher stays published; no caller to report to"),
    ("tantivy::indexer::segment_updater::SegmentUpdater::schedule_commit::{closure#0}", "tantivy::indexer::segment_updater::garbage_collect_files", "discarded"):
        (1, "documented: a GC failure after a successful commit is ignored without side effects (undeleted files stay managed and are retried)"),
    ("tantivy::indexer::segment_updater::SegmentUpdater::end_merge::{closure#1}", "tantivy::indexer::segment_updater::garbage_collect_files", "discarded"):
        (1, "same: GC after end_merge is best effort"),
    ("tantivy::directory::mmap_directory::MmapCache::open_mmap_impl", "memmap2::Mmap::advise", "discarded"):
        (1, "madvise is a hint; failure does not affect the mapping"),
    ("tantivy::directory::mmap_directory::file_watcher::FileWatcher::spawn::{closure#0}", "tantivy::directory::watch_event_router::WatchCallbackList::broadcast", "discarded"):
        (1, "watcher thread: `let _ = callbacks.broadcast().wait()` — reload callbacks log their own errors; there is no caller to report to"),
    ("<tantivy::directory::ram_directory::RamDirectory as tantivy::directory::directory::Directory>::atomic_write", "tantivy::directory::watch_event_router::WatchCallbackList::broadcast", "discarded"):
        (1, "RamDirectory notifies watchers after the write; the future only signals callback completion"),
    ("tantivy::indexer::segment_updater::SegmentUpdater::consider_merge_options", "tantivy::indexer::segment_updater::SegmentUpdater::start_merge", "discarded"):
        (1, "documented: a merge that cannot be started is not fatal (start_merge logs a warning); the merge outcome is reported by the merge task itself"),
    ("tantivy::directory::mmap_directory::file_watcher::FileWatcher::spawn", "std::thread::builder::Builder::spawn", "panic:expect"):
        (1, "thread spawn failure at watcher creation panics (not a storage operation)"),
    ("tantivy::indexer::index_writer::IndexWriter::<D>::delete_term", "tantivy::indexer::index_writer::IndexWriter::<D>::delete_query", "swallowed:unwrap_or_else"):
        (1, "documented backward compatibility: an invalid term deletes nothing; delete_query performs no storage operation (weight construction only)"),
    ("tantivy::index::index::Index::create_in_ram", "tantivy::index::index::IndexBuilder::create_in_ram", "panic:unwrap"):
        (1, "RamDirectory creation cannot fail with I/O; documented infallible convenience constructor"),
    ("<tantivy::schema::document::default_document::CompactDocArrayIter<'a> as core::iter::traits::iterator::Iterator>::next", "<tantivy::schema::document::default_document::ValueAddr as tantivy_common::serialize::BinarySerializable>::deserialize", "swallowed:ok"): (1, IMD),
    ("<tantivy::schema::document::default_document::CompactDocObjectIter<'a> as core::iter::traits::iterator::Iterator>::next", "<tantivy::schema::document::default_document::ValueAddr as tantivy_common::serialize::BinarySerializable>::deserialize", "swallowed:ok"): (2, IMD),
    ("<tantivy::schema::document::default_document::CompactDocValue<'a> as tantivy::schema::document::value::Value<'a>>::as_value", "tantivy::schema::document::default_document::CompactDocValue::<'a>::get_ref_value", "panic:unwrap"): (1, IMD),
    ("<tantivy::store::index::skip_index::LayerCursor<'_> as core::iter::traits::iterator::Iterator>::next", "tantivy::store::index::block::CheckpointBlock::deserialize", "swallowed:ok"): (1, IMD),
    ("<tantivy_common::bitset::ReadOnlyBitSet as core::convert::From<&'a tantivy_common::bitset::BitSet>>::from", "tantivy_common::bitset::BitSet::serialize", "panic:expect"): (1, "serialisation into a Vec<u8> cannot fail"),
    ("tantivy::fastfield::readers::FastFieldReaders::resolve_field", "tantivy::schema::schema::Schema::get_field", "swallowed:ok"): (1, "schema lookup (FieldNotFound), not a storage error; falls back to the JSON default field"),
    ("tantivy::schema::document::default_document::write_into", "tantivy_common::serialize::BinarySerializable::serialize", "panic:unwrap"): (1, "serialisation into a Vec<u8> cannot fail"),
    ("tantivy::store::index::skip_index::SkipIndex::open", "<alloc::vec::Vec<T> as tantivy_common::serialize::BinarySerializable>::deserialize", "panic:unwrap"): (1, IMD),
    ("tantivy::store::reader::block_read_index", "<u32 as tantivy_common::serialize::BinarySerializable>::deserialize", "swallowed:unwrap_or"): (1, IMD + "; the last entry has no successor, the fallback is the index start"),
    ("tantivy::termdict::fst_termdict::term_info_store::TermInfoStore::get", "<tantivy::termdict::fst_termdict::term_info_store::TermInfoBlockMeta as tantivy_common::serialize::BinarySerializable>::deserialize", "panic:expect"): (1, IMD),
    ("tantivy::termdict::fst_termdict::termdict::TermDictionary::empty", "tantivy::termdict::fst_termdict::termdict::TermDictionary::open", "panic:unwrap"): (1, "opens a static in-memory empty dictionary"),
    ("tantivy_columnar::columnar::writer::serializer::ColumnarSerializer::<W>::new", "tantivy_sstable::dictionary::Dictionary::<TSSTable>::builder", "panic:unwrap"): (1, "builder over an in-memory Vec<u8> buffer"),
    ("tantivy_common::serialize::BinarySerializable::num_bytes", "tantivy_common::serialize::BinarySerializable::serialize", "panic:unwrap"): (1, "serialisation into a counting sink cannot fail"),
    ("tantivy_sstable::index::v3::BlockAddrStore::get_block_meta", "<tantivy_sstable::index::v3::BlockAddrBlockMetadata as tantivy_common::serialize::BinarySerializable>::deserialize", "swallowed:ok"): (1, IMD),
    ("tantivy_sstable::streamer::Streamer::<'_, TSSTable, A>::advance", "tantivy_sstable::delta::DeltaReader::<TValueReader>::advance", "panic:unwrap"): (1, IMD + " (block bytes were loaded by the caller)"),
}


# entries that exist only in some build configurations: key -> set of configs
ONLY_IN_ = {
    ("tantivy::termdict::fst_termdict::term_info_store::TermInfoStore::get", "<tantivy::termdict::fst_termdict::term_info_store::TermInfoBlockMeta as tantivy_common::serialize::BinarySerializable>::deserialize", "panic:expect"): {"default", "nodebug", "zstd", "failpoints"},
    ("tantivy::termdict::fst_termdict::termdict::TermDictionary::empty", "tantivy::termdict::fst_termdict::termdict::TermDictionary::open", "panic:unwrap"): {"default", "nodebug", "zstd", "failpoints"},
    ("tantivy_sstable::dictionary::Dictionary::<TSSTable>::empty", "tantivy_sstable::Writer::<W, TValueWriter>::finish", "panic:expect"): {"quickwit"},
    ("tantivy_sstable::dictionary::Dictionary::<TSSTable>::empty", "tantivy_sstable::dictionary::Dictionary::<TSSTable>::builder", "panic:expect"): {"quickwit"},
    ("tantivy_sstable::dictionary::Dictionary::<TSSTable>::empty", "tantivy_sstable::dictionary::Dictionary::<TSSTable>::open", "panic:unwrap"): {"quickwit"},
}
FATE_TABLE_.update({
    ("tantivy_sstable::dictionary::Dictionary::<TSSTable>::empty", "tantivy_sstable::Writer::<W, TValueWriter>::finish", "panic:expect"): (1, "quickwit build: empty dictionary written into a Vec<u8>, cannot fail"),
    ("tantivy_sstable::dictionary::Dictionary::<TSSTable>::empty", "tantivy_sstable::dictionary::Dictionary::<TSSTable>::builder", "panic:expect"): (1, "quickwit build: builder over a Vec<u8>"),
    ("tantivy_sstable::dictionary::Dictionary::<TSSTable>::empty", "tantivy_sstable::dictionary::Dictionary::<TSSTable>::open", "panic:unwrap"): (1, "quickwit build: opens the in-memory empty dictionary it just wrote"),
})


def entries(prog):
    return [b.id for b in prog.bodies.values() if b.kind in ("fn", "assocfn", "closure") and b.id.startswith(ENTRY_PREFIXES)]


def run(rep, prog, tier):
    rep.rule("C11-R1", "error fate: every call reachable from the write/open/reload entry points whose Result carries a storage error is propagated (?, match, returned, passed on); discard / adapter-swallow / panic sites equal the frozen, individually reasoned table")
    rep.rule("C11-R2", "first error before the commit point: in the commit task save_metas is reachable only through the Ok-continuations of purge_deletes; in save_metas every fallible step before atomic_write is checked; the in-memory meta is updated only after the file write succeeded")
    rep.rule("C11-R3", "worker errors reach the caller: prepare_commit / wait_merging_threads check both layers of JoinHandle::join; a worker can only return Ok through IndexWriterBomb::defuse, which is unreachable from error exits")
    rep.rule("C11-R4", "merge failures are confined: merge is only called inside catch_unwind in the merge task; every exit of the task (panic arm, error arm, success arm) sends a result to the waiting future")
    rep.rule("C11-R5", "a killed updater refuses work: schedule_task tests is_alive before ThreadPool::spawn")
    rep.rule("C11-R6", "no future is orphaned: every oneshot Sender created by FutureResult::create is moved into the spawned closure, and the closure sends on every exit")
    rep.not_decided += ["that a new writer can continue after the failure (liveness)", "content of storage after a fault (that is C01's protocol)"]
    r1(rep, prog)
    r2(rep, prog)
    r3(rep, prog)
    r4(rep, prog)
    r5(rep, prog)
    r6(rep, prog)
    r7(rep, prog)
    r8(rep, prog)
    publish_only_alive(rep, prog, "C11-R8")
    r9(rep, prog)


def r1(rep, prog):
    R = "C11-R1"
    ents = entries(prog)
    rep.floor(R, "entry points (IndexWriter, PreparedCommit, Index, IndexReader, SingleSegmentIndexWriter, merge_*)", len(ents), 100)
    scope = prog.reachable_bodies(ents)
    res = errfate.scan(prog, scope)
    rep.floor(R, "storage-error call sites in scope", len(res), 900)
    seen = Counter()
    sites = defaultdict(list)
    fc = Counter()
    for body, b, t, et, fates in res:
        bad = sorted(f for f in fates if f not in ("checked", "returned", "passed"))
        for f in fates:
            fc[f.split(":")[0]] += 1
        if not bad:
            continue
        callee = t.get("res") or t.get("f")
        for f in bad:
            k = (body.id, callee, f)
            seen[k] += 1
            sites[k].append(site(body, b))
    # a Result that IS inspected by `match` / `if let`, but whose Err arm can reach a non-error exit: the
    # error is logged or replaced by a default and the operation goes on ("log and continue")
    from ..model import try_continuations
    for body, b, t, et, fates in res:
        if "checked" not in fates:
            continue
        cont, brk, brs = try_continuations(body, b)
        eb = body.error_blocks()
        starts = tuple(x for x in brk if x not in eb)
        if not starts:
            continue
        if must_pass(body, [Ev(x, "enter") for x in eb], exits="all", starts=starts):
            k = (body.id, t.get("res") or t.get("f"), "err-arm-continues")
            seen[k] += 1
            sites[k].append(site(body, b))
            fc["err-arm-continues"] += 1
    # the Result a joined thread returns (the Ok payload of JoinHandle::join) is a storage Result too
    for fid_ in sorted(scope):
        jb_ = prog.body(fid_)
        if jb_ is None:
            continue
        for b, fates in errfate.join_inner_fates(prog, jb_):
            fc["thread-result"] += 1
            for f in sorted(x for x in fates if x not in ("checked", "returned", "passed")):
                k = (jb_.id, "JoinHandle::join (the joined thread's own Result)", f)
                seen[k] += 1
                sites[k].append(site(jb_, b))
    # sites are keyed by the function they are written in (closures folded into it: a site that moves between a loop
    # body and the closure of an iterator adaptor is the same site)
    from ..panics import root_fn
    def fate_class(f):
        # `x.unwrap_or_else(|e| ..)`, `x.ok()`, `if let Err(e) = x { log }`, `match x { Err(e) => default, .. }`: spellings of
        # "the error is looked at and the operation goes on"
        return "swallowed" if f.startswith("swallowed:") or f == "err-arm-continues" else f
    seen_f, sites_f = Counter(), defaultdict(list)
    for (fid, callee, fate), n in seen.items():
        k2 = (root_fn(fid), callee, fate_class(fate))
        seen_f[k2] += n
        sites_f[k2].extend(sites[(fid, callee, fate)])
    seen, sites = seen_f, sites_f
    FATE_TABLE, ONLY_IN = {}, {}
    for (fid, callee, fate), (cnt, why) in FATE_TABLE_.items():
        fids = [root_fn(fid)]
        if fids[0] not in prog.bodies and fids[0] in prog.gone:
            fids = [root_fn(c) for c in prog.gone[fids[0]]]     # inlined into its former callers and deleted
        for f_ in fids:
            k2 = (f_, callee, fate_class(fate))
            FATE_TABLE[k2] = (FATE_TABLE[k2][0] + cnt, FATE_TABLE[k2][1] + "; " + why) if k2 in FATE_TABLE else (cnt, why)
            if (fid, callee, fate) in ONLY_IN_:
                ONLY_IN[k2] = ONLY_IN_[(fid, callee, fate)]
    for k, n in sorted(seen.items()):
        fid, callee, fate = k
        key = "%s: %s of %s" % (short(fid), fate, short(callee))
        if k in FATE_TABLE:
            cnt, why = FATE_TABLE[k]
            rep.check(n <= cnt, R, key, "permitted (%d site(s)): %s" % (n, why),
                      "%d site(s) where the table permits %d: a new %s of a storage Result in `%s`" % (n, cnt, fate, fid), site=sites[k][0])
        else:
            how = "inspected or adapted, but the operation goes on after an Err (the error is only logged or replaced by a default: unwrap_or*, ok(), is_err(), or a match / if-let whose Err arm reaches a non-error exit)" if fate == "swallowed" else fate.replace(":", " by ")
            rep.fail(R, key, "the Result of `%s` (storage error) is %s instead of being propagated" % (callee, how), site=sites[k][0])
    for k in FATE_TABLE:
        if k in ONLY_IN and prog.config not in ONLY_IN[k]:
            continue
        if k not in seen:
            rep.stale(R, "%s / %s / %s" % (short(k[0]), short(k[1]), k[2]), FATE_TABLE[k][1])
    rep.stale_floor(R, "permitted storage-error fates", len(FATE_TABLE))
    # flow-sensitive companion: a storage Result kept in a local must not be overwritten unread
    OVERWRITE_OK = {
        "tantivy::directory::mmap_directory::file_watcher::FileWatcher::spawn::{closure#0}":
            "the `let _ = callbacks.broadcast().wait()` temporary of the watcher loop (tabled above as discarded)",
    }
    ow = errfate.overwritten_results(prog, scope)
    for body, b, l in ow:
        nm = body.var_names().get(l, "_tmp")
        if body.id in OVERWRITE_OK:
            rep.ok(R, "%s: Result local `%s` reassigned unread" % (short(body.id), nm), "permitted: " + OVERWRITE_OK[body.id], site=site(body, b))
        else:
            rep.fail(R, "%s: Result local `%s` can be overwritten before it is inspected" % (short(body.id), nm),
                     "a storage Result stored in `%s` can be assigned again (e.g. on the next loop iteration) on a path where the previous value was never read: an earlier error is replaced by a later Ok and never reported" % nm,
                     site=site(body, b))
    for k in OVERWRITE_OK:
        if k not in {body.id for body, _, _ in ow}:
            rep.stale(R, "overwrite %s" % short(k), OVERWRITE_OK[k])
    rep.extra["fate_counts"] = dict(fc)
    rep.extra["scope_bodies"] = len(scope)
    rep.sample({"rule": R, "scope_bodies": len(scope), "storage_error_call_sites": len(res), "fates": dict(fc)})


def r2(rep, prog):
    R = "C11-R2"
    fid = SU + "SegmentUpdater::schedule_commit::{closure#0}"
    PURGE = {SU + "SegmentUpdater::purge_deletes"}
    SAVE = {SU + "SegmentUpdater::save_metas"}
    rule_precede(rep, prog, R, fid, PURGE, SAVE, "purge_deletes", "SegmentUpdater::save_metas (the commit point)")
    rule_result_checked(rep, prog, R, fid, SAVE, "SegmentUpdater::save_metas")
    rule_result_checked(rep, prog, R, SU + "SegmentUpdater::purge_deletes", {I + "index_writer::advance_deletes"}, "advance_deletes")
    sm = SU + "save_metas"
    D = "tantivy::directory::directory::Directory::"
    body = get_body(rep, prog, R, sm)
    if body is not None:
        from .c01 import sync_events
        for names, what in ((prog.names(r"^serde_json::.*to_vec_pretty$"), "serde_json::to_vec_pretty"), (sync_events(prog), "sync_directory")):
            rule_result_checked(rep, prog, R, sm, names, what)
        rule_precede(rep, prog, R, sm, prog.names(r"^serde_json::.*to_vec_pretty$"), family(prog, D + "atomic_write"), "serialisation of the meta", "atomic_write")
    from .c01 import store_meta_after_publish
    store_meta_after_publish(rep, prog, R)
    # PreparedCommit::commit waits for the task and returns its result
    for fn in (I + "prepared_commit::PreparedCommit::<'_, D>::commit", I + "prepared_commit::PreparedCommit::<'_, D>::commit_future"):
        b = prog.body(fn)
        if b is None:
            cands = prog.find_bodies(r"prepared_commit::PreparedCommit::<.*>::%s$" % fn.split("::")[-1])
            b = cands[0] if cands else None
        if rep.check(b is not None, R, "PreparedCommit::%s exists" % fn.split("::")[-1], "found", "cannot establish: PreparedCommit::%s not found" % fn.split("::")[-1]):
            if b.id.endswith("::commit"):
                fates = set()
                for bb, t in b.calls():
                    if t.get("f", "").endswith("FutureResult::<T>::wait"):
                        fates |= errfate.fate_of_call(b, bb, t)
                rep.check(fates and fates <= {"returned", "checked"}, R, "PreparedCommit::commit returns the commit task's result", "wait() -> %s" % sorted(fates),
                          "PreparedCommit::commit does not return/check the result of the commit future (%s)" % sorted(fates), site=b.span)


def r3(rep, prog):
    R = "C11-R3"
    JOIN = prog.names(r"^std::thread::(join_handle::)?JoinHandle::<T>::join$")
    for fid in (IW + "prepare_commit", IW + "wait_merging_threads"):
        body = get_body(rep, prog, R, fid)
        if body is None:
            continue
        js = calls_to(prog, body, JOIN)
        if not rep.check(len(js) == 1, R, "%s joins its workers" % short(fid), "1 join site", "expected one JoinHandle::join in %s, found %d" % (fid, len(js)), site=body.span):
            continue
        jb = js[0][0]
        # a layer is checked by a `?` on a value derived from join(), or by a match on it whose Err arm only
        # leads to error exits (the two spellings of the same thing)
        layers = set()
        for b, t in body.calls():
            if t.get("f", "").endswith("Try::branch"):
                tr = trace_through(body, op_local(t["args"][0]))
                if any(s[0] == "call" and len(s) > 2 and s[2] == jb for s in tr):
                    layers.add(("?", b))
                elif tr and tr[-1][0] == "multi":
                    # a value with several definitions (`match join() { Ok(r) => r, Err(p) => Err(..) }` written into
                    # this function): set-valued provenance instead of the single chain
                    lv = provenance(body, op_local(t["args"][0]), extra_transparent=tuple(prog.names(r"Result::<T, E>::map_err$")))
                    if any(x[0] == "call" and x[1] in JOIN for x in lv):
                        layers.add(("?", b))
        eb = body.error_blocks()
        for b in body.normal_blocks():
            sw = body.term(b)
            if sw["k"] != "switch":
                continue
            for st in body.stmts(b):
                if st.get("r") != "discr" or op_local(sw["on"]) != place_local(st["d"]):
                    continue
                pl = st["p"]
                tr = trace_through(body, place_local(pl))
                if not any(s[0] == "call" and len(s) > 2 and s[2] == jb for s in tr):
                    continue
                lt = body.local_ty(place_local(pl))
                if not (lt["k"] == "adt" and lt.get("def") == "core::result::Result"):
                    continue        # e.g. the ControlFlow a `?` switches on: counted above
                err_arm = next((tb for v, tb in sw["vals"] if v == "1"), sw.get("else"))
                if err_arm is None:
                    continue
                r_ = body.reachable((err_arm,), blocked=eb)
                if not (set(body.return_blocks()) & r_) and jb not in r_:
                    depth = sum(1 for e in place_proj(pl) if e.startswith("d:")) + sum(1 for s in tr if s[0] == "downcast")
                    layers.add(("match", depth))
        n = len(layers)
        rep.check(n >= 2, R, "%s propagates the panic layer and the error layer of join()" % short(fid), "%d `?` applied to values derived from join()" % n,
                  "%s checks only %d layer(s) of JoinHandle::join(): a failed indexing worker (Err inside Ok) is not reported to the caller of commit" % (fid, n), site=site(body, jb))
        # the join is inside the loop over all former handles: its block is on a cycle
        r = body.reachable(tuple(body.succ(jb)))
        rep.check(jb in r, R, "%s joins every worker handle" % short(fid), "join is inside the loop over the handles", "join() in %s is not in a loop: only one worker is joined" % fid, site=site(body, jb))
    # recreate_document_channel before the join loop (workers must see the channel closed)
    rule_precede(rep, prog, R, IW + "prepare_commit", {IW + "recreate_document_channel"}, JOIN, "recreate_document_channel", "JoinHandle::join", a_ok=False)
    rule_precede(rep, prog, R, IW + "wait_merging_threads", {IW + "drop_sender"}, JOIN, "drop_sender", "JoinHandle::join", a_ok=False)
    # the worker closure
    wid = IW + "add_indexing_worker::{closure#0}"
    wb = get_body(rep, prog, R, wid)
    if wb is not None:
        DEF = {I + "index_writer_status::IndexWriterBomb::<D>::defuse"}
        rule_must_pass(rep, prog, R, wid, DEF, "IndexWriterBomb::defuse", exits="ok", a_ok=False)
        ds = [b for b, _ in calls_to(prog, wb, DEF)]
        from_err = wb.reachable(tuple(wb.error_blocks()))
        after = set()
        for d in ds:
            after |= wb.reachable(tuple(wb.succ(d)))
        err_after = sorted(after & wb.error_blocks())
        rep.check(ds and not any(d in from_err for d in ds) and not err_after, R, "a failing worker never defuses the bomb", "defuse() unreachable from error exits, and no error exit reachable after defuse()",
                  "IndexWriterBomb::defuse is reachable after an error in the indexing worker: the writer would not be killed", site=wb.span)
        rule_result_checked(rep, prog, R, wid, {I + "index_writer::index_documents"}, "index_documents")
        up = wb.local_ty(1)
        ups = [wb.types[a]["s"] for a in up.get("a", [])]
        rep.check(any("IndexWriterBomb" in u for u in ups), R, "the bomb is moved into the worker closure", "captured by value", "the worker closure does not capture the IndexWriterBomb by value (%s)" % ups, site=wb.span)
    ab = get_body(rep, prog, R, IW + "add_indexing_worker")
    if ab is not None:
        rule_precede(rep, prog, R, ab.id, {I + "index_writer_status::IndexWriterStatus::<D>::create_bomb"}, prog.names(r"^std::thread::(builder::)?Builder::spawn$"), "create_bomb", "thread spawn", a_ok=False)
    # Drop for the bomb kills the writer
    bd = get_body(rep, prog, R, "<tantivy::indexer::index_writer_status::IndexWriterBomb<D> as core::ops::drop::Drop>::drop")
    if bd is not None:
        ks = calls_to(prog, bd, {I + "index_writer_status::Inner::<D>::kill"})
        rep.check(bool(ks), R, "dropping an armed bomb kills the writer status", "Drop calls Inner::kill", "IndexWriterBomb::drop no longer kills the writer", site=bd.span)


def r4(rep, prog):
    R = "C11-R4"
    MERGE = {SU + "merge"}
    task = SU + "SegmentUpdater::start_merge::{closure#0}"
    ok, callers = rule_who_may_call(rep, prog, R, MERGE, "segment_updater::merge", {task + "::{closure#0}": "the closure given to catch_unwind in the merge task"})
    tb = get_body(rep, prog, R, task)
    if tb is None:
        return
    cu = [(b, t) for b, t in tb.calls() if t.get("f", "").endswith("panic::catch_unwind")]
    okc = False
    for b, t in cu:
        for ga in t.get("ga", []):
            if (task + "::{closure#0}") in tb.types[ga]["s"] or tb.types[ga].get("def") == task + "::{closure#0}":
                okc = True
            for a in tb.types[ga].get("a", []):
                if tb.types[a].get("def") == task + "::{closure#0}":
                    okc = True
    rep.check(okc, R, "merge runs inside catch_unwind", "catch_unwind(AssertUnwindSafe(closure calling merge))", "the closure calling merge is not the argument of catch_unwind", site=tb.span)
    SEND = prog.names(r"^oneshot::Sender::<T>::send$")
    rule_must_pass(rep, prog, R, task, SEND, "Sender::send (result to the waiting future)", exits="all", a_ok=False)
    RES = prog.names(r"^std::panic::resume_unwind$")
    rule_precede(rep, prog, R, task, SEND, RES, "Sender::send(Err(panic))", "resume_unwind", a_ok=False)
    # success arm sends the result of end_merge
    for b, t in calls_to(prog, tb, SEND):
        pass
    em = calls_to(prog, tb, {SU + "SegmentUpdater::end_merge"})
    rep.check(len(em) == 1, R, "the merge task hands its result to end_merge", "1 call", "expected one end_merge call in the merge task, found %d" % len(em), site=tb.span)
    if em:
        fates = errfate.fate_of_call(tb, em[0][0], em[0][1])
        rep.check("passed" in fates, R, "the result of end_merge is sent to the waiting future", "fate: %s" % sorted(fates), "end_merge's result is %s instead of being sent" % sorted(fates), site=site(tb, em[0][0]))
    # end_merge: an advance_deletes failure returns before the swap
    eid = SU + "SegmentUpdater::end_merge::{closure#1}"
    rule_result_checked(rep, prog, R, eid, {I + "index_writer::advance_deletes"}, "advance_deletes (reconciliation)")
    rule_result_checked(rep, prog, R, eid, {I + "segment_manager::SegmentManager::end_merge"}, "SegmentManager::end_merge")
    rule_result_checked(rep, prog, R, eid, {SU + "SegmentUpdater::save_metas"}, "SegmentUpdater::save_metas")


def r7(rep, prog):
    """a writer that lost a worker is not brought back to life by prepare_commit"""
    R = "C11-R7"
    rep.rule(R, "prepare_commit cannot resurrect a crippled writer: recreate_document_channel installs a fresh, alive IndexWriterStatus before the workers are joined; so (a) an IndexWriterBomb on that new status is created after it and (b) IndexWriterBomb::defuse is only reached on the Ok path — every error exit after recreate_document_channel (a failed join, a failed worker, a worker that cannot be restarted) leaves the bomb to kill the status; (c) the liveness of the status before the recreation is read and decides an error exit. Otherwise the writer keeps acknowledging documents no worker consumes and a later commit returns Ok without them")
    fid = IW + "prepare_commit"
    b = get_body(rep, prog, R, fid)
    if b is None:
        return
    RC = {IW + "recreate_document_channel"}
    CB = {I + "index_writer_status::IndexWriterStatus::<D>::create_bomb"}
    DEF = {I + "index_writer_status::IndexWriterBomb::<D>::defuse"}
    AL = {I + "index_writer_status::IndexWriterStatus::<D>::is_alive"}
    rc, cb, df, al = calls_to(prog, b, RC), calls_to(prog, b, CB), calls_to(prog, b, DEF), calls_to(prog, b, AL)
    if not rep.check(len(rc) == 1 and len(cb) >= 1 and len(df) >= 1, R, "prepare_commit arms a bomb on the fresh status", "recreate_document_channel, create_bomb, defuse found",
                     "prepare_commit installs a fresh alive status (recreate_document_channel) but does not guard it with an IndexWriterBomb (create_bomb: %d, defuse: %d): if a worker failed or cannot be restarted, "
                     "the writer stays alive with missing workers, acknowledges documents nobody indexes, and a later commit returns Ok without them" % (len(cb), len(df)), site=b.span):
        return
    # (a) bomb after the recreation
    bad = must_precede(b, [Ev(x, "term") for x, _ in rc], [Ev(x, "term") for x, _ in cb])
    rep.check(not bad, R, "the bomb is created on the new status", "create_bomb after recreate_document_channel", "create_bomb is reachable before recreate_document_channel: it guards the old status", site=site(b, cb[0][0]))
    # (b) no error exit after defuse, defuse on every Ok path
    eb = b.error_blocks()
    after = set()
    for x, t in df:
        after |= b.reachable(tuple(b.succ(x)))
    rep.check(not any(e in after for e in eb), R, "no error exit after defuse", "defuse is the last fallible step", "an error exit of prepare_commit is reachable after the bomb was defused", site=site(b, df[0][0]))
    rule_must_pass(rep, prog, R, fid, DEF, "IndexWriterBomb::defuse", exits="ok", a_ok=False)
    # (c) the previous liveness is read before the recreation and guards an error exit
    before = [x for x, _ in al if not must_precede(b, [Ev(x, "term")], [Ev(rc[0][0], "term")]) or x in b.reachable((0,), blocked=frozenset({rc[0][0]}))]
    okc = False
    for x, t in al:
        if x not in b.reachable((0,), blocked=frozenset({rc[0][0]})):
            continue
        d = t.get("dest")
        from ..rules import dominating_guards
        for e in eb:
            for sb, arms, l in dominating_guards(b, e):
                if any(leaf[0] == "call" and leaf[1].endswith("is_alive") for leaf in provenance(b, l)):
                    okc = True
    rep.check(okc, R, "a writer that was already killed stays killed", "is_alive() read before the recreation decides an error exit",
              "prepare_commit does not look at the liveness of the status it replaces: a writer killed by a failed worker becomes alive again at the next commit", site=b.span)


def r8(rep, prog):
    """a commit that could not be published is never published later"""
    R = "C11-R8"
    rep.rule(R, "a commit that failed is not published later: the commit task switches the in-memory registers to the new commit (SegmentManager::commit) before meta.json is written (save_metas reads them); so every error exit of the task that is reachable after that switch passes SegmentUpdater::kill — a killed updater saves no meta any more. Otherwise the next save_metas of a background merge writes the failed commit's segments into meta.json under the opstamp and payload of the previous commit")
    fid = SU + "SegmentUpdater::schedule_commit::{closure#0}"
    b = get_body(rep, prog, R, fid)
    if b is None:
        return
    sw = calls_to(prog, b, {I + "segment_manager::SegmentManager::commit"})
    if not rep.check(len(sw) == 1, R, "the commit task switches the registers once", "1 SegmentManager::commit", "expected one SegmentManager::commit call in the commit task, found %d" % len(sw), site=b.span):
        return
    KILL = {SU + "SegmentUpdater::kill", SU + "InnerSegmentUpdater::kill"} | set(prog.names(r"segment_updater::(Inner)?SegmentUpdater::kill$"))
    kills = [Ev(x, "term") for x, _ in calls_to(prog, b, KILL)]
    # a direct store into the `killed` flag counts as well
    for bi_, t_ in b.calls():
        if (t_.get("f") or "").endswith("::store") and t_.get("args"):
            trk = trace_back(b, op_local(t_["args"][0])) if op_local(t_["args"][0]) is not None else []
            if any(s_[0] == "field" and s_[2] == "killed" for s_ in trk):
                kills.append(Ev(bi_, "term"))
    eb = b.error_blocks()
    after = b.reachable(tuple(b.succ(sw[0][0])))
    bad = []
    for e in sorted(eb):
        if e not in after:
            continue
        # is the error block reachable from the switch without passing a kill?
        reached = reach_positions(b, kills, starts=tuple(b.succ(sw[0][0])))
        if e in reached and reached[e] >= 0:
            bad.append(e)
    rep.check(not bad, R, "an error after the in-memory switch kills the updater", "%d kill site(s) on the error paths" % len(kills),
              "the commit task can fail (save_metas) after SegmentManager::commit has already installed the new commit in memory, and the updater stays alive: the next merge's save_metas writes these "
              "segments into meta.json under the previous commit's opstamp and payload — a commit that returned Err becomes visible", site=site(b, bad[0]) if bad else b.span)


def r9(rep, prog):
    """a file named after an opstamp may be the leftover of an attempt that was never published"""
    R = "C11-R9"
    rep.rule(R, "opstamp-named files can collide with leftovers: advance_deletes writes `<segment>.<target opstamp>.del` with a create-new open_write BEFORE meta.json is replaced; when the commit then fails (I/O error, crash) the file stays, and the stamper of the next writer (rollback, re-open) restarts at the last PUBLISHED opstamp — the same name is produced again and open_write fails with FileAlreadyExists although the storage is healthy ('after dropping or rolling back the failed writer a new writer can continue indexing normally'). Rule: in advance_deletes, Segment::open_write(SegmentComponent::Delete) is preceded on every path by a Directory::delete (of the path about to be written), i.e. a leftover is removed first")
    fid = I + "index_writer::advance_deletes"
    b = get_body(rep, prog, R, fid)
    if b is None:
        return
    OW = prog.names(r"^tantivy::index::segment::Segment::open_write$")
    DEL = prog.names(r"Directory::delete$|ManagedDirectory::delete$")
    ows = calls_to(prog, b, OW)
    if not rep.check(len(ows) >= 1, R, "advance_deletes writes the delete file with Segment::open_write", "%d site(s)" % len(ows), "cannot establish: advance_deletes no longer calls Segment::open_write", site=b.span):
        return
    dels = [Ev(bi, "term") for bi, t in b.calls() if (t.get("res") or t.get("f") or "") in DEL or (t.get("f") or "") in DEL]
    bad = must_precede(b, dels, [Ev(bi, "term") for bi, _ in ows]) if dels else [1]
    rep.check(not bad, R, "a leftover delete file is removed before the new one is created", "%d Directory::delete site(s) dominate the open_write" % len(dels),
              "advance_deletes creates `<segment>.<opstamp>.del` with a create-new open_write and never removes a file of that name first: after a commit that failed once the delete file was written (or a crash at that point), "
              "the next writer restarts its stamper at the last published opstamp, reaches the same opstamp again, and commit() fails with OpenWriteError(FileAlreadyExists) on healthy storage", site=site(b, ows[0][0]))


def publish_only_alive(rep, prog, R):
    """a killed updater publishes nothing"""
    from ..rules import dominating_guards, guard_evidence
    fid = SU + "SegmentUpdater::save_metas"
    b = get_body(rep, prog, R, fid)
    if b is None:
        return
    # the write is a call into the publisher of meta.json (the function holding the atomic_write(META_FILEPATH), or a
    # wrapper that always reaches it) or, when the publisher was written / inlined into this function, that atomic_write
    from .c01 import meta_publishers
    from ..rules import must_closure
    mp = meta_publishers(prog)
    PC = set(mp) | must_closure(prog, set(mp))
    pubs = [(bi, t) for bi, t in b.calls() if (t.get("res") or t.get("f") or "") in PC]
    pubs += [(bi, b.term(bi)) for bi in mp.get(fid, [])]
    if not rep.check(len(pubs) >= 1, R, "SegmentUpdater::save_metas writes meta.json through save_metas()", "%d call(s)" % len(pubs), "cannot establish: the free function save_metas is not called from SegmentUpdater::save_metas", site=b.span):
        return
    for bi, t in pubs:
        ev = set()
        for sb, arms, l in dominating_guards(b, bi):
            ev |= {x[:2] for x in guard_evidence(prog, b, l)}
        okk = any(e[0] == "call" and e[1].endswith("SegmentUpdater::is_alive") for e in ev)
        rep.check(okk, R, "meta.json is only written while the updater is alive", "guarded by is_alive()",
                  "SegmentUpdater::save_metas writes meta.json without testing is_alive(): a task that was already queued on the updater thread when the writer was rolled back, dropped or killed after a failed commit "
                  "still runs, and overwrites the meta.json of the replacement writer with the dead updater's own segment list and opstamp — a reader that reloads goes back to an older commit", site=site(b, bi))


def r5(rep, prog):
    R = "C11-R5"
    fid = SU + "SegmentUpdater::schedule_task"
    SPAWN = prog.names(r"^rayon_core::thread_pool::ThreadPool::spawn$")
    ALIVE = {SU + "SegmentUpdater::is_alive"}
    rule_precede(rep, prog, R, fid, ALIVE, SPAWN, "is_alive()", "ThreadPool::spawn", a_ok=False)
    body = prog.body(fid)
    if body is not None:
        for b, t in calls_to(prog, body, ALIVE):
            nxt = body.term(t["to"])
            okk = False
            # `if !self.is_alive() { return err }`: the spawn must only be reachable on the alive arm
            src = t["to"]
            # follow `_x = Not(_alive)` to the switch
            cur = src
            for _ in range(3):
                tt = body.term(cur)
                if tt["k"] == "switch":
                    arms = dict((v, tg) for v, tg in tt["vals"])
                    spawn_blocks = [sb for sb, _ in calls_to(prog, body, SPAWN)]
                    reach = {v: body.reachable((tg,)) for v, tg in list(arms.items()) + [("else", tt["else"])]}
                    n_arms_reaching = sum(1 for v in reach if any(sb in reach[v] for sb in spawn_blocks))
                    okk = n_arms_reaching == 1
                    break
                if tt["k"] == "goto":
                    cur = tt["to"]
                else:
                    break
            rep.check(okk, R, "schedule_task spawns only on the alive arm", "exactly one arm of the is_alive test reaches spawn", "ThreadPool::spawn is reachable on both arms of the is_alive test", site=site(body, b))


def r6(rep, prog):
    R = "C11-R6"
    SEND = prog.names(r"^oneshot::Sender::<T>::send$")
    for owner, clo in ((SU + "SegmentUpdater::schedule_task", SU + "SegmentUpdater::schedule_task::{closure#0}"),
                       (SU + "SegmentUpdater::start_merge", SU + "SegmentUpdater::start_merge::{closure#0}")):
        ob = get_body(rep, prog, R, owner)
        if ob is None:
            continue
        senders = locals_of_type(ob, lambda row: row["k"] == "adt" and row.get("def") == "oneshot::Sender")
        names = ob.var_names()
        drops = [b for b in ob.normal_blocks() if ob.term(b)["k"] == "drop" and place_local(ob.term(b)["place"]) in senders]
        # a sender dropped on a path that returned the InProgress future = orphan; allowed only if flag-guarded after the move into the closure
        from ..model import feasible_edges
        reached, _ = feasible_edges(ob)
        live_drops = [b for b in drops if b in reached]
        cb = prog.body(clo)
        cap = False
        if cb is not None:
            cap = any("oneshot::Sender" in cb.types[a]["s"] for a in cb.local_ty(1).get("a", []))
        rep.check(bool(senders) and cap and not live_drops, R, "%s moves the sender into the spawned closure" % short(owner),
                  "%d sender local(s); captured by value; no feasible drop in the creator" % len(senders),
                  "%s can drop the oneshot Sender without handing it to the task (senders=%d captured=%s drops=%d): the waiting future fails with a generic error" % (owner, len(senders), cap, len(live_drops)), site=ob.span)
    rule_must_pass(rep, prog, R, SU + "SegmentUpdater::schedule_task::{closure#0}", SEND, "Sender::send", exits="all", a_ok=False)
