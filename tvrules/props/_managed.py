"""shared by C10-R13 and C20-R8: where the persisted list of managed files is read back"""
from ..model import provenance, op_local
from ..rules import short


def managed_list_readers(prog):
    """bodies (and, transitively inside directory::managed_directory, their callers) that read
    `.managed.json` back from storage: Directory::atomic_read whose path derives from MANAGED_FILEPATH"""
    base = set()
    for fid, b in prog.bodies.items():
        if not fid.lstrip("<").startswith("tantivy::directory::managed_directory") and "managed_directory::ManagedDirectory" not in fid:
            continue
        for bi, t in b.calls():
            if not (t.get("f") or "").endswith("Directory::atomic_read") or len(t.get("args", [])) < 2:
                continue
            l = op_local(t["args"][1])
            lv = provenance(b, l) if l is not None else set()
            if any(x[0] == "static" and str(x[1]).endswith("MANAGED_FILEPATH") for x in lv):
                base.add(fid)
    out = set(base)
    changed = True
    while changed:
        changed = False
        for fid, b in prog.bodies.items():
            if fid in out or "managed_directory" not in fid:
                continue
            for bi, t in b.calls():
                if (t.get("res") or t.get("f")) in out:
                    out.add(fid)
                    changed = True
                    break
    return base, out
