"""C15 — term dictionaries behave as ordered maps: the order guard survives release builds; versions agree."""
from .. import codetab as ct
from ..rules import get_body, short, calls_to, site, rule_result_checked
from ..model import Program, provenance, op_local, trace_back

W = "tantivy_sstable::Writer::<W, TValueWriter>::"


def r_inverted(rep, prog):
    """an inverted key range is an empty stream, not an out-of-order file slice"""
    from ..rules import dominating_guards
    R = "C15-R3"
    rep.rule(R, "inverted ranges are empty: Dictionary::file_slice_for_range locates the block of the lower key and the block of the upper key independently and then slices the file from the start of the first to the end of the second; FileSlice::slice asserts start <= end, so the slice must be dominated by a comparison of the two located block ids (an inverted range whose bounds lie at least two blocks apart is an empty stream — 'what a sorted map would return' — not a panic)")
    fid = next((n for n in prog.bodies if n.endswith("dictionary::Dictionary::<TSSTable>::file_slice_for_range")), None)
    b = prog.bodies.get(fid) if fid else None
    if b is None:
        rep.fail(R, "anchor", "cannot establish: Dictionary::file_slice_for_range not found")
        return
    loc = [bi for bi, t in b.calls() if (t.get("res") or t.get("f") or "").endswith("SSTableIndex::locate_with_key")]
    sl = [bi for bi, t in b.calls() if (t.get("res") or t.get("f") or "").endswith("FileSlice::slice")]
    if not rep.check(len(loc) >= 2 and len(sl) >= 1, R, "file_slice_for_range locates two blocks and slices", "%d locate_with_key, %d slice" % (len(loc), len(sl)),
                     "cannot establish: expected two locate_with_key calls and a FileSlice::slice in file_slice_for_range", site=b.span):
        return
    okk = False
    for sb, arms, l in dominating_guards(b, sl[0]):
        lv = provenance(b, l)
        sites_ = {x[2] for x in lv if x[0] == "call" and x[1].endswith("SSTableIndex::locate_with_key")}
        if len(sites_) >= 2:
            okk = True
    rep.check(okk, R, "the slice is taken only after the two block ids were compared", "a guard decided by both locate_with_key results dominates FileSlice::slice",
              "Dictionary::file_slice_for_range slices the file from the lower key's block to the upper key's block without comparing the two block ids: for an inverted range across blocks the end offset lies before "
              "the start offset and FileSlice::slice panics (with the sstable term dictionary a RangeQuery with swapped bounds panics instead of matching nothing)", site=site(b, sl[0]))


def r4(rep, prog):
    """the automaton state stack mirrors the key, key by key"""
    from ..mergecov import Aliases
    from ..rules import natural_loop
    R = "C15-R4"
    rep.rule(R, "the streamer's automaton state stack mirrors its key: Streamer keeps `key` (the current key, rebuilt from the shared prefix and the suffix of each delta) and `states` (states[i] = automaton state after key[..i]) as parallel vectors. In Streamer::advance, every iteration that cuts `self.key` back to the common prefix also cuts `self.states` (Vec::truncate on both), and every iteration that appends the suffix to the key also runs the loop that pushes one state per suffix byte, before the iteration ends (next DeltaReader::advance or a return). A `continue` for keys below the lower bound that skips the state update leaves the stack describing another key: the next key resumes the automaton from a wrong state and matching keys are dropped")
    fid = "tantivy_sstable::streamer::Streamer::<'_, TSSTable, A>::advance"
    b = get_body(rep, prog, R, fid)
    if b is None:
        return
    al = Aliases(b, {1: "self"})

    def on(field, pat):
        out = []
        for bi, t in b.calls():
            f = t.get("f") or ""
            if not f.endswith(pat) or not t.get("args"):
                continue
            from ..model import op_place
            r = al.resolve(op_place(t["args"][0]))
            if r and r[0] == "self" and r[1][:1] == (("f", field),):
                out.append(bi)
        return out
    heads = [bi for bi, t in b.calls() if (t.get("f") or "").endswith("DeltaReader::<TValueReader>::advance")]
    k_tr, s_tr = on("key", "Vec::<T, A>::truncate"), on("states", "Vec::<T, A>::truncate")
    k_ex, s_pu = on("key", "Vec::<T, A>::extend_from_slice"), on("states", "Vec::<T, A>::push")
    if not rep.check(len(heads) == 1 and k_tr and s_tr and k_ex and s_pu, R, "anchors in Streamer::advance", "delta advance %s, key.truncate %s, states.truncate %s, key.extend %s, states.push %s" % (heads, k_tr, s_tr, k_ex, s_pu),
                     "cannot establish: Streamer::advance no longer has the expected mutations of self.key / self.states (delta advance %s, key.truncate %s, states.truncate %s, key.extend_from_slice %s, states.push %s)" % (heads, k_tr, s_tr, k_ex, s_pu), site=b.span):
        return
    H = heads[0]
    ends = {H} | set(b.return_blocks())
    gates_push = set(s_pu)
    for c in s_pu:
        for hb in b.normal_blocks():
            lp = natural_loop(b, hb)
            if lp and c in lp and H not in lp:
                gates_push.add(hb)
    for name, ks, gates, what in (("cut", k_tr, set(s_tr), "Vec::truncate on self.states"), ("append", k_ex, gates_push, "the loop that pushes one automaton state per suffix byte")):
        for k in ks:
            blocked = frozenset(gates)
            # is this key mutation reachable in an iteration that has not passed the state update yet ...
            pre = set()
            for s0 in b.succ(H):
                pre |= set(b.reachable((s0,), blocked=blocked | {H}))
            if k not in pre:
                rep.ok(R, "%s of self.key at bb%d comes after the state update" % (name, k), what, site=site(b, k))
                continue
            # ... and can the iteration then end without passing it?
            post = set()
            for s1 in b.succ(k):
                post |= {s1} | set(b.reachable((s1,), blocked=blocked | {H}))
            # reaching H itself: a successor edge into H
            ends_hit = sorted(x for x in (post | {k}) if x in b.return_blocks() or H in b.succ(x)) if True else []
            ends_hit = [x for x in ends_hit if x not in gates]
            rep.check(not ends_hit, R, "%s of self.key at bb%d is mirrored on self.states before the iteration ends" % (name, k), what,
                      "Streamer::advance can %s self.key and finish the iteration (next key or return) without %s: `states` then no longer holds the automaton states of the prefixes of `key`; the next key that shares a prefix "
                      "with a skipped one resumes the automaton from the wrong state, and an automaton search combined with a lower bound silently drops matching keys" % ("cut back" if name == "cut" else "extend", what), site=site(b, k))


def r5(rep, prog):
    """ordinals are counted over what was read, so a reader that skips must say where it is"""
    import re
    from ..mergecov import Aliases
    from ..model import op_place
    R = "C15-R5"
    rep.rule(R, "term ordinals follow the blocks actually read: Streamer::advance numbers the keys by adding 1 per decoded key, which is the key's ordinal only while the delta reader decodes one contiguous run of blocks. Dictionary hands a Streamer a reader built by DeltaReader::from_multiple_blocks whenever an automaton is given (only the blocks the automaton can match are loaded). So, as long as such a reader exists, some store into Streamer.term_ord in advance must take its value from the delta reader (the first ordinal of the run of blocks it has just entered), not only from the previous value + 1 / a constant")
    fid = "tantivy_sstable::streamer::Streamer::<'_, TSSTable, A>::advance"
    b = get_body(rep, prog, R, fid)
    if b is None:
        return
    skipping = [(x.id, bi) for x, bi, t in prog.who_calls(set(prog.names(r"^tantivy_sstable::delta::DeltaReader::<TValueReader>::from_multiple_blocks$"))) if "::tests::" not in x.id and "::test::" not in x.id]
    rep.ok(R, "readers that skip blocks", "%d call site(s) of DeltaReader::from_multiple_blocks: %s" % (len(skipping), sorted({short(x) for x, _ in skipping})))
    if not skipping:
        return
    al = Aliases(b, {1: "self"})
    stores = []
    for bi in b.normal_blocks():
        for st in b.stmts(bi):
            r = al.resolve(st["d"])
            if r and r[0] == "self" and r[1][:1] == (("f", "term_ord"),):
                stores.append((bi, st))
    rebased = False
    for bi, st in stores:
        for o in st.get("o", []):
            l = op_local(o)
            if l is None:
                continue
            for x in provenance(b, l):
                if x[0] == "call" and re.search(r"delta::DeltaReader::<TValueReader>::", x[1]) and not x[1].endswith("::advance"):
                    rebased = True
    if not rep.check(bool(stores), R, "stores into Streamer.term_ord found", "%d" % len(stores), "cannot establish: Streamer::advance does not store into self.term_ord", site=b.span):
        return
    rep.check(rebased, R, "Streamer::advance re-bases term_ord from the delta reader", "a store into self.term_ord takes its value from a DeltaReader call",
              "Streamer::advance only ever sets term_ord to `previous + 1` (or 0), but Dictionary::sstable_delta_reader_for_key_range hands it a DeltaReader::from_multiple_blocks that loads only the blocks the automaton can match: "
              "after a skipped block (leading or in the middle) every key is reported with the ordinal of an earlier key — `search(Regex(\"z.*\"))` reports z0 with ordinal 107 instead of 2000; a terms aggregation with "
              "`include: \"z.*\"` on a string fast field selects the wrong terms", site=site(b, stores[0][0]))


def run(rep, prog, tier):
    r4(rep, prog)
    r5(rep, prog)
    rep.rule("C15-R1", "order is enforced in release builds: with debug assertions off, sstable::Writer::insert_key still contains a panic guard, controlled by a comparison with previous_key (common_prefix_len), that dominates the Ok exit; the fst builder's insert error is propagated")
    rep.rule("C15-R2", "the sstable version written by Writer::finish is accepted by SSTableIndex::open")
    rep.not_decided += ["lookup / stream / merge results (values)", "the guard is vacuous for the first key of a block because previous_key is cleared at a block flush (value-level observation)", "the limit cut-off of file_slice_for_range over-approximates start ordinal + limit (an inequality between ordinals: seeded change c15d is not detected)"]
    from ..driver import program
    nd = program("nodebug")
    rep.extra["nodebug_config"] = nd.stats()
    R = "C15-R1"
    body = nd.body(W + "insert_key")
    if rep.check(body is not None, R, "Writer::insert_key present in the release-like build", "found (debug-assertions=off facts)", "cannot establish: Writer::insert_key not found in the debug-assertions=off fact base"):
        panics = [b for b, t in body.calls() if t.get("f", "").startswith("core::panicking::") and "to" not in t]
        ok = False
        why = "no panic guard left in insert_key when debug assertions are off (assert! turned into debug_assert!?)"
        dom = body.dominators()
        oks = body.ok_exits()
        for pb in panics:
            # walk back to the controlling switch
            cur = pb
            sw = None
            for _ in range(12):
                ps = [p for p in body.pred(cur) if not body.is_cleanup(p)]
                if len(ps) != 1:
                    break
                cur = ps[0]
                if body.term(cur)["k"] == "switch":
                    sw = cur
                    break
            if sw is None:
                continue
            lv = set()
            for sb in dom.get(sw, ()):
                if body.term(sb)["k"] == "switch" and op_local(body.term(sb)["on"]) is not None:
                    lv |= provenance(body, op_local(body.term(sb)["on"]))
            uses_prev = any(l[0] == "call" and l[1].endswith("common_prefix_len") for l in lv)
            dominates = all(sw in dom.get(x, ()) for x in oks) and bool(oks)
            if uses_prev and dominates:
                ok = True
                why = "panic guard at %s is controlled by common_prefix_len(previous_key, key) and dominates every Ok exit" % body.span_of_block(pb).rstrip("!")
            else:
                why = "a panic exists but is not an order guard dominating the Ok exit (uses previous_key: %s, dominates: %s)" % (uses_prev, dominates)
        rep.check(ok, R, "sstable::Writer::insert_key keeps its order guard in release builds", why,
                  "sstable::Writer::insert_key accepts unordered keys when debug assertions are off: %s" % why, site=body.span)
    # the default-config body must have the same guard (sanity: same count of panic sites)
    db = prog.body(W + "insert_key")
    if db is not None and body is not None:
        n1 = len([1 for b, t in db.calls() if t.get("f", "").startswith("core::panicking::panic_fmt")])
        n2 = len([1 for b, t in body.calls() if t.get("f", "").startswith("core::panicking::panic_fmt")])
        rep.check(n1 == n2, R, "insert_key has the same explicit panics with and without debug assertions", "%d / %d panic_fmt site(s)" % (n1, n2),
                  "insert_key loses %d explicit panic(s) when debug assertions are off: a check the tests rely on is compiled out in release" % (n1 - n2), site=db.span)
    fid = "tantivy::termdict::fst_termdict::termdict::TermDictionaryBuilder::<W>::insert_key"
    if getattr(prog, "config", "default") == "quickwit":
        # with the `quickwit` feature the term dictionary is the sstable one: the fst builder is cfg'd out
        rep.ok(R, "fst TermDictionaryBuilder::insert_key", "not compiled with the quickwit feature (the sstable dictionary is used)", site="")
        fb = None
    else:
        fb = get_body(rep, prog, R, fid)
    if fb is not None:
        ins = prog.names(r"^tantivy_fst::.*MapBuilder::<W>::insert$")
        rule_result_checked(rep, prog, R, fid, ins, "fst MapBuilder::insert")
    R = "C15-R2"
    ver = ct.const_scalar(prog, "tantivy_sstable::SSTABLE_VERSION")
    ob = get_body(rep, prog, R, "tantivy_sstable::index::SSTableIndex::open")
    if rep.check(ver is not None, R, "SSTABLE_VERSION readable", "SSTABLE_VERSION = %s" % ver, "cannot establish SSTABLE_VERSION") and ob is not None:
        acc = set()
        for b in ob.normal_blocks():
            t = ob.term(b)
            if t["k"] == "switch":
                src = trace_back(ob, op_local(t["on"])) if op_local(t["on"]) is not None else []
                if op_local(t["on"]) == 1 or (src and src[-1] == ("param", 1)):
                    acc |= {int(v) for v, _ in t["vals"]}
        rep.check(ver in acc, R, "SSTableIndex::open accepts the version the writer stamps", "accepted %s, written %d" % (sorted(acc), ver),
                  "Writer::finish stamps sstable version %d, SSTableIndex::open accepts only %s: freshly written dictionaries cannot be opened" % (ver, sorted(acc)), site=ob.span)
    fb = get_body(rep, prog, R, W + "finish")
    if fb is not None:
        # the version written flows from the SSTABLE_VERSION const
        okv = False
        for b, t in fb.calls():
            if "BinarySerializable" in t.get("f", "") and t.get("f", "").endswith("::serialize"):
                lv = provenance(fb, op_local(t["args"][0])) if op_local(t["args"][0]) is not None else set()
                if any(l[0] in ("uneval", "const") and (str(l[1]).endswith("SSTABLE_VERSION") or str(l[1]) == str(ver)) for l in lv) or any(l[0] == "uneval" and "finish" in l[1] for l in lv):
                    okv = True
        rep.check(okv, R, "Writer::finish serializes SSTABLE_VERSION", "found", "cannot establish that Writer::finish writes SSTABLE_VERSION", site=fb.span)
    r_inverted(rep, prog)
