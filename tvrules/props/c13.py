"""C13 — every DocSet is one sorted sequence under any mix of advance and seek: only the protocol
clauses that are visible in the shape of the code (the seek_danger typestate of sub-docsets, memo
invalidation, forwarding agreement of wrappers); no arithmetic of any iterator."""
import re
from ..model import Ev, must_pass, must_precede, op_place, place_local, is_bare, trace_back
from ..mergecov import Aliases, fmt_path
from ..rules import short, site

DS = "tantivy::docset::DocSet::"
MOVING = ("advance", "seek", "seek_danger", "fill_buffer", "fill_bitset_block", "count_including_deleted", "seek_into_the_danger_zone")
PROTOCOL = ("advance", "seek", "seek_danger", "doc", "fill_buffer", "fill_bitset_block", "count_including_deleted", "count", "score")


def run(rep, prog, tier):
    rep.rule("C13-R1", "seek_danger typestate: after `x.seek_danger(t)` may have answered SeekLowerBound, x receives nothing but seek_danger until a seek_danger on x answers Found (src/docset.rs contract). Per function a forward may-analysis over the CFG keeps VALID / PENDING / MAYBE-INVALID for every probed receiver path (fields of self, elements of a collection collapsed); branches on the probe result (discriminant switch, ==/!= Found) resolve it; doc / advance / seek / score / fill_buffer / ... on a path that is not VALID — directly, through a closure or function item handed with the collection, through a callee receiving it, or through a method of self whose summary uses the field — is a violation; a restore pass (the collection visited by a function that calls only seek_danger and returns from a Found arm) makes it VALID again")
    seek_danger_typestate(rep, prog, "C13-R1")
    rep.rule("C13-R2", "memo invalidation: when the `score()` of a scorer type both stores into and reads a field of `self` (a memo of the score of the current document), every DocSet method of that type that moves a sub-docset (advance / seek / seek_danger / fill_buffer / ...) stores into that field on every path that moved, so that the score read at a document does not depend on how the document was reached")
    rep.rule("C13-R3", "forwarding agreement: a DocSet / Scorer method of a wrapper type whose body consists of one call of a DocSet / Scorer protocol method on a field of `self` with its own parameters forwards to the method of the same name (a `seek` that forwards to `advance`, or a `doc` that forwards to `size_hint`, observes another sequence)")
    rep.not_decided += ["order and content of the documents enumerated by any iterator, seek arithmetic, window horizons, block boundaries (values over programs of calls)"]
    memo_invalidation(rep, prog, "C13-R2")
    rep.rule("C13-R4", "sibling reset agreement: when a DocSet type's `advance` and `seek` both reset a field of self (store into it or clear it: position-dependent state such as a cache of the current document's positions), every other moving method the type overrides (seek_danger, fill_buffer, fill_bitset_block) resets it too, directly or through a method of self it calls")
    sibling_resets(rep, prog, "C13-R4")
    rep.rule("C13-R5", "sticky end: when `seek` / `seek_danger` of a docset that keeps cursor state besides its current doc (fields that advance() reads and a moving method writes) stores TERMINATED into the current doc, the same path also writes a cursor field or goes through a moving method of self — unless advance() starts by testing the current doc against TERMINATED. Otherwise the next advance() resumes from the old cursor: 'once the end is reached every further call keeps reporting the end'")
    sticky_end(rep, prog, "C13-R5")
    rep.rule("C13-R6", "counting after the end is 0: `advance()` may be called again on a docset that already answered TERMINATED, and the cursor of a posting list then keeps moving through the TERMINATED padding of its last block; so an override of DocSet::count_including_deleted that computes the count in closed form (a subtraction on cursor / skip-list state) must first test for TERMINATED — the overrides that count by iterating, or delegate, are fine")
    count_after_end(rep, prog, "C13-R6")
    forwarding(rep, prog, "C13-R3")


def seek_danger_typestate(rep, prog, R):
    from ..typestate import Summaries, analyse, show, PROBE
    summ = Summaries(prog)
    fids = sorted({b.id for b, bi, t in prog.who_calls({PROBE}) if b.id in prog.bodies})
    nprobe = 0
    for fid in fids:
        if "::tests::" in fid or fid.startswith("tantivy::docset::DocSet::seek_danger"):
            continue
        body = prog.bodies[fid]
        probes, viols = analyse(prog, summ, fid)
        # an implementation of seek_danger is called again and again on the same object: what one call leaves
        # invalid in `self` is what the next call finds — second pass with the exit states as entry states
        if re.search(r" as tantivy::docset::DocSet>::seek_danger$", fid):
            _, _, ex = analyse(prog, summ, fid, want_exit=True)
            carried = {q: s for q, s in ex.items() if q[0] == "self" and s != 0}
            if carried:
                probes2, viols2 = analyse(prog, summ, fid, entry_state=carried)
                seen_v = {(v["block"], v["path"]) for v in viols}
                for v in viols2:
                    if (v["block"], v["path"]) not in seen_v:
                        v = dict(v)
                        v["state"] = v["state"] + " (left so by an earlier call of this seek_danger)"
                        viols.append(v)
        nprobe += len(probes)
        bad_paths = {v["path"] for v in viols}
        for bi, p in probes:
            if p in bad_paths:
                continue
            rep.ok(R, "%s: %s.seek_danger() is followed by seek_danger only until Found" % (short(fid), show(p)), "no valid-only use while not VALID", site=site(body, bi))
        seen = set()
        for v in viols:
            key = "%s: %s used through %s while %s" % (short(fid), show(v["path"]), short(v["callee"]), v["state"])
            if key in seen:
                continue
            seen.add(key)
            rep.fail(R, key, "in %s a sub-docset that answered (or may have answered) SeekLowerBound to seek_danger — %s — is then read or moved through `%s` (as %s) before a seek_danger on it answered Found: "
                     "its doc()/score() are not meaningful in that state, the enclosing iterator reports documents or scores that depend on how the document was reached"
                     % (fid, show(v["path"]), v["callee"], show(v["used_as"])), site=site(body, v["block"]))
    rep.floor(R, "functions probing a sub-docset with seek_danger", len(fids), 8)
    # the floor counts call sites (17 confirmed by reading), not resolved receiver paths: a probe that moves into the
    # closure of an iterator adaptor (`others.iter_mut().map(|d| d.seek_danger(t))`) is still a probe
    nsites = len([1 for b, bi, t in prog.who_calls({PROBE}) if b.id in prog.bodies and "::tests::" not in b.id
                  and not b.id.startswith("tantivy::docset::DocSet::seek_danger")])
    rep.floor(R, "seek_danger probe call sites", nsites, 17)
    rep.floor(R, "seek_danger probe sites resolved to a sub-docset path", nprobe, 9)


def _docset_methods(prog, ty):
    out = {}
    pre = "<%s as tantivy::docset::DocSet>::" % ty
    for n in prog.bodies:
        if n.startswith(pre) and "::{" not in n[len(pre):]:
            out[n[len(pre):]] = n
    return out


def scorer_types(prog):
    out = []
    for n in sorted(prog.bodies):
        m = re.match(r"^<(.+) as tantivy::query::scorer::Scorer>::score$", n)
        if m:
            out.append((m.group(1), n))
    return out


def _moving_calls(prog, body, al):
    """calls of a moving DocSet method whose receiver is (part of) a field of self"""
    out = []
    for bi, t in body.calls():
        f = t.get("f") or ""
        if not f.startswith(DS) or f[len(DS):] not in MOVING:
            continue
        if not t.get("args"):
            continue
        res = al.resolve(op_place(t["args"][0]))
        if res and res[0] == "self" and res[1]:
            out.append((bi, t, res[1]))
    return out


def memo_invalidation(rep, prog, R):
    types = scorer_types(prog)
    rep.floor(R, "Scorer::score implementations examined", len(types), 12)
    nmemo = 0
    for ty, sn in types:
        sb = prog.bodies[sn]
        al = Aliases(sb, {1: "self"})
        us = al.uses()
        stored = {u[2] for u in us if u[1] == "self" and u[0] == "w" and u[4] == "store" and len(u[2]) >= 1}
        read = {u[2] for u in us if u[1] == "self" and u[0] in ("r", "mv")}
        memos = sorted({w[:1] for w in stored if any(r[:1] == w[:1] for r in read)})
        for memo in memos:
            nmemo += 1
            tshort = ty.split("<")[0].split("::")[-1]
            methods = _docset_methods(prog, ty)
            nmv = 0
            for mname, mid in sorted(methods.items()):
                mb = prog.bodies[mid]
                mal = Aliases(mb, {1: "self"})
                moves = _moving_calls(prog, mb, mal)
                if not moves:
                    continue
                resets = []
                for bi in mb.normal_blocks():
                    for i, st in enumerate(mb.stmts(bi)):
                        if not is_bare(st["d"]):
                            rr = mal.resolve(st["d"])
                            if rr and rr[0] == "self" and rr[1][:1] == memo:
                                resets.append(Ev(bi, "stmt", i))
                for bi, t, path in moves:
                    nmv += 1
                    before = bool(resets) and not must_precede(mb, resets, [Ev(bi, "term")])
                    after = bool(resets) and not must_pass(mb, resets, exits="all", starts=tuple(mb.succ(bi)))
                    rep.check(before or after, R, "%s::%s resets %s around %s%s.%s()" % (tshort, mname, fmt_path(memo), "self", fmt_path(path), (t.get("f") or "")[len(DS):]),
                              "the memo is stored on every path %s the move" % ("before" if before else "after"),
                              "%s::%s moves self%s with %s() but does not store into the score memo self%s on every such path: score() will then return the value memoised for the document the scorer "
                              "was on before — the score depends on how the document was reached" % (ty, mname, fmt_path(path), (t.get("f") or "")[len(DS):], fmt_path(memo)), site=site(mb, bi))
            rep.check(nmv >= 1, R, "%s: moving methods found for memo %s" % (tshort, fmt_path(memo)), "%d moving call(s)" % nmv,
                      "cannot establish: %s memoises in score() but no DocSet method of it moves a sub-docset" % ty, site=sb.span)
    rep.floor(R, "score memos found (RequiredOptionalScorer.score_cache)", nmemo, 1)


def sibling_resets(rep, prog, R):
    """what both `advance` and `seek` reset, every other moving method resets too (or delegates)"""
    from ..mergecov import Aliases, fmt_path
    RESET_CALL = re.compile(r"::(clear|truncate|take|reset)$")
    types = {}
    for n in prog.bodies:
        m = re.match(r"^<(.+) as tantivy::docset::DocSet>::([a-z_]+)$", n)
        if m:
            types.setdefault(m.group(1), {})[m.group(2)] = n
    memo = {}

    def resets(fid, depth=0):
        """paths (up to variant.field depth) of self that fid stores into or clears, including through methods of self it calls"""
        if fid in memo:
            return memo[fid]
        memo[fid] = set()
        b = prog.bodies[fid]
        al = Aliases(b, {1: "self"})
        out = set()
        for u in al.uses():
            if u[1] == "self" and u[0] == "w" and u[4] == "store" and u[2]:
                out.add(u[2][:2] if u[2][0][0] == "v" else u[2][:1])
        for bi, t in b.calls():
            f = t.get("res") or t.get("f") or ""
            if not t.get("args"):
                continue
            r = al.resolve(op_place(t["args"][0]))
            if r and r[0] == "self":
                if RESET_CALL.search(f) and r[1]:
                    out.add(r[1][:2] if r[1][0][0] == "v" else r[1][:1])
                elif r[1] == () and f in prog.bodies and depth < 3:
                    out |= resets(f, depth + 1)      # a method of self
        memo[fid] = out
        return out
    n_types = 0
    for ty, ms in sorted(types.items()):
        if not ({"advance", "seek"} <= set(ms)):
            continue
        common = resets(ms["advance"]) & resets(ms["seek"])
        if not common:
            continue
        n_types += 1
        tshort = ty.split("<")[0].split("::")[-1]
        for m in ("seek_danger", "fill_buffer", "fill_bitset_block"):
            if m not in ms:
                continue
            got = resets(ms[m])
            missing = sorted(fmt_path(x) for x in common - got)
            rep.check(not missing, R, "%s::%s resets what advance and seek reset" % (tshort, m), "resets %s" % sorted(fmt_path(x) for x in common),
                      "`%s` overrides %s but, unlike its advance and its seek, never resets self%s (neither directly nor through a method of self): state that belongs to the previous position "
                      "(a cache of the current document's data) survives the move, the docset answers for the new document with the old document's data"
                      % (ty, m, ", self".join(missing)), site=prog.bodies[ms[m]].span)
    rep.floor(R, "DocSet types whose advance and seek reset a common field", n_types, 6)


def count_after_end(rep, prog, R):
    """counting a docset that already ended gives 0, whatever its cursor did after the end"""
    from ..rules import dominating_guards
    TERM = "2147483647"
    n = 0
    for fid, b in sorted(prog.bodies.items()):
        m = re.match(r"^<(.+) as tantivy::docset::DocSet>::count_including_deleted$", fid)
        if not m:
            continue
        n += 1
        subs = [bi for bi in b.normal_blocks() if b.term(bi)["k"] == "assert" and "Overflow(Sub)" in str(b.term(bi).get("msg"))]
        for bi in subs:
            guarded = False
            for sb, through, gl in dominating_guards(b, bi):
                lv = provenance(b, gl)
                if any(x[0] in ("const", "uneval") and (str(x[1]) == TERM or "TERMINATED" in str(x[1])) for x in lv):
                    guarded = True
            rep.check(guarded, R, "%s::count_including_deleted subtracts cursor state only before the end" % m.group(1).split("<")[0].split("::")[-1], "dominated by a TERMINATED test",
                      "`%s` computes its count with a subtraction on cursor state that no test against TERMINATED dominates: `advance()` may legally be called again after the end (it keeps answering TERMINATED) and moves "
                      "the cursor through the padding of the last block — the count then underflows (panic in debug builds, 4294967295 in release) instead of being 0" % fid, site=site(b, bi))
        if not subs:
            rep.ok(R, "%s::count_including_deleted has no closed-form subtraction" % m.group(1).split("<")[0].split("::")[-1], "counts by iterating or delegates", site=b.span)
    rep.floor(R, "count_including_deleted overrides examined", n, 6)


def sticky_end(rep, prog, R):
    """declaring the end also retires the cursor"""
    from ..mergecov import Aliases, fmt_path
    TERM = "2147483647"
    types = {}
    for n in prog.bodies:
        m = re.match(r"^<(.+) as tantivy::docset::DocSet>::([a-z_]+)$", n)
        if m:
            types.setdefault(m.group(1), {})[m.group(2)] = n
    nsites = 0
    for ty, ms in sorted(types.items()):
        if "advance" not in ms:
            continue
        tshort = ty.split("<")[0].split("::")[-1]
        adv = prog.bodies[ms["advance"]]
        aal = Aliases(adv, {1: "self"})
        adv_uses = aal.uses()
        adv_reads = {u[2][:1] for u in adv_uses if u[1] == "self" and u[0] in ("r", "rw", "mv") and u[2]}
        moving_writes = set()
        for m in ("advance", "seek", "seek_danger", "fill_buffer"):
            if m in ms:
                bb = prog.bodies[ms[m]]
                moving_writes |= {u[2][:1] for u in Aliases(bb, {1: "self"}).uses() if u[1] == "self" and u[0] in ("w", "rw") and u[2]}
        for m in ("seek", "seek_danger"):
            if m not in ms:
                continue
            b = prog.bodies[ms[m]]
            al = Aliases(b, {1: "self"})
            for bi in b.normal_blocks():
                for i, st in enumerate(b.stmts(bi)):
                    if is_bare(st["d"]) or st.get("r") != "use" or not st.get("o") or str(st["o"][0].get("v")) != TERM:
                        continue
                    r = al.resolve(st["d"])
                    if not r or r[0] != "self" or not r[1]:
                        continue
                    D = r[1][:1]
                    cursor = (adv_reads & moving_writes) - {D}
                    if not cursor:
                        continue      # the current doc is the only state
                    nsites += 1
                    # is advance guarded by `doc == TERMINATED` at its entry?  (then the cursor does not matter)
                    guarded = False
                    t0 = adv.term(0)
                    if t0["k"] == "switch":
                        l0 = op_place(t0["on"])
                        if l0 is not None:
                            tr = trace_back(adv, place_local(l0))
                            if tr and tr[-1][0] == "bin":
                                bst = adv.stmts(tr[-1][2])[tr[-1][3]]
                                vals = [str(o.get("v")) for o in bst.get("o", []) if op_place(o) is None]
                                reads_d = any(aal.resolve(op_place(o)) == ("self", D) for o in bst.get("o", []) if op_place(o) is not None)
                                guarded = TERM in vals and reads_d
                    if guarded:
                        rep.ok(R, "%s::%s declares the end; advance is guarded by the end marker" % (tshort, m), "advance() returns TERMINATED when doc == TERMINATED", site=site(b, bi))
                        continue
                    # blocks on some path entry -> store -> return
                    before = {x for x in b.reachable((0,)) if bi in b.reachable((x,))}
                    after = b.reachable((bi,))
                    region = before | after
                    touches = False
                    for u in al.uses():
                        if u[1] == "self" and u[0] in ("w", "rw") and u[2] and u[2][:1] in cursor and u[3] in region:
                            touches = True
                    for cb, t in b.calls():
                        if cb in region and t.get("args"):
                            rr = al.resolve(op_place(t["args"][0]))
                            if rr == ("self", ()) and (t.get("f") or "").startswith(DS):
                                touches = True      # a moving method of self
                            elif rr == ("self", ()):
                                # a helper method of self that writes a cursor field
                                hb = prog.bodies.get(t.get("res") or t.get("f") or "")
                                if hb is not None and hb.argc >= 1:
                                    hw = {u[2][:1] for u in Aliases(hb, {1: "self"}).uses() if u[1] == "self" and u[0] in ("w", "rw") and u[2]}
                                    if hw & cursor:
                                        touches = True
                    rep.check(touches, R, "%s::%s retires the cursor when it declares the end" % (tshort, m), "cursor fields %s" % sorted(fmt_path(x) for x in cursor),
                              "`%s`::%s stores TERMINATED into self%s on a path that writes none of the cursor fields advance() continues from (self%s) and does not go through advance(): "
                              "the next advance() resumes the enumeration after the end was reported — the end is not sticky" % (ty, m, fmt_path(D), ", self".join(sorted(fmt_path(x) for x in cursor))), site=site(b, bi))
    rep.floor(R, "seek paths that declare the end on a docset with cursor state", nsites, 1)


def forwarding(rep, prog, R):
    n_fw = 0
    for n in sorted(prog.bodies):
        m = re.match(r"^<(.+) as tantivy::(docset::DocSet|query::scorer::Scorer)>::([a-z_]+)$", n)
        if not m or m.group(3) not in PROTOCOL:
            continue
        b = prog.bodies[n]
        al = Aliases(b, {1: "self"})
        calls = [(bi, t) for bi, t in b.calls()]
        proto = []
        for bi, t in calls:
            f = t.get("f") or ""
            mm = re.match(r"^tantivy::(docset::DocSet|query::scorer::Scorer)::([a-z_]+)$", f)
            if mm and t.get("args"):
                res = al.resolve(op_place(t["args"][0]))
                if res and res[0] == "self":
                    proto.append((bi, t, mm.group(2), res[1]))
        # a pure forwarder: exactly one protocol call on self data, and every other call is a deref/borrow adapter
        others = [t for bi, t in calls if not any(t is p[1] for p in proto)]
        adapters = all(re.search(r"::(deref|deref_mut|as_mut|as_ref|borrow|borrow_mut)$", (t.get("f") or "")) for t in others)
        if len(proto) != 1 or not adapters:
            continue
        bi, t, callee_m, path = proto[0]
        # its other arguments are the function's own parameters
        own = True
        for a in t["args"][1:]:
            pl = op_place(a)
            if pl is None:
                own = False
                break
            tr = trace_back(b, place_local(pl))
            if not tr or tr[-1][0] != "param":
                own = False
        # the value returned is the call's result
        if not own or b.argc != len(t["args"]):
            continue
        n_fw += 1
        rep.check(callee_m == m.group(3), R, "%s::%s forwards to the same method" % (m.group(1).split("<")[0].split("::")[-1] + ("<..>" if "<" in m.group(1) else ""), m.group(3)),
                  "self%s.%s(..)" % (fmt_path(path), callee_m),
                  "%s is a pure forwarder but calls `%s` on self%s: the wrapper does not observe the sequence of the docset it wraps" % (n, callee_m, fmt_path(path)), site=site(b, bi))
    rep.floor(R, "pure forwarding methods", n_fw, 20)
