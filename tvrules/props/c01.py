"""C01 — commit is atomic and durable across a crash: the write-ahead / durability protocol,
decided on every path of the functions that issue storage operations."""
from ..model import Ev, must_pass, must_precede, ok_continuation_events, witness_path, path_spans, provenance, trace_back, op_local
from ..rules import (must_closure, rule_between, rule_precede, rule_must_pass, rule_result_checked, rule_who_may_call, get_body,
                     family, calls_to, site, short, arg_provenance, fmt_leaves)
from .. import linear, durable

D = "tantivy::directory::directory::Directory::"
SU = "tantivy::indexer::segment_updater::"
MD = "<tantivy::directory::managed_directory::ManagedDirectory as tantivy::directory::directory::Directory>::"
MM = "<tantivy::directory::mmap_directory::MmapDirectory as tantivy::directory::directory::Directory>::"


def run(rep, prog, tier):
    rep.rule("C01-R1", "sync-before-publish: in save_metas the Ok-continuation of Directory::sync_directory dominates Directory::atomic_write(meta.json); the write's result is checked")
    rep.rule("C01-R2", "single publisher: who-may-call Directory::atomic_write / save_metas equals the frozen table; the path argument is the META_FILEPATH / MANAGED_FILEPATH static")
    rep.rule("C01-R3", "terminate-or-fail: no value owning a TerminatingWrite is dropped on an Ok path (linear resource over drop-elaborated MIR)")
    rep.rule("C01-R4", "durable-before-referenced: publication points are dominated by the Ok-continuation of the finalisation of the files they reference; commit task order purge_deletes < commit < save_metas < GC")
    rep.rule("C01-R5", "storage primitives: flush < sync_data < Ok in SafeFileWriter::terminate_ref; write_all < flush < sync_data < persist in atomic_write; sync_directory must-pass sync_data; BufWriter/FooterProxy terminate order")
    rep.rule("C01-R6", "register-before-create: Ok-continuation of register_file_as_managed dominates the inner open_write / atomic_write")
    rep.rule("C01-R7", "ack-after-durable: every path from the atomic replace of meta.json to an Ok return of a commit entry point crosses a later sync_directory")
    rep.not_decided += ["that the recovered image opens and searches (file contents, JSON validity)",
                        "behaviour of real file systems; windows cfg branches"]
    r1(rep, prog)
    r2(rep, prog)
    r5(rep, prog)
    r6(rep, prog)
    r4(rep, prog)
    r7(rep, prog)
    r3(rep, prog)
    # the files of the last published commit are never collected before a newer meta is in place
    rep.rule("C01-R8", "the last published commit stays protected from GC until a newer meta.json is in place: the updater pins the SegmentMetas of the published IndexMeta (same rule as C10-R10)")
    from ..report import Retag
    from .c10 import r10 as pinned_commit
    pinned_commit(Retag(rep, "C01-R8"), prog)
    rep.rule("C01-R9", "what a crash can expose is a commit (shared with C02-R5 / C04-R5 / C05-R7): a background merge rewrites meta.json between two commits, so merges of committed segments must apply deletes only up to the last commit's opstamp (load_meta().opstamp), never up to the current stamp — otherwise a stop before the next commit re-opens on the last commit minus deletes that were never committed")
    from ..report import Retag
    from .c04 import r5 as merge_targets
    merge_targets(Retag(rep, "C01-R9"), prog, "C01-R9")


def publish_sites(prog, static):
    """functions (and blocks) containing a call to Directory::atomic_write whose path argument
    flows from the given static — found by provenance, not by function name"""
    aw = family(prog, D + "atomic_write")
    out = {}
    for (b, bi, t) in prog.who_calls(aw):
        leaves = arg_provenance(b, t, 1)
        if ("static", static) in leaves:
            out.setdefault(b.id, []).append(bi)
    return out


def bool_param_consts(prog, fid):
    """bool parameters of fid that receive the same constant at every call site: local -> '0'/'1'"""
    body = prog.body(fid)
    known = {}
    if body is None:
        return known
    sites = prog.who_calls({fid})
    for l in range(1, body.argc + 1):
        if body.local_ty_str(l) != "bool" or not sites:
            continue
        vals = set()
        for (cb, cbi, ct) in sites:
            o = ct["args"][l - 1] if l - 1 < len(ct["args"]) else {}
            vals.add(o.get("v") if "v" in o else None)
        if len(vals) == 1 and None not in vals:
            known[l] = vals.pop()
    return known


META = "tantivy::core::META_FILEPATH"
MANAGED = "tantivy::core::MANAGED_FILEPATH"


_SYNC = {}


def sync_events(prog):
    """callee names that count as 'the directory was synced': Directory::sync_directory (any impl)
    and every wrapper that must-passes it on all Ok paths (Min et al.'s wrapper rule)"""
    if id(prog) not in _SYNC:
        base = family(prog, D + "sync_directory")
        _SYNC[id(prog)] = set(base) | must_closure(prog, base)
    return _SYNC[id(prog)]


def meta_publishers(prog):
    return publish_sites(prog, META)


def r1(rep, prog):
    R = "C01-R1"
    from ..model import feasible_edges
    sync = sync_events(prog)
    aw = family(prog, D + "atomic_write")
    pubs = meta_publishers(prog)
    if not rep.check(len(pubs) >= 1, R, "meta.json publisher found", "%s" % [short(p) for p in pubs], "cannot establish: no call to Directory::atomic_write with META_FILEPATH found"):
        return
    for fid, blocks in sorted(pubs.items()):
        body = prog.body(fid)
        known = bool_param_consts(prog, fid)
        _, edges = feasible_edges(body, known=known)
        A = []
        for b, t in calls_to(prog, body, sync):
            evs, _ = ok_continuation_events(body, b)
            A.extend(evs)
        B = [Ev(b, "term", what="atomic_write(meta.json)") for b in blocks]
        bad = must_precede(body, A, B, edges=edges) if A else B
        key = "%s: sync_directory before atomic_write(meta.json)" % short(fid)
        if bad:
            p = witness_path(body, bad[0].b, A)
            rep.fail(R, key, "the atomic replace of meta.json is reachable without a successful directory sync before it%s: the new meta can become durable while "
                     "directory entries of the files it references are not" % (" (bool parameters specialised from call sites: %s)" % known if known else ""),
                     site=site(body, bad[0].b), path=path_spans(body, p))
        else:
            rep.ok(R, key, "every feasible path to the replace crosses the Ok-continuation of sync_directory (%d sync site(s)%s)" % (len(A), ", params fixed by all callers: %s" % known if known else ""), site=site(body, blocks[0]))
        rule_result_checked(rep, prog, R, fid, aw, "atomic_write", key="%s: result of atomic_write is checked" % short(fid))
        rule_result_checked(rep, prog, R, fid, sync, "sync_directory", key="%s: result of sync_directory is checked" % short(fid))


def r2(rep, prog):
    R = "C01-R2"
    aw = family(prog, D + "atomic_write")
    pubs = meta_publishers(prog)
    mans = publish_sites(prog, MANAGED)
    # "one place" is one place in the source: a helper that was inlined into two callers (normalize.py) shows the same
    # call site in both
    def places(sites_):
        return {prog.body(f).term(b).get("sp") for f, bl in sites_.items() for b in bl}
    rep.check(len(places(pubs)) == 1, R, "meta.json has a single publisher", "%s" % [short(p) for p in pubs],
              "%d functions replace meta.json (%s): the commit point is no longer written in one place" % (len(pubs), sorted(short(p) for p in pubs)))
    # (when the reference tree's publisher was inlined into its callers and deleted, they are the publishers)
    rep.check(len(places(mans)) == 1 or set(mans) <= set(prog.gone.get("tantivy::directory::managed_directory::save_managed_paths", [])), R, ".managed.json has a single publisher", "%s" % [short(p) for p in mans],
              "%d functions replace .managed.json (%s)" % (len(mans), sorted(short(p) for p in mans)))
    # every atomic_write is one of these or the ManagedDirectory delegation
    for (b, bi, t) in prog.who_calls(aw):
        leaves = arg_provenance(b, t, 1)
        statics = {l[1] for l in leaves if l[0] == "static"}
        if b.id == MD + "atomic_write":
            okk = leaves == {("param", 2)}
            rep.check(okk, R, "ManagedDirectory::atomic_write forwards its own path", "delegation", "ManagedDirectory::atomic_write writes another path than the one it was given (%s)" % fmt_leaves(leaves), site=site(b, bi))
            continue
        other = {l for l in leaves if l[0] != "static"}
        rep.check(statics in ({META}, {MANAGED}) and not other, R, "%s: atomic_write path is a fixed metadata file" % short(b.id), "path <- static %s" % sorted(x.split("::")[-1] for x in statics),
                  "`%s` atomically replaces a path that is not META_FILEPATH / MANAGED_FILEPATH (%s)" % (b.id, fmt_leaves(leaves)), site=site(b, bi))


def r5(rep, prog):
    R = "C01-R5"
    # SafeFileWriter::terminate_ref: flush < sync_data < Ok
    fid = "<tantivy::directory::mmap_directory::SafeFileWriter as tantivy_common::writer::TerminatingWrite>::terminate_ref"
    FLUSH = prog.names(r"(^|[ :<])std::io::Write::flush$|^<std::fs::File as std::io::Write>::flush$")
    SYNC = prog.names(r"^std::fs::File::sync_(data|all)$")
    rule_must_pass(rep, prog, R, fid, SYNC, "File::sync_data", a_ok=True)
    rule_precede(rep, prog, R, fid, FLUSH, SYNC, "File::flush", "File::sync_data", a_ok=True)
    # mmap atomic_write: write_all < flush < sync_data < persist
    fid = "tantivy::directory::mmap_directory::atomic_write"
    WRITE_ALL = prog.names(r"std::io::Write::write_all$")
    FLUSH2 = prog.names(r"std::io::Write::flush$")
    PERSIST = prog.names(r"^tempfile::.*TempPath::persist$")
    rule_precede(rep, prog, R, fid, WRITE_ALL, FLUSH2, "write_all", "flush", a_ok=True)
    rule_precede(rep, prog, R, fid, FLUSH2, SYNC, "flush", "File::sync_data", a_ok=True)
    rule_precede(rep, prog, R, fid, SYNC, PERSIST, "File::sync_data", "TempPath::persist", a_ok=True)
    rule_must_pass(rep, prog, R, fid, PERSIST, "TempPath::persist", a_ok=True)
    # <MmapDirectory as Directory>::atomic_write delegates
    rule_must_pass(rep, prog, R, MM + "atomic_write", {"tantivy::directory::mmap_directory::atomic_write"}, "mmap_directory::atomic_write", a_ok=True)
    # sync_directory: open(root_path) then sync_data
    fid = MM + "sync_directory"
    rule_must_pass(rep, prog, R, fid, SYNC, "File::sync_data", a_ok=True)
    body = prog.body(fid)
    if body is not None:
        opens = calls_to(prog, body, {"std::fs::OpenOptions::open"})
        ok = False
        for b, t in opens:
            # argument refers to (*self.inner).root_path
            from ..model import place_local, proj_fields, op_place
            for bl in body.blocks:
                for st in bl["st"]:
                    if st.get("r") == "ref" and any(f[1] == "root_path" for f in proj_fields(st["p"])):
                        ok = True
        rep.check(ok and opens, R, "MmapDirectory::sync_directory opens root_path", "the handle synced is opened on inner.root_path",
                  "cannot establish that sync_directory syncs the index directory itself (no open on root_path)", site=body.span)
    # ManagedDirectory::sync_directory forwards
    rule_must_pass(rep, prog, R, MD + "sync_directory", family(prog, D + "sync_directory"), "inner sync_directory", a_ok=True)
    # BufWriter<W>::terminate_ref: flush < inner terminate_ref
    TW = "tantivy_common::writer::TerminatingWrite::"
    term_ref = family(prog, TW + "terminate_ref")
    term = family(prog, TW + "terminate")
    fid = "<std::io::buffered::bufwriter::BufWriter<W> as tantivy_common::writer::TerminatingWrite>::terminate_ref"
    rule_precede(rep, prog, R, fid, prog.names(r"std::io::Write::flush$"), term_ref | term, "BufWriter::flush", "inner terminate_ref", a_ok=True)
    rule_must_pass(rep, prog, R, fid, term_ref | term, "inner terminate_ref", a_ok=False)
    # CountingWriter / Box forward
    for fid in ("<tantivy_common::writer::CountingWriter<W> as tantivy_common::writer::TerminatingWrite>::terminate_ref",
                "<alloc::boxed::Box<W> as tantivy_common::writer::TerminatingWrite>::terminate_ref"):
        rule_must_pass(rep, prog, R, fid, term_ref | term, "inner terminate_ref", a_ok=False)
    # default method TerminatingWrite::terminate calls terminate_ref
    rule_must_pass(rep, prog, R, TW + "terminate", term_ref, "terminate_ref", a_ok=False)
    # FooterProxy::terminate_ref: append_footer < inner terminate (shared with C20)
    fid = "<tantivy::directory::footer::FooterProxy<W> as tantivy_common::writer::TerminatingWrite>::terminate_ref"
    APP = {"tantivy::directory::footer::Footer::append_footer"}
    rule_precede(rep, prog, R, fid, APP, term | term_ref, "Footer::append_footer", "inner terminate", a_ok=True)
    rule_must_pass(rep, prog, R, fid, term | term_ref, "inner terminate", a_ok=False)


def r6(rep, prog):
    R = "C01-R6"
    REG = {"tantivy::directory::managed_directory::ManagedDirectory::register_file_as_managed"}
    rule_precede(rep, prog, R, MD + "open_write", REG, family(prog, D + "open_write"), "register_file_as_managed", "inner open_write", a_ok=True)
    rule_precede(rep, prog, R, MD + "atomic_write", REG, family(prog, D + "atomic_write"), "register_file_as_managed", "inner atomic_write", a_ok=True)
    # register_file_as_managed persists the list whenever it changed
    rule_result_checked(rep, prog, R, "tantivy::directory::managed_directory::ManagedDirectory::register_file_as_managed",
                        {"tantivy::directory::managed_directory::save_managed_paths"}, "save_managed_paths")


def r4(rep, prog):
    R = "C01-R4"
    I = "tantivy::indexer::"
    CLOSE = {I + "segment_serializer::SegmentSerializer::close"}
    M = must_closure(prog, CLOSE)
    for need in (I + "segment_writer::SegmentWriter::finalize", I + "segment_writer::SegmentWriter::finalize_inner",
                 I + "segment_writer::remap_and_write", I + "merger::IndexMerger::write"):
        rep.check(need in M, R, "%s must-passes SegmentSerializer::close" % short(need),
                  "every Ok exit is preceded (through wrappers) by the Ok-continuation of SegmentSerializer::close",
                  "`%s` can return Ok without the segment's files having been closed (SegmentSerializer::close not on every Ok path)" % need,
                  site=(prog.body(need).span if prog.body(need) else ""))
    # (a) a freshly written segment is handed to the updater only after finalize succeeded
    rule_precede(rep, prog, R, I + "index_writer::index_documents", M & {I + "segment_writer::SegmentWriter::finalize"},
                 {SU + "SegmentUpdater::schedule_add_segment"}, "SegmentWriter::finalize", "schedule_add_segment")
    # (b) a merged segment entry exists only after the merger wrote and closed everything
    rule_precede(rep, prog, R, SU + "merge", M & {I + "merger::IndexMerger::write"},
                 {I + "segment_entry::SegmentEntry::new"}, "IndexMerger::write", "SegmentEntry::new")
    # (c) a delete file is referenced (set_meta) only after it was terminated
    TW = "tantivy_common::writer::TerminatingWrite::"
    rule_between(rep, prog, R, I + "index_writer::advance_deletes", {"tantivy::index::segment::Segment::with_delete_meta"},
                 family(prog, TW + "terminate"), {I + "segment_entry::SegmentEntry::set_meta"},
                 "Segment::with_delete_meta", "terminate() of the .del file", "SegmentEntry::set_meta")
    rule_precede(rep, prog, R, I + "index_writer::advance_deletes", {"tantivy::fastfield::alive_bitset::write_alive_bitset"},
                 family(prog, TW + "terminate"), "write_alive_bitset", "terminate()")
    # delete files are immutable and named by opstamp: the new .del file is opened on the segment
    # *after* with_delete_meta(.., target_opstamp) gave it a fresh name, and the opstamp is the parameter
    adv = I + "index_writer::advance_deletes"
    ab = prog.body(adv)
    if ab is not None:
        WDM = {"tantivy::index::segment::Segment::with_delete_meta"}
        OW = {"tantivy::index::segment::Segment::open_write"}
        from ..rules import option_root
        for b, t in calls_to(prog, ab, WDM):
            names = ab.var_names()
            p = [l for l in range(1, ab.argc + 1) if names.get(l) == "target_opstamp"]
            rep.check(bool(p) and option_root(ab, t["args"][2]) == ("param", p[0]), R, "advance_deletes names the new delete file by its target opstamp", "with_delete_meta(.., target_opstamp)",
                      "the delete file is not named by advance_deletes' target_opstamp: an existing (referenced, immutable) .del file could be overwritten", site=site(ab, b))
        rule_precede(rep, prog, R, adv, WDM, OW, "Segment::with_delete_meta", "open_write(Delete)", a_ok=False)
        for b, t in calls_to(prog, ab, OW):
            tr = trace_back(ab, op_local(t["args"][1])) if op_local(t["args"][1]) is not None else []
            rep.check(bool(tr) and tr[-1][0] == "agg" and str(tr[-1][1]).endswith("SegmentComponent::Delete"), R, "advance_deletes writes only the Delete component", "open_write(SegmentComponent::Delete)",
                      "advance_deletes opens another component than Delete for writing", site=site(ab, b))
    rp = prog.body("tantivy::index::index_meta::SegmentMeta::relative_path")
    if rp is not None:
        okd = any(t.get("f", "").endswith("SegmentMeta::delete_opstamp") for _, t in rp.calls())
        rep.check(okd, R, "the Delete component's file name contains the delete opstamp", "relative_path calls delete_opstamp()", "SegmentMeta::relative_path no longer puts the delete opstamp into the .del file name", site=rp.span)
    # (d) the temp store is complete before it is read back
    rule_precede(rep, prog, R, I + "segment_writer::remap_and_write", {"tantivy::store::writer::StoreWriter::close"},
                 {"tantivy::store::reader::StoreReader::open"}, "old_store_writer.close()", "StoreReader::open(TempStore)")
    # field norms are read back only after their serializer was closed by FieldNormsWriter::serialize
    FNS = must_closure(prog, {"tantivy::fieldnorm::serializer::FieldNormsSerializer::close"})
    rep.check("tantivy::fieldnorm::writer::FieldNormsWriter::serialize" in FNS, R, "FieldNormsWriter::serialize must-passes FieldNormsSerializer::close",
              "closes the fieldnorm file on every Ok path", "FieldNormsWriter::serialize can return Ok without closing the fieldnorm file")
    # (e) commit task: purge_deletes < SegmentManager::commit < save_metas < GC ; Ok exit only after save_metas
    fid = SU + "SegmentUpdater::schedule_commit::{closure#0}"
    PURGE = {SU + "SegmentUpdater::purge_deletes"}
    COMMIT = {I + "segment_manager::SegmentManager::commit"}
    SAVE = {SU + "SegmentUpdater::save_metas"}
    GC = {SU + "garbage_collect_files"}
    rule_precede(rep, prog, R, fid, PURGE, COMMIT, "purge_deletes", "SegmentManager::commit")
    rule_precede(rep, prog, R, fid, COMMIT, SAVE, "SegmentManager::commit", "SegmentUpdater::save_metas", a_ok=False)
    rule_precede(rep, prog, R, fid, SAVE, GC, "SegmentUpdater::save_metas", "garbage_collect_files")
    rule_must_pass(rep, prog, R, fid, SAVE, "SegmentUpdater::save_metas", a_ok=True)
    # end-merge task: GC only after the swap; on the committed branch after save_metas
    fid = SU + "SegmentUpdater::end_merge::{closure#1}"
    ENDM = {I + "segment_manager::SegmentManager::end_merge"}
    rule_precede(rep, prog, R, fid, ENDM, GC, "SegmentManager::end_merge", "garbage_collect_files")
    rule_precede(rep, prog, R, fid, ENDM, SAVE, "SegmentManager::end_merge", "SegmentUpdater::save_metas")
    rule_between(rep, prog, R, fid, SAVE, SAVE, GC, "call of save_metas", "save_metas", "garbage_collect_files")
    # SegmentUpdater::save_metas: in-memory active meta only after the file write succeeded
    store_meta_after_publish(rep, prog, R)


def store_meta_after_publish(rep, prog, R):
    """the in-memory active meta is replaced only after the file was published: in every
    function that calls store_meta, it is dominated by the Ok-continuation of a call into the
    publisher (or a wrapper that must-passes it)"""
    pubs = set(meta_publishers(prog))
    PC = pubs | must_closure(prog, pubs)
    STORE = {SU + "SegmentUpdater::store_meta"}
    sites_ = prog.who_calls(STORE)
    rep.floor(R, "callers of store_meta", len({b.id for b, _, _ in sites_}), 1)
    aw = family(prog, D + "atomic_write")
    for fid in sorted({b.id for b, _, _ in sites_}):
        # a caller of store_meta that replaces meta.json itself (the publisher written or inlined into it): the replace is the event
        rule_precede(rep, prog, R, fid, (PC | aw) if fid in pubs else PC, STORE, "the meta.json publisher", "store_meta (memory)", key="%s: meta.json published before store_meta (memory)" % short(fid))


def r7(rep, prog):
    durable.rule_ack_after_durable(rep, prog, "C01-R7")


def r3(rep, prog):
    linear.rule_terminate_or_fail(rep, prog, "C01-R3")
