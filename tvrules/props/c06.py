"""C06 — top-K returns exactly the best K with deterministic ties: the ordering precondition of
the top-K buffers at every call site, and the single comparator."""
from ..model import (Ev, must_pass, must_precede, trace_through, trace_back, op_local, op_place, place_local,
                     is_bare, provenance, proj_fields, place_proj)
from ..rules import (rule_precede, rule_must_pass, get_body, calls_to, site, short, rule_who_may_call, callable_body)

TC = "tantivy::collector::top_score_collector::TopNComputer::<TSortKey, D, C>::"
HEAP = "tantivy::collector::sort_key::sort_by_score::TopNHeap::"
SKC = "tantivy::collector::sort_key::sort_key_computer::SegmentSortKeyComputer::compute_sort_key_and_collect"
TUP = "<(HeadSegmentSortKeyComputer, TailSegmentSortKeyComputer) as tantivy::collector::sort_key::sort_key_computer::SegmentSortKeyComputer>::compute_sort_key_and_collect"
MERGE = "tantivy::collector::sort_key_top_collector::merge_top_k"
SBS = "<tantivy::collector::sort_key::sort_by_score::SortBySimilarityScore as tantivy::collector::sort_key::sort_key_computer::SortKeyComputer>::collect_segment_top_k"

# caller -> (kind, reason).  kind 'doc-param': the doc pushed is the function's own `doc`
# parameter (the function is driven by a DocSet, ascending by the DocSet contract);
# kind 'sorted': the pushes are dominated by a sort of the input by D.
PUSHERS = {
    SKC: ("doc-param", "default collect path: called once per doc by the segment collector, in DocSet order"),
    TUP: ("doc-param", "tuple sort key: same, called once per doc"),
    TC + "push": ("forward", "push forwards to append_doc after the threshold test"),
    MERGE: ("sorted", "cross-segment merge: input hits are sorted by DocAddress first"),
    "tantivy::aggregation::metric::top_hits::TopHitsTopNComputer::collect": ("doc-param", "aggregation top_hits: called per doc in DocSet order"),
    "<tantivy::aggregation::metric::top_hits::TopHitsSegmentCollector as tantivy::aggregation::segment_agg_result::SegmentAggregationCollector>::collect": ("docs-slice", "aggregation top_hits: iterates its `docs` block parameter (filled in DocSet order) front to back"),
    SBS + "::{closure#0}": ("doc-param", "pruning callback of for_each_pruning (block-WAND emits docs in ascending order)"),
    SBS + "::{closure#1}": ("doc-param", "pruning callback of for_each_pruning"),
}


def run(rep, prog, tier):
    rep.rule("C06-R1", "push precondition: TopNComputer::push/append_doc and TopNHeap::push document that items must arrive in ascending doc order (the threshold ignores the address, the tie-break rests on arrival order); every call site either pushes its own DocSet-driven `doc` parameter or is dominated by a sort of its input by document address")
    rep.rule("C06-R2", "one comparator: every sort / select_nth in the top-K code orders by compare_for_top_k (key, then ascending doc); TopNHeap's Ord compares score, then doc descending for the min-heap; the offset is applied after the global merge sort")
    rep.not_decided += ["exactness under block-max WAND pruning, thresholds and float sums (values)", "that DocSets really emit ascending docs (C13, not applicable to this family)"]
    r1(rep, prog)
    r2(rep, prog)
    r3(rep, prog)
    r4(rep, prog)
    r5(rep, prog)
    r6(rep, prog)
    r7(rep, prog)


def r7(rep, prog):
    """a page of results needs the best offset + limit hits of every segment"""
    import re
    R = "C06-R7"
    rep.rule(R, "offset + limit per segment: TopDocs with an offset keeps, in every segment, the best `doc_range.end` (= offset + limit) hits, merges them, and only then skips `doc_range.start`. The two per-segment siblings of TopBySortKeyCollector — collect_segment (the fast path through collect_segment_top_k) and for_segment (used when TopDocs is driven by another collector: tuples, MultiCollector) — and merge_top_k must all size their TopNComputer / k with the `end` of the range, never with its length: a segment that keeps only `limit` hits loses documents that belong to the requested page")
    n = 0
    for fid, b in sorted(prog.bodies.items()):
        if "tantivy::collector::sort_key_top_collector::" not in fid or "::tests::" in fid or b.kind in ("const", "static", "promoted"):
            continue
        for bi, t in b.calls():
            f = t.get("f") or ""
            if re.search(r"TopNComputer::<.*>::(new|new_with_comparator)$", f):
                k = t["args"][0]
            elif f.endswith("collect_segment_top_k") and len(t["args"]) > 1:
                k = t["args"][1]
            else:
                continue
            n += 1
            l = op_local(k)
            tr = trace_back(b, l) if l is not None else []
            from_end = any(x[0] == "field" and x[2] == "end" for x in tr) and not any(x[0] == "call" for x in tr)
            rep.check(from_end, R, "%s sizes its top-K with doc_range.end" % short(fid), "k <- Range::end (offset + limit)",
                      "`%s` sizes the per-segment top-K with %s instead of the `end` of the requested range (offset + limit): with a non-zero offset each segment keeps too few hits, the merge then returns worse documents "
                      "in place of better ones, or short pages — only when TopDocs is combined with another collector, which no offset test does" % (fid, [x for x in tr][:3]), site=site(b, bi))
    rep.floor(R, "top-K capacity sites in sort_key_top_collector", n, 3)


def r4(rep, prog):
    """pruning pass-through: whoever implements Weight::for_each_pruning hands the collector's
    threshold and the collector's callback to the pruning engine unchanged"""
    import re
    R = "C06-R4"
    rep.rule(R, "pruning pass-through: in every implementation of Weight::for_each_pruning (the trait default and each override, enumerated from the fact base) every call into the pruning engine (another for_each_pruning, for_each_pruning_scorer, block_wand, block_wand_single_scorer, block_wand_intersection) receives as threshold the function's own `threshold` parameter and as callback the function's own `callback` parameter, through copies / reborrows only; a threshold or a returned threshold rescaled on the way (e.g. divided by a boost) lets the engine prune documents the collector would have kept")
    ENG = re.compile(r"(^|::)for_each_pruning(_scorer)?$|::block_wand(_single_scorer|_intersection)?$")
    impls = [n for n in sorted(prog.bodies) if re.search(r"(Weight>|weight::Weight)::for_each_pruning$", n)]
    ncalls = 0
    for n in impls:
        b = prog.bodies[n]
        thr = [i for i in range(1, b.argc + 1) if b.local_ty_str(i) == "f32"]
        cbs = [i for i in range(1, b.argc + 1) if "FnMut(u32, f32) -> f32" in b.local_ty_str(i)]
        if len(thr) != 1 or len(cbs) != 1:
            rep.fail(R, "%s: signature" % short(n), "cannot establish: threshold / callback parameters of %s not identified" % n, site=b.span)
            continue
        found = 0
        for bi, t in b.calls():
            if not (ENG.search(t.get("res") or "") or ENG.search(t.get("f") or "")):
                continue
            found += 1
            ncalls += 1
            callee = short(t.get("res") or t.get("f"))
            for a in t["args"]:
                l = op_local(a)
                tys = b.local_ty_str(l) if l is not None else ""
                want = None
                if tys == "f32" or (l is None and a.get("ty") == "f32"):
                    want = ("threshold", thr[0])
                elif "FnMut(u32, f32) -> f32" in tys:
                    want = ("callback", cbs[0])
                if l is None and want is None:
                    continue
                if want is None:
                    continue
                tr = trace_back(b, l) if l is not None else [("const", a.get("v"))]
                passthru = bool(tr) and tr[-1] == ("param", want[1]) and all(s[0] in ("ref", "deref", "use", "cast") for s in tr[:-1])
                rep.check(passthru, R, "%s -> %s: %s passed through" % (short(n), callee, want[0]),
                          "the %s argument is the function's own parameter" % want[0],
                          "%s gives the pruning engine %s a %s that is not its own `%s` parameter unchanged (source: %s): the engine prunes against a different bound than the collector's, "
                          "or the collector sees other scores than the engine" % (n, callee, want[0], want[0], [s[:2] for s in tr][-3:]), site=site(b, bi))
        rep.check(found >= 1, R, "%s reaches a pruning engine" % short(n), "%d engine call(s)" % found,
                  "cannot establish: %s calls no known pruning engine" % n, site=b.span)
    rep.floor(R, "implementations of Weight::for_each_pruning", len(impls), 3)
    rep.floor(R, "engine call sites", ncalls, 5)


def r5(rep, prog):
    """whoever moves the skip reader of a block cursor drops what was cached for the old block"""
    from ..mergecov import Aliases, fmt_path
    R = "C06-R5"
    rep.rule(R, "block cursor coherence: every method of BlockSegmentPostings that moves its skip reader (SkipReader::advance / seek / reset) also stores into block_max_score_cache and block_loaded — the cached block-max score and the decoded block belong to the block the skip reader pointed at before; a stale block-max score makes block-WAND prune with the bound of another block")
    pre = "tantivy::postings::block_segment_postings::BlockSegmentPostings::"
    n = 0
    for fid in sorted(prog.bodies):
        if not fid.startswith(pre) or "{" in fid[len(pre):] or "::tests::" in fid:
            continue
        b = prog.bodies[fid]
        if b.argc < 1 or not b.local_ty_str(1).startswith("&mut"):
            continue
        al = Aliases(b, {1: "self"})
        moves = []
        for bi, t in b.calls():
            f = t.get("res") or t.get("f") or ""
            if f.startswith("tantivy::postings::skip::SkipReader::") and f.split("::")[-1] in ("advance", "seek", "reset") and t.get("args"):
                r = al.resolve(op_place(t["args"][0]))
                if r and r[0] == "self" and r[1][:1] == (("f", "skip_reader"),):
                    moves.append(bi)
        if not moves:
            continue
        n += 1
        w = {u[2][:1] for u in al.uses() if u[1] == "self" and u[0] in ("w", "rw") and u[2]}
        missing = [x for x in ("block_max_score_cache", "block_loaded") if (("f", x),) not in w]
        rep.check(not missing, R, "%s drops the per-block caches when it moves the skip reader" % short(fid), "stores block_max_score_cache and block_loaded",
                  "`%s` moves the skip reader of the block cursor but does not reset %s: the cached value belongs to the previous block" % (fid, missing), site=site(b, moves[0]))
    rep.floor(R, "BlockSegmentPostings methods that move the skip reader", n, 3)


def r6(rep, prog):
    """the lazy threshold test of a segment compares with the comparator the top-K buffer uses"""
    R = "C06-R6"
    rep.rule(R, "one comparator per sort key, also per segment: a SegmentSortKeyComputerWithComparator (whose comparator decides, in accept_sort_key_lazy, whether a document can still enter the top K) is built with the value of the SortKeyComputer's own comparator() — the function the TopNComputer and merge_top_k take their comparator from. A hand-picked ComparatorEnum at this level disagrees with them on where a missing value sorts: once the threshold is a None key, every later document with a value is rejected")
    n = 0
    for fid, b in sorted(prog.bodies.items()):
        if "tantivy::collector::" not in fid or "::tests::" in fid:
            continue
        for bi in b.normal_blocks():
            for st in b.stmts(bi):
                if st.get("r") == "agg" and (st.get("adt") or "").endswith("SegmentSortKeyComputerWithComparator") and "comparator" in (st.get("fields") or []):
                    n += 1
                    o = st["o"][st["fields"].index("comparator")]
                    l = op_local(o)
                    lv = provenance(b, l) if l is not None else {("const", str(o.get("v")))}
                    okk = bool(lv) and all(x[0] == "call" and x[1].endswith("::comparator") and "SortKeyComputer" in x[1] for x in lv)
                    rep.check(okk, R, "%s builds its segment computer with self.comparator()" % short(fid)[:110], "comparator <- SortKeyComputer::comparator(self)",
                              "`%s` builds the per-segment sort-key computer with a comparator that is not the value of its own comparator() (sources: %s): the lazy threshold test and the top-K buffer order "
                              "keys differently" % (fid, sorted(str(x[:2]) for x in lv)[:3]), site=site(b, bi))
    rep.floor(R, "constructions of SegmentSortKeyComputerWithComparator", n, 2)


def r3(rep, prog):
    """codec pairing of the block-max metadata in the skip list: what the serializer writes through
    an encode_* helper, the reader must read through the matching decode_* helper on every arm"""
    R = "C06-R3"
    rep.rule(R, "block-max metadata codec pairing: the skip serializer writes the block-WAND max term frequency through encode_block_wand_max_tf and the bit width through encode_bitwidth; every BlockInfo::BitPacked the skip reader builds takes block_wand_term_freq from decode_block_wand_max_tf (or the constant 0 when no frequencies are indexed) and doc_num_bits from decode_bitwidth (an under-decoded bound lets block-WAND prune a block holding a better document)")
    S = "tantivy::postings::skip::"
    wb = get_body(rep, prog, R, S + "SkipSerializer::write_blockwand_max")
    if wb is not None:
        enc = calls_to(prog, wb, {S + "encode_block_wand_max_tf"})
        rep.check(len(enc) == 1, R, "the serializer encodes the max term frequency", "encode_block_wand_max_tf", "SkipSerializer::write_blockwand_max no longer uses encode_block_wand_max_tf", site=wb.span)
    rb = get_body(rep, prog, R, S + "SkipReader::read_block_info")
    if rb is None:
        return
    aggs = [(bi, st) for bi in rb.normal_blocks() for st in rb.stmts(bi) if st.get("r") == "agg" and st.get("adt") == S + "BlockInfo" and st.get("variant") == "BitPacked"]
    rep.floor(R, "BlockInfo::BitPacked literals in read_block_info", len(aggs), 3)
    for k, (bi, st) in enumerate(aggs):
        i = st["fields"].index("block_wand_term_freq")
        o = st["o"][i]
        okk = o.get("v") == "0"
        why = "constant 0 (no frequencies)"
        if not okk and op_local(o) is not None:
            tr = trace_back(rb, op_local(o))
            okk = bool(tr) and tr[-1][0] == "call" and tr[-1][1] == S + "decode_block_wand_max_tf"
            why = "decode_block_wand_max_tf(byte)" if okk else "source: %s" % (str(tr[-1][:2]) if tr else "?")
        rep.check(okk, R, "read_block_info arm #%d decodes block_wand_term_freq" % (k + 1), why,
                  "an arm of SkipReader::read_block_info reads the block-max term frequency without decode_block_wand_max_tf (%s): the saturated code 255 must mean 'at least 255', "
                  "otherwise the block-max score is under-estimated and block-WAND skips blocks that hold better documents" % why, site=site(rb, bi))
        j = st["fields"].index("doc_num_bits")
        tr = trace_back(rb, op_local(st["o"][j])) if op_local(st["o"][j]) is not None else []
        rep.check(any(s[0] == "call" and s[1] == S + "decode_bitwidth" for s in tr), R, "read_block_info arm #%d decodes the bit width" % (k + 1), "decode_bitwidth(byte)",
                  "an arm of read_block_info takes doc_num_bits without decode_bitwidth", site=site(rb, bi))


def r1(rep, prog):
    R = "C06-R1"
    names = {TC + "push", TC + "append_doc", HEAP + "push"}
    sites_ = prog.who_calls(names)
    callers = {}
    for b, bi, t in sites_:
        callers.setdefault(b.id, []).append((b, bi, t))
    rep.floor(R, "call sites of TopNComputer::push/append_doc and TopNHeap::push", len(sites_), 8)
    for c, lst in sorted(callers.items()):
        b, bi, t = lst[0]
        if c not in PUSHERS:
            rep.fail(R, "push precondition: unexpected caller %s" % short(c), "`%s` pushes into a top-K buffer but the ascending-address precondition was not established for it" % c, site=site(b, bi))
            continue
        kind, why = PUSHERS[c]
        for (b, bi, t) in lst:
            callee = t.get("f", "")
            # argument position of the doc: push(self, sort_key, doc) / append_doc(self, doc, sort_key) / TopNHeap::push(self, score, doc)
            di = 1 if callee.endswith("append_doc") else 2
            if kind in ("doc-param", "forward"):
                tr = trace_back(b, op_local(t["args"][di])) if op_local(t["args"][di]) is not None else []
                okk = bool(tr) and tr[-1][0] == "param"
                # the parameter must be named doc / be a DocId
                pn = b.var_names().get(tr[-1][1], "") if okk else ""
                rep.check(okk and pn in ("doc", "doc_id", "docid"), R, "%s pushes its own `doc` parameter" % short(c), "%s; %s" % (why, "arg <- param `%s`" % pn),
                          "`%s` pushes a document that is not its own `doc` parameter (%s): arrival order is no longer the DocSet order" % (c, tr[-1] if tr else "?"), site=site(b, bi))
            elif kind == "docs-slice":
                lv = provenance(b, op_local(t["args"][di]), extra_transparent=tuple(prog.names(r"Iterator::next$|IntoIterator::into_iter$|<impl \[T\]>::iter$")))
                pn = {b.var_names().get(l[1], "") for l in lv if l[0] == "param"}
                rev = [1 for _, ct in b.calls() if ct.get("f", "").endswith("Iterator::rev") or "sort" in ct.get("f", "")]
                rep.check("docs" in pn and not rev, R, "%s pushes the docs of its block parameter in order" % short(c), why,
                          "`%s` pushes documents that do not come from a forward iteration of its `docs` parameter" % c, site=site(b, bi))
            elif kind == "sorted":
                SORT = prog.names(r"<impl \[T\]>::(sort_by|sort_unstable_by|sort_by_key|sort_unstable_by_key|sort|sort_unstable)$")
                scs = calls_to(prog, b, SORT)
                bad = must_precede(b, [Ev(x, "term") for x, _ in scs], [Ev(bi, "term")]) if scs else [1]
                by_doc = False
                for sb, stt in scs:
                    if len(stt["args"]) < 2:
                        continue
                    cb = callable_body(prog, b, stt["args"][1])
                    if cb is not None:
                        # comparator / key closure only looks at component .1 (the document)
                        flds = set()
                        for blk in cb.normal_blocks():
                            for st in cb.stmts(blk):
                                for pl in ([st["p"]] if "p" in st else []) + [op_place(o) for o in st.get("o", []) if op_place(o) is not None]:
                                    for f in proj_fields(pl):
                                        flds.add(f[0])
                        by_doc = flds == {1}
                # the pushed items are the sorted vector's items
                rep.check(not bad and by_doc, R, "%s sorts its input by document before pushing" % short(c), "%s; sort by tuple component .1 dominates the push loop" % why,
                          "`%s` pushes hits into a TopNComputer without first sorting them by document address (per-segment results come in the arbitrary order left by select_nth_unstable): "
                          "on equal keys the returned hit is not the lowest address" % c, site=site(b, bi))
    for c in PUSHERS:
        if c not in callers:
            rep.fail(R, "stale table entry %s" % short(c), "listed pusher `%s` no longer calls push/append_doc: re-confirm the table" % c)


def r2(rep, prog):
    R = "C06-R2"
    CMP = "tantivy::collector::top_score_collector::compare_for_top_k"
    SORTS = prog.names(r"<impl \[T\]>::(sort_by|sort_unstable_by|select_nth_unstable_by|sort_by_key|sort_unstable_by_key|select_nth_unstable_by_key|sort|sort_unstable|select_nth_unstable)$")
    n = 0
    for (b, bi, t) in prog.who_calls(SORTS):
        if not (b.span.startswith("src/collector/top_score_collector.rs") or b.span.startswith("src/collector/sort_key_top_collector.rs") or b.span.startswith("src/collector/sort_key/sort_by_score.rs") or b.span.startswith("src/collector/top_collector.rs")):
            continue
        if b.id == MERGE:
            continue  # the by-address pre-sort of R1
        n += 1
        okk = False
        if len(t["args"]) >= 2:
            tr = trace_back(b, op_local(t["args"][-1])) if op_local(t["args"][-1]) is not None else []
            cb = prog.body(tr[-1][1]) if tr and tr[-1][0] == "agg" else None
            if cb is not None:
                okk = any(ct.get("f") == CMP for _, ct in cb.calls())
        rep.check(okk, R, "%s orders by compare_for_top_k" % short(b.id), "%s with a closure calling compare_for_top_k" % t.get("f", "").split("::")[-1],
                  "`%s` sorts/selects with another order than compare_for_top_k: truncation and final order could disagree on ties" % b.id, site=site(b, bi))
    rep.floor(R, "sort/select sites in the top-K code", n, 2)
    cb = get_body(rep, prog, R, CMP)
    if cb is not None:
        # key comparison reversed, then doc ascending: the then_with closure compares lhs.doc with rhs.doc in that order
        rev = [t for _, t in cb.calls() if t.get("f", "").endswith("Ordering::reverse")]
        tw = [t for _, t in cb.calls() if t.get("f", "").endswith("Ordering::then_with")]
        okc = bool(rev) and bool(tw)
        order_ok = False
        for r in prog.body_refs(cb):
            c2 = prog.body(r)
            if c2 is None:
                continue
            for _, ct in c2.calls():
                if ct.get("f", "").endswith("cmp::Ord::cmp"):
                    a0 = trace_through(c2, op_local(ct["args"][0]))
                    a1 = trace_through(c2, op_local(ct["args"][1]))
                    # upvar 0 = lhs, upvar 1 = rhs
                    f0 = [s for s in a0 if s[0] == "field"]
                    f1 = [s for s in a1 if s[0] == "field"]
                    order_ok = any(s[2] == "doc" for s in f0) and any(s[2] == "doc" for s in f1) and any(s[1] == 0 and s[2] == "" for s in f0) and any(s[1] == 1 and s[2] == "" for s in f1)
        rep.check(okc and order_ok, R, "compare_for_top_k = key order reversed, then doc ascending", "reverse().then_with(|| lhs.doc.cmp(&rhs.doc))",
                  "compare_for_top_k no longer breaks ties by ascending document (reverse=%s then_with=%s lhs-before-rhs=%s)" % (bool(rev), bool(tw), order_ok), site=cb.span)
    hb = get_body(rep, prog, R, "<tantivy::collector::sort_key::sort_by_score::ScoreHeapEntry as core::cmp::Ord>::cmp")
    if hb is not None:
        pc = [t for _, t in hb.calls() if t.get("f", "").endswith("PartialOrd::partial_cmp")]
        okh = False
        for r in prog.body_refs(hb):
            c2 = prog.body(r)
            if c2 is None:
                continue
            for _, ct in c2.calls():
                if ct.get("f", "").endswith("cmp::Ord::cmp"):
                    a0 = [s for s in trace_through(c2, op_local(ct["args"][0])) if s[0] == "field"]
                    a1 = [s for s in trace_through(c2, op_local(ct["args"][1])) if s[0] == "field"]
                    # then_with(|| other.doc.cmp(&self.doc)): upvar order in the closure is capture order (other, self)
                    okh = any(s[2] == "doc" for s in a0) and any(s[2] == "doc" for s in a1)
        rep.check(bool(pc) and okh, R, "ScoreHeapEntry orders by score, then by doc", "partial_cmp(score).then_with(doc)", "ScoreHeapEntry::cmp no longer compares the score first and the doc second", site=hb.span)
    mb = get_body(rep, prog, R, MERGE)
    if mb is not None:
        SK = prog.names(r"Iterator::skip$")
        rule_precede(rep, prog, R, MERGE, {TC + "into_sorted_vec"}, SK, "into_sorted_vec (global order)", "skip(offset)", a_ok=False)
        for b, t in calls_to(prog, mb, SK):
            tr = trace_back(mb, op_local(t["args"][1])) if op_local(t["args"][1]) is not None else []
            rep.check(any(s[0] == "field" and s[2] == "start" for s in tr), R, "the offset skipped is doc_range.start", "skip(doc_range.start)", "merge_top_k skips something else than doc_range.start", site=site(mb, b))
        for b, t in calls_to(prog, mb, {TC + "new_with_comparator"}):
            tr = trace_back(mb, op_local(t["args"][0])) if op_local(t["args"][0]) is not None else []
            rep.check(any(s[0] == "field" and s[2] == "end" for s in tr), R, "the merge keeps offset+limit hits", "TopNComputer::new_with_comparator(doc_range.end, ..)", "the merge buffer is not sized doc_range.end (offset + limit)", site=site(mb, b))
