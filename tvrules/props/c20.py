"""C20 — checksum validation detects any corruption: every written byte is hashed, every file
gets a footer, every read strips and checks it, validation walks every component."""
from ..model import (Ev, must_pass, trace_through, trace_back, op_local, op_place, place_local, is_bare,
                     provenance)
from ..rules import (rule_precede, rule_must_pass, rule_result_checked, rule_who_may_call, get_body, family,
                     calls_to, site, short, rule_between, return_defs)

D = "tantivy::directory::directory::Directory::"
MD = "<tantivy::directory::managed_directory::ManagedDirectory as tantivy::directory::directory::Directory>::"
MDI = "tantivy::directory::managed_directory::ManagedDirectory::"
FP = "tantivy::directory::footer::"
TW = "tantivy_common::writer::TerminatingWrite::"


def run(rep, prog, tier):
    rep.rule("C20-R1", "every written byte is hashed: impl Write for FooterProxy = {write, flush}; in write, Hasher::update is must-passed on the Ok-continuation of the inner write with buf[..count], count = the inner result")
    rep.rule("C20-R2", "every file gets a footer and every read strips/checks it: ManagedDirectory::open_write wraps in FooterProxy; terminate_ref appends the footer before the inner terminate; open_read must-pass extract_footer and is_compatible and returns the body half; segments are read/written through ManagedDirectory only")
    rep.rule("C20-R3", "validation walks everything: Index::validate_checksum iterates searchable metas x list_files and calls ManagedDirectory::validate_checksum, which hashes the whole body and compares with footer.crc()")
    rep.rule("C20-R4", "version window: OLDEST <= INDEX_FORMAT_VERSION, the written version is INDEX_FORMAT_VERSION, is_compatible returns Err(IndexMismatch) outside the range")
    rep.not_decided += ["the detection power of CRC32", "truncations cutting into the footer are reported as Err, not as a damaged-set member"]
    r1(rep, prog)
    r2(rep, prog)
    r3(rep, prog)
    r4(rep, prog)
    r6(rep, prog)
    rep.rule("C20-R7", "what is validated is what is managed (shared with C10-R7): Index::validate_checksum covers the committed files that are in the managed list, so a file may leave that list only by being deleted — garbage_collect prunes the current list by exactly the files it deleted (no snapshot written back, no retain over the living set)")
    from ..report import Retag
    from .c10 import r7 as gc_bookkeeping
    gc_bookkeeping(Retag(rep, "C20-R7"), prog)
    r8(rep, prog)
    r9(rep, prog)


def r8(rep, prog):
    """validation intersects the committed files with the managed list as persisted, not as remembered"""
    from ._managed import managed_list_readers
    from ..rules import rule_precede
    R = "C20-R8"
    rep.rule(R, "the managed set used by validation is current: Index::validate_checksum re-reads meta.json (searchable_segment_metas) but intersects its files with ManagedDirectory::list_managed_files, the in-memory copy this Index handle loaded when it was opened. Every segment committed later through another handle (Index::open twice, another process) is outside that copy and silently skipped — 'reports exactly the files whose content no longer matches'. Rule: in validate_checksum a re-read of `.managed.json` (a call reaching Directory::atomic_read(MANAGED_FILEPATH)) precedes list_managed_files")
    base, readers = managed_list_readers(prog)
    rep.floor(R, "functions that read .managed.json back", len(base), 1)
    rule_precede(rep, prog, R, "tantivy::index::index::Index::validate_checksum", readers, {MDI + "list_managed_files"},
                 "a re-read of .managed.json", "ManagedDirectory::list_managed_files", a_ok=True, key="validate_checksum refreshes the managed list before it uses it")


def r9(rep, prog):
    """a deleted path does not keep serving its old bytes"""
    from ..model import Ev, must_pass
    R = "C20-R9"
    rep.rule(R, "reading back yields what was written last: MmapDirectory caches the mmap of every path it opened (weak references, alive while anybody holds a slice). A path can be deleted and written again (garbage collection followed by a file of the same name; the delete file of a failed commit, removed and rewritten by the next one): MmapDirectory::delete must evict the path's entry from the cache on every path to its Ok return — its own doc comment says so — or open_read of the re-created file returns the bytes, footer and checksum of the deleted one")
    fid = "<tantivy::directory::mmap_directory::MmapDirectory as tantivy::directory::directory::Directory>::delete"
    b = get_body(rep, prog, R, fid)
    if b is None:
        return
    ev = []
    for bi, t in b.calls():
        f = t.get("res") or t.get("f") or ""
        if f.endswith("HashMap::<K, V, S, A>::remove") or "MmapCache::remove" in f or f.endswith("MmapCache::evict"):
            ev.append(Ev(bi, "term"))
    bad = must_pass(b, ev, exits="ok") if ev else [0]
    rep.check(bool(ev) and not bad, R, "MmapDirectory::delete evicts the cached mmap of the path", "%d eviction site(s), must-passed on the Ok path" % len(ev),
              "MmapDirectory::delete removes the file but leaves the path's entry in the mmap cache: while somebody still holds a slice of the deleted file, open_read of a file re-created under the same name returns the old "
              "bytes (and ManagedDirectory::validate_checksum answers for the old content)", site=b.span)


def r6(rep, prog):
    """the footer reader is total on short files: the length guard covers every fixed-size read
    from the end of the file"""
    R = "C20-R6"
    rep.rule(R, "footer extraction is total on truncated files: in Footer::extract_footer every FileSlice::slice_from_end(n) with a constant n is dominated by a length guard `len < k` with k >= n that returns an error (FileSlice::slice_from_end(n) panics when the file is shorter than n); the variable-size footer read is guarded by a comparison with the computed total size")
    fid = FP + "Footer::extract_footer"
    body = get_body(rep, prog, R, fid)
    if body is None:
        return
    LEN = prog.names(r"HasLen>::len$|HasLen::len$")
    SFE = {"tantivy_common::file_slice::FileSlice::slice_from_end"}
    # guards: `_c = Lt(len(..), const K)` feeding a switch whose taken arm is an error exit
    guards = []
    for bi in body.normal_blocks():
        for st in body.stmts(bi):
            if st.get("r") == "bin" and st.get("op") == "Lt" and len(st["o"]) == 2:
                k = None
                if "v" in st["o"][1]:
                    k = int(st["o"][1]["v"])
                elif op_local(st["o"][1]) is not None:
                    tk = trace_back(body, op_local(st["o"][1]))
                    if tk and tk[-1][0] == "const":
                        try:
                            k = int(tk[-1][1])
                        except (TypeError, ValueError):
                            k = None
                src = trace_back(body, op_local(st["o"][0])) if op_local(st["o"][0]) is not None else []
                if k is not None and src and src[-1][0] == "call" and src[-1][1] in LEN:
                    guards.append((bi, k))
    calls = calls_to(prog, body, SFE)
    rep.floor(R, "fixed-size reads from the end of the file in extract_footer", len(calls), 1)
    dom = body.dominators()
    for b, t in calls:
        a = t["args"][1]
        n = None
        if "v" in a:
            n = int(a["v"])
        elif op_local(a) is not None:
            tr = trace_back(body, op_local(a))
            if tr and tr[-1][0] == "const":
                try:
                    n = int(tr[-1][1])
                except (TypeError, ValueError):
                    n = None
        if not rep.check(n is not None, R, "slice_from_end is called with a constant size", "n = %s" % n, "cannot establish the size read from the end of the file", site=site(body, b)):
            continue
        ks = [k for (gb, k) in guards if gb in dom.get(b, ())]
        rep.check(bool(ks) and max(ks) >= n, R, "the length guard covers the %d-byte trailer read" % n, "dominating guard(s) `len < %s`" % ks,
                  "Footer::extract_footer reads the last %d bytes of the file but only rejects files shorter than %s bytes: a segment file truncated to %s..%d bytes makes open_read and validate_checksum panic "
                  "instead of reporting the damage" % (n, max(ks) if ks else "?", max(ks) if ks else "?", n - 1), site=site(body, b))


def r1(rep, prog):
    R = "C20-R1"
    impl = [im for im in prog.impls if im.get("trait") == "std::io::Write"
            and prog.impl_self_ty(im).get("def") == FP + "FooterProxy"]
    if rep.check(len(impl) == 1, R, "impl Write for FooterProxy exists", "found", "cannot establish: impl Write for FooterProxy not found"):
        names = sorted(i["name"] for i in impl[0]["items"])
        rep.check(names == ["flush", "write"], R, "FooterProxy Write impl overrides exactly {write, flush}",
                  "no write_all / write_vectored / write_fmt override can bypass the hasher (defaults funnel into write)",
                  "impl Write for FooterProxy overrides %s: a method other than write/flush can reach the inner writer without hashing" % names,
                  site=impl[0]["span"])
    fid = "<tantivy::directory::footer::FooterProxy<W> as std::io::Write>::write"
    body = get_body(rep, prog, R, fid)
    if body is None:
        return
    WRITE = prog.names(r"^std::io::Write::write$")
    UPD = prog.names(r"^crc32fast::Hasher::update$")
    rule_must_pass(rep, prog, R, fid, UPD, "Hasher::update", a_ok=False)
    rule_precede(rep, prog, R, fid, WRITE, UPD, "inner write", "Hasher::update", a_ok=True)
    # exactly one inner write, on self.writer
    ws = calls_to(prog, body, WRITE)
    rep.check(len(ws) == 1, R, "FooterProxy::write performs exactly one inner write", "1 call", "found %d inner write calls" % len(ws), site=body.span)
    # the hashed slice is buf[..count]
    for b, t in calls_to(prog, body, UPD):
        steps = trace_through(body, op_local(t["args"][1]), transparent=("core::ops::index::Index::index",) + tuple(
            prog.names(r"^core::ops::index::Index::index$|impl core::ops::index::Index<I> for \[T\]>::index$")))
        ok_buf = ("param", 2) in steps
        # the range operand of the index call
        idx_calls = [(bb, tt) for bb, tt in body.calls() if tt.get("f", "").endswith("Index::index")]
        ok_cnt = False
        for bb, tt in idx_calls:
            rs = trace_back(body, op_local(tt["args"][1]))
            if rs and rs[-1][0] == "agg" and "RangeTo" in rs[-1][1]:
                st = body.stmts(rs[-1][2])[rs[-1][3]]
                cs = trace_through(body, op_local(st["o"][0]))
                if any(s[0] == "call" and s[1] in WRITE | {"std::io::Write::write"} for s in cs) and (("downcast", "Continue") in cs or ("downcast", "Ok") in cs):
                    ok_cnt = True
        rep.check(ok_buf and ok_cnt, R, "FooterProxy::write hashes buf[..count]",
                  "slice base is the `buf` parameter, upper bound is the Ok value of the inner write",
                  "the slice given to Hasher::update is not buf[..count-of-inner-write] (base=%s bound-ok=%s): bytes accepted by the writer and bytes hashed can differ" % (ok_buf, ok_cnt),
                  site=site(body, b))
    # returned count is the inner count
    for kind, b, x in return_defs(body):
        cs = trace_through(body, x) if kind == "ok" and x is not None else []
        rep.check(any(s[0] == "call" and s[1] in WRITE for s in cs), R, "FooterProxy::write returns the inner count",
                  "Ok(count) flows from the inner write", "a success return of FooterProxy::write does not flow from the inner write", site=site(body, b))
    # flush forwards only
    fid = "<tantivy::directory::footer::FooterProxy<W> as std::io::Write>::flush"
    fb = get_body(rep, prog, R, fid)
    if fb is not None:
        calls = [t.get("f") for _, t in fb.calls()]
        rep.check(not any("Hasher" in (c or "") for c in calls) and any((c or "").endswith("Write::flush") for c in calls), R,
                  "FooterProxy::flush forwards only", "calls: %s" % [c.split("::")[-1] for c in calls if c], "flush touches the hasher or does not forward", site=fb.span)


def r2(rep, prog):
    R = "C20-R2"
    fid = MD + "open_write"
    body = get_body(rep, prog, R, fid)
    NEW = {FP + "FooterProxy::<W>::new"}
    if body is not None:
        rule_must_pass(rep, prog, R, fid, NEW, "FooterProxy::new", a_ok=False)
        # the returned writer is built from the proxy
        leaves = provenance(body, 0, extra_transparent=tuple(prog.names(r"BufWriter::<W>::new$|Box::<T>::new$")))
        rep.check(any(l[0] == "call" and l[1] in NEW for l in leaves), R, "ManagedDirectory::open_write returns the FooterProxy-wrapped writer",
                  "return value flows from FooterProxy::new", "the value returned by open_write does not flow from FooterProxy::new (%s)" % sorted(l[1] for l in leaves if l[0] == "call"),
                  site=body.span)
        # the proxy wraps the inner open_write result
        for b, t in calls_to(prog, body, NEW):
            lv = provenance(body, op_local(t["args"][0]), extra_transparent=tuple(prog.names(r"BufWriter::<W>::into_inner$|Result::<T, E>::(map_err|expect)$")))
            rep.check(any(l[0] == "call" and l[1] in family(prog, D + "open_write") for l in lv), R,
                      "FooterProxy wraps the inner directory's writer", "argument flows from inner open_write", "FooterProxy::new is not given the inner open_write result", site=site(body, b))
    # terminate_ref: finalize -> Footer::new -> append_footer -> inner terminate
    fid = "<tantivy::directory::footer::FooterProxy<W> as tantivy_common::writer::TerminatingWrite>::terminate_ref"
    FIN = prog.names(r"^crc32fast::Hasher::finalize$")
    FNEW = {FP + "Footer::new"}
    APP = {FP + "Footer::append_footer"}
    TERM = family(prog, TW + "terminate") | family(prog, TW + "terminate_ref")
    rule_precede(rep, prog, R, fid, FIN, FNEW, "Hasher::finalize", "Footer::new", a_ok=False)
    rule_precede(rep, prog, R, fid, FNEW, APP, "Footer::new", "Footer::append_footer", a_ok=False)
    rule_precede(rep, prog, R, fid, APP, TERM, "Footer::append_footer", "inner terminate", a_ok=True)
    tb = prog.body(fid)
    if tb is not None:
        for b, t in calls_to(prog, tb, FNEW):
            cs = trace_through(tb, op_local(t["args"][0]))
            rep.check(any(s[0] == "call" and s[1] in FIN for s in cs), R, "the footer's crc is the hasher's final value",
                      "Footer::new(crc) <- Hasher::finalize", "Footer::new is not given Hasher::finalize()", site=site(tb, b))
    # open_read: extract_footer + is_compatible, returns body half
    fid = MD + "open_read"
    EXT = {FP + "Footer::extract_footer"}
    COMP = {FP + "Footer::is_compatible"}
    rule_must_pass(rep, prog, R, fid, EXT, "Footer::extract_footer", a_ok=True)
    rule_must_pass(rep, prog, R, fid, COMP, "Footer::is_compatible", a_ok=True)
    rule_result_checked(rep, prog, R, fid, COMP, "Footer::is_compatible")
    ob = prog.body(fid)
    if ob is not None:
        rds = return_defs(ob)
        rep.check(bool(rds), R, "open_read has a success return", "%d" % len(rds), "cannot establish: no success definition of the return value in open_read")
        for kind, b, x in rds:
            okk = False
            tr = []
            if kind == "ok" and x is not None:
                tr = trace_through(ob, x)
                okk = any(s[0] == "field" and s[1] == 1 for s in tr) and any(s[0] == "call" and s[1] in EXT for s in tr)
            rep.check(okk, R, "open_read returns the body half of extract_footer", "Ok(.1 of extract_footer's pair)",
                      "open_read has a success return that is not the footer-stripped slice (%s %s)" % (kind, [s[:2] for s in tr][:6] if tr else (x.get("f") if kind == "call" else "")),
                      site=site(ob, b))
    rule_must_pass(rep, prog, R, MD + "get_file_handle", {MD + "open_read"} | family(prog, D + "open_read") - {D + "open_read"} | {D + "open_read"}, "open_read", a_ok=True)
    gb = prog.body(MD + "get_file_handle")
    if gb is not None:
        cs = [t for _, t in gb.calls() if t.get("f") == D + "open_read"]
        rep.check(bool(cs) and all(t.get("res") == MD + "open_read" for t in cs), R, "get_file_handle goes through ManagedDirectory::open_read",
                  "resolved callee is the footer-stripping open_read", "get_file_handle does not call ManagedDirectory's own open_read", site=gb.span)
    # Segment::{open_read, open_write} resolve to ManagedDirectory's methods
    for (fn, meth) in (("tantivy::index::segment::Segment::open_read", "open_read"), ("tantivy::index::segment::Segment::open_write", "open_write")):
        sb = get_body(rep, prog, R, fn)
        if sb is None:
            continue
        cs = [(b, t) for b, t in sb.calls() if t.get("f") == D + meth]
        rep.check(bool(cs) and all(t.get("res") == MD + meth for _, t in cs), R, "%s uses ManagedDirectory::%s" % (short(fn), meth),
                  "statically resolved to the footer-aware implementation",
                  "%s reaches %s of another Directory implementation: segment files could bypass the footer" % (fn, meth), site=sb.span)


def r3(rep, prog):
    R = "C20-R3"
    fid = "tantivy::index::index::Index::validate_checksum"
    body = get_body(rep, prog, R, fid)
    if body is None:
        return
    rule_must_pass(rep, prog, R, fid, {"tantivy::index::index::Index::searchable_segment_metas"}, "searchable_segment_metas", a_ok=True)
    rule_must_pass(rep, prog, R, fid, {MDI + "list_managed_files"}, "list_managed_files", a_ok=False)
    # the flat_map closure calls SegmentMeta::list_files
    refs = [r for r in prog.body_refs(body) if r.startswith(fid + "::{closure")]
    lf = False
    for r in refs:
        cb = prog.body(r)
        if cb and any(t.get("f") == "tantivy::index::index_meta::SegmentMeta::list_files" for _, t in cb.calls()):
            lf = True
    rep.check(lf, R, "validate_checksum maps every segment meta through list_files", "closure calls SegmentMeta::list_files",
              "validate_checksum no longer enumerates SegmentMeta::list_files for each segment", site=body.span)
    VC = {MDI + "validate_checksum"}
    cs = calls_to(prog, body, VC)
    # the per-file check is either a loop in the function (check, then insert into the damaged set) or the closure of an
    # adaptor over the files whose results are collected into the set
    in_closure = [(cb, b) for r in refs for cb in [prog.body(r)] if cb is not None for b, _t in calls_to(prog, cb, VC)]
    rep.check(len(cs) + len(in_closure) >= 1, R, "validate_checksum checks each file with ManagedDirectory::validate_checksum", "%d call(s)" % (len(cs) + len(in_closure)),
              "cannot establish: no call to ManagedDirectory::validate_checksum", site=body.span)
    INS = prog.names(r"HashSet::<T, S, A>::insert$")
    if cs or not in_closure:
        rule_result_checked(rep, prog, R, fid, VC, "ManagedDirectory::validate_checksum")
        # a false result leads to an insert into damaged_files
        ins = calls_to(prog, body, INS)
        rep.check(bool(ins), R, "a failed file is inserted into the damaged set", "%d insert site(s)" % len(ins), "no insert into the damaged set", site=body.span)
        rule_precede(rep, prog, R, fid, VC, INS, "ManagedDirectory::validate_checksum", "damaged_files.insert", a_ok=True)
    else:
        from ..model import try_continuations
        for cb, b in in_closure:
            rule_result_checked(rep, prog, R, cb.id, VC, "ManagedDirectory::validate_checksum")
            # ... and an unreadable file is an error of the whole validation, not "undamaged": the Err arm of the check
            # only leads to error returns of the closure (`Some(Err(..))`, `Err(..)`, `?`)
            cont, brk, brs = try_continuations(cb, b)
            eb = cb.error_blocks()
            starts = tuple(x for x in brk if x not in eb)
            leak = must_pass(cb, [Ev(x, "enter") for x in eb], exits="all", starts=starts) if starts else []
            rep.check(bool(brk) and not leak, R, "a file whose checksum cannot be computed is reported as an error", "the Err arm of validate_checksum only reaches error returns",
                      "in %s the Err arm of ManagedDirectory::validate_checksum reaches a normal return: a file that cannot be opened or read is counted as undamaged" % short(cb.id), site=site(cb, b))
        coll = [b for b, t in body.calls() if (t.get("f") or "").endswith("Iterator::collect") and "HashSet" in body.local_ty_str(place_local(t["dest"]))]
        rep.check(bool(coll), R, "a failed file is inserted into the damaged set", "the per-file results are collected into a HashSet", "no insert into the damaged set", site=body.span)
    # ManagedDirectory::validate_checksum
    fid = MDI + "validate_checksum"
    vb = get_body(rep, prog, R, fid)
    if vb is None:
        return
    EXT = {FP + "Footer::extract_footer"}
    UPD = prog.names(r"^crc32fast::Hasher::update$")
    FIN = prog.names(r"^crc32fast::Hasher::finalize$")
    CRC = {FP + "Footer::crc"}
    RB = prog.names(r"^tantivy_common::file_slice::FileSlice::read_bytes$")
    rule_must_pass(rep, prog, R, fid, EXT, "Footer::extract_footer", a_ok=True)
    rule_precede(rep, prog, R, fid, RB, UPD, "FileSlice::read_bytes (whole body)", "Hasher::update", a_ok=True)
    rule_precede(rep, prog, R, fid, UPD, FIN, "Hasher::update", "Hasher::finalize", a_ok=False)
    rule_must_pass(rep, prog, R, fid, FIN, "Hasher::finalize", a_ok=False)
    # read_bytes is applied to the body half of extract_footer
    for b, t in calls_to(prog, vb, RB):
        cs = trace_through(vb, op_local(t["args"][0]))
        okk = any(s[0] == "field" and s[1] == 1 for s in cs) and any(s[0] == "call" and s[1] in EXT for s in cs)
        rep.check(okk, R, "validate_checksum hashes the footer-stripped body", "read_bytes(.1 of extract_footer)", "the hashed bytes are not the body half of extract_footer", site=site(vb, b))
    # the returned bool is footer.crc() == finalize()
    okcmp = False
    for b in vb.normal_blocks():
        for st in vb.stmts(b):
            if st.get("r") == "bin" and st.get("op") == "Eq":
                srcs = set()
                for o in st["o"]:
                    l = op_local(o)
                    if l is not None:
                        for s in trace_through(vb, l):
                            if s[0] == "call":
                                srcs.add(s[1])
                if srcs & CRC and srcs & FIN:
                    okcmp = True
    rep.check(okcmp, R, "validate_checksum compares footer.crc() with the recomputed crc", "Eq(footer.crc(), hasher.finalize())",
              "no equality comparison between footer.crc() and Hasher::finalize() found", site=vb.span)


def r4(rep, prog):
    R = "C20-R4"

    def const_val(path):
        b = prog.body(path)
        if b is None:
            return None
        for st in b.stmts(0):
            if is_bare(st["d"]) and st["d"] == 0 and st.get("r") == "use" and "v" in st["o"][0]:
                return int(st["o"][0]["v"])
        return None
    cur = const_val("tantivy::INDEX_FORMAT_VERSION")
    old = const_val("tantivy::INDEX_FORMAT_OLDEST_SUPPORTED_VERSION")
    if not rep.check(cur is not None and old is not None, R, "format version constants readable", "INDEX_FORMAT_VERSION=%s OLDEST=%s" % (cur, old),
                     "cannot establish: INDEX_FORMAT_VERSION / INDEX_FORMAT_OLDEST_SUPPORTED_VERSION not found as scalar consts"):
        return
    rep.check(old <= cur, R, "OLDEST_SUPPORTED <= INDEX_FORMAT_VERSION", "%d <= %d" % (old, cur), "oldest supported version %d exceeds current %d" % (old, cur))
    rb = prog.body(FP + "Footer::is_compatible::SUPPORTED_INDEX_FORMAT_VERSION_RANGE")
    okr = False
    if rb is not None:
        for b, t in rb.calls():
            if "RangeInclusive" in t.get("f", "") and len(t["args"]) == 2:
                vals = [a.get("v") for a in t["args"]]
                okr = vals == [str(old), str(cur)]
    rep.check(okr, R, "is_compatible's range is OLDEST..=CURRENT", "RangeInclusive::new(%d, %d)" % (old, cur),
              "the accepted range in Footer::is_compatible is not INDEX_FORMAT_OLDEST_SUPPORTED_VERSION..=INDEX_FORMAT_VERSION")
    vb = prog.body("tantivy::VERSION::{closure#0}")
    okv = False
    if vb is not None:
        for b in vb.normal_blocks():
            for st in vb.stmts(b):
                if st.get("r") == "agg" and st.get("adt") == "tantivy::Version":
                    i = st["fields"].index("index_format_version")
                    okv = st["o"][i].get("v") == str(cur)
    rep.check(okv, R, "the written footer version is INDEX_FORMAT_VERSION", "VERSION.index_format_version == %d" % cur,
              "crate::VERSION.index_format_version is not INDEX_FORMAT_VERSION: files would be written with a version the reader refuses or misreads")
    fb = prog.body(FP + "Footer::new")
    okf = False
    if fb is not None:
        lv = provenance(fb, 0)
        okf = ("static", "tantivy::VERSION") in lv and ("param", 1) in lv
    rep.check(okf, R, "Footer::new stamps crate::VERSION and the given crc", "provenance {VERSION, crc param}", "Footer::new does not use crate::VERSION / its crc parameter")
    ib = prog.body(FP + "Footer::is_compatible")
    oki = False
    if ib is not None:
        for b, t in ib.calls():
            if t.get("f", "").endswith("RangeInclusive::<Idx>::contains"):
                sw = ib.term(t["to"])
                if sw["k"] == "switch" and op_local(sw["on"]) == place_local(t["dest"]):
                    false_tgt = dict((v, tg) for v, tg in sw["vals"]).get("0")
                    if false_tgt is not None:
                        # the false arm builds Err(IndexMismatch); the true arm reaches Ok only
                        r = ib.reachable((false_tgt,))
                        errs = [1 for bb in r for st in ib.stmts(bb) if st.get("variant") == "IndexMismatch"]
                        oks = [1 for bb in r for st in ib.stmts(bb) if st.get("r") == "agg" and st.get("variant") == "Ok" and place_local(st["d"]) == 0]
                        # the field tested is version.index_format_version
                        steps = trace_back(ib, op_local(t["args"][1]))
                        fld = any(s[0] == "field" and s[2] == "index_format_version" for s in trace_through(ib, op_local(t["args"][1])))
                        oki = bool(errs) and not oks and fld
    rep.check(oki, R, "is_compatible refuses versions outside the range", "!contains(version.index_format_version) -> Err(IndexMismatch), never Ok",
              "Footer::is_compatible does not return Err(IndexMismatch) on the out-of-range arm (or tests another field)")
