"""C07 — the inverted index records exactly terms/docs/freqs/positions: only the code tables."""
from .. import codetab as ct
from ..rules import get_body, short

T = "tantivy::schema::field_type::Type"


def run(rep, prog, tier):
    rep.rule("C07-R1", "schema::Type::{to_code, from_code} are mutually inverse on every variant and ALL_TYPES lists every variant exactly once")
    rep.rule("C07-R2", "fieldnorm::code::FIELD_NORMS_TABLE has 256 entries, starts at 0 and is strictly increasing (precondition of the binary search in fieldnorm_to_id, and of id_to_fieldnorm being its inverse)")
    rep.not_decided += ["everything about posting-list content, positions, term dictionaries (values)"]
    tc = get_body(rep, prog, "C07-R1", T + "::to_code")
    fc = get_body(rep, prog, "C07-R1", T + "::from_code")
    variants = ct.enum_variants(prog, T)
    if tc is not None and fc is not None and rep.check(variants is not None, "C07-R1", "enum schema::Type", "found", "cannot establish: enum Type not found"):
        enc, how = ct.encode_map(prog, tc, T)
        dec, how2 = ct.decode_map(prog, fc, T)
        if rep.check(enc is not None and dec is not None, "C07-R1", "Type code functions readable", "%s / %s" % (how, how2),
                     "cannot read the code tables off Type::to_code / from_code (%s / %s)" % (how, how2), site=tc.span):
            ct.check_inverse(rep, "C07-R1", "schema::Type", enc, dec, variants, site=fc.span)
        arr = ct.const_array_variants(prog, "tantivy::schema::field_type::ALL_TYPES", T)
        rep.check(arr is not None and sorted(arr) == sorted(variants) and len(set(arr)) == len(arr), "C07-R1", "ALL_TYPES lists every Type variant once",
                  "%d entries" % len(arr or []), "ALL_TYPES %s does not list every variant of Type %s exactly once" % (arr, sorted(variants)))
    tab = ct.const_int_array(prog, "tantivy::fieldnorm::code::FIELD_NORMS_TABLE")
    if rep.check(tab is not None, "C07-R2", "FIELD_NORMS_TABLE readable", "constant array", "cannot establish: FIELD_NORMS_TABLE not found as a constant array"):
        rep.check(len(tab) == 256, "C07-R2", "FIELD_NORMS_TABLE has 256 entries", "len=%d" % len(tab), "FIELD_NORMS_TABLE has %d entries, one per u8 code is required" % len(tab))
        rep.check(tab[0] == 0, "C07-R2", "FIELD_NORMS_TABLE[0] == 0", "first=%d" % tab[0], "first entry is %d: fieldnorm 0 has no code" % tab[0])
        bad = [i for i in range(1, len(tab)) if tab[i] <= tab[i - 1]]
        rep.check(not bad, "C07-R2", "FIELD_NORMS_TABLE is strictly increasing", "max=%d" % tab[-1],
                  "FIELD_NORMS_TABLE is not strictly increasing at index %s: the binary search in fieldnorm_to_id returns a wrong id" % bad[:3])
    f2i = get_body(rep, prog, "C07-R2", "tantivy::fieldnorm::code::fieldnorm_to_id")
    if f2i is not None:
        bs = [t for _, t in f2i.calls() if "binary_search" in t.get("f", "")]
        rep.check(bool(bs), "C07-R2", "fieldnorm_to_id is a binary search over the table", "%d binary_search call(s)" % len(bs), "fieldnorm_to_id no longer binary-searches FIELD_NORMS_TABLE (monotonicity rule may be obsolete)", site=f2i.span)
