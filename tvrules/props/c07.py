"""C07 — the inverted index records exactly terms/docs/freqs/positions: only the code tables."""
from .. import codetab as ct
from ..rules import get_body, short, site
from ..model import op_place, op_local, place_local, is_bare, trace_back, provenance

T = "tantivy::schema::field_type::Type"


def r7(rep, prog):
    """a term handed to the postings writer fits the key of the term hash map"""
    import re
    from ..rules import dominating_guards, closure_capture
    R = "C07-R7"
    rep.rule(R, "no term is silently cut: the in-memory term index keys its entries by the serialized term (field id, type, JSON path, value bytes) and truncates keys to u16::MAX bytes — two terms that share their first 65535 bytes become one, with merged postings, and lookups with the real term find nothing. So wherever a variable-length value is put into the term buffer and subscribed (the token callback of PostingsWriter::index_text, shared by text and JSON fields; the bytes arm of SegmentWriter::index_document), a length test dominates the subscribe; and in index_text, where the buffer already holds a prefix of varying length (a JSON path), that test involves the length of the prefix (IndexingTerm::len_bytes), not only the token's")
    VAR = re.compile(r"indexing_term::IndexingTerm::(append_bytes|set_bytes|append_type_and_str|set_text|append_str)$")
    SUB = re.compile(r"::subscribe$")
    LEN = re.compile(r"::len$|IndexingTerm::len_bytes$")
    n = 0
    for fid, b in sorted(prog.bodies.items()):
        if "::tests::" in fid or b.kind in ("const", "static", "promoted") or not fid.lstrip("<").startswith("tantivy::"):
            continue
        vs = [(bi, t) for bi, t in b.calls() if VAR.search(t.get("f") or "")]
        ss = [bi for bi, t in b.calls() if SUB.search(t.get("f") or "") and "PostingsWriter" in (t.get("f") or "")]
        if not vs or not ss:
            continue
        for vb, vt in vs:
            subs = [x for x in ss if x in b.reachable((vb,))]
            if not subs:
                continue
            n += 1
            has_len_guard = False
            involves_prefix = False
            for sb, through, gl in dominating_guards(b, vb):
                lv = provenance(b, gl)
                calls = {x[1] for x in lv if x[0] == "call"}
                if any(LEN.search(c) for c in calls) or any(x[0] == "param" for x in lv) and any(x[0] in ("const", "uneval") for x in lv):
                    if any(LEN.search(c) for c in calls):
                        has_len_guard = True
                    if any(c.endswith("IndexingTerm::len_bytes") for c in calls):
                        involves_prefix = True
                    # captured values of a closure: follow them into the enclosing function
                    if "{closure" in fid:
                        for x in lv:
                            pass
                        tr_fields = [y for y in trace_back(b, gl) if y[0] == "field"]
                if "{closure" in fid and not involves_prefix:
                    # any captured upvar in the condition that derives from len_bytes in the parent
                    work = [gl]
                    seen = set()
                    while work:
                        l = work.pop()
                        if l in seen:
                            continue
                        seen.add(l)
                        for df in b.defs().get(l, []):
                            if df[0] == "stmt":
                                st = df[3]
                                srcs = [st.get("p")] if st.get("r") in ("ref", "discr") else [op_place(o) for o in st.get("o", [])]
                                for pl in srcs:
                                    if pl is None:
                                        continue
                                    from ..model import place_proj
                                    pj = place_proj(pl)
                                    if place_local(pl) == 1 and pj:
                                        idxs = [e for e in pj if isinstance(e, str) and e.startswith("f:")]
                                        if idxs:
                                            k = int(idxs[0].split(":")[1])
                                            cap = closure_capture(prog, fid, k)
                                            if cap is not None and op_local(cap[1]) is not None:
                                                plv = provenance(cap[0], op_local(cap[1]))
                                                arith = tuple(y[1] for y in plv if y[0] == "call" and re.search(r"::(saturating_sub|checked_sub|wrapping_sub|min|max)$", y[1]))
                                                if arith:
                                                    plv = provenance(cap[0], op_local(cap[1]), extra_transparent=arith)
                                                if any(y[0] == "call" and y[1].endswith("IndexingTerm::len_bytes") for y in plv):
                                                    involves_prefix = True
                                    else:
                                        work.append(place_local(pl))
                            elif df[0] == "call":
                                for o in df[2].get("args", []):
                                    if op_local(o) is not None:
                                        work.append(op_local(o))
            needs_prefix = (vt.get("f") or "").endswith("append_bytes")
            ok = has_len_guard and (involves_prefix or not needs_prefix)
            rep.check(ok, R, "%s: the value put into the term by %s fits the hash-map key" % (short(fid), (vt.get("f") or "").split("::")[-1]),
                      "length test%s dominates the subscribe" % (" involving the prefix length" if needs_prefix else ""),
                      "`%s` puts a variable-length value into the term buffer (%s) and subscribes it %s: the term index cuts keys at 65535 bytes, so long values that share a prefix are merged into one term "
                      "(two JSON strings sharing 65526 bytes: one term with doc_freq 2; two 70000-byte values of a bytes field: one term) and cannot be found by the real term"
                      % (fid, (vt.get("f") or "").split("::")[-1], "after a length test that ignores the prefix already in the buffer (field id, type, JSON path)" if has_len_guard else "without any length test"), site=site(b, vb))
    rep.floor(R, "variable-length term sites followed by a subscribe", n, 2)


CURSOR_CONFIG = {
    ("postings::block_segment_postings::BlockSegmentPostings", "requested_option"):
        "what the user asked for when the cursor was opened (added by the F47 repair); reset() keeps it and re-derives freq_reading_option from it for the new term",
}


def _depends_on_param(body, local, limit=300):
    """does the value of `local` depend on a parameter of the function — through data (statement operands,
    call arguments) or, for locals with several definitions, through the switches that choose among them"""
    from ..rules import dominating_guards
    seen, work = set(), [local]
    defs = body.defs()
    while work and len(seen) < limit:
        l = work.pop()
        if l in seen:
            continue
        seen.add(l)
        if 1 <= l <= body.argc:
            return True
        ds = defs.get(l, [])
        for d in ds:
            if d[0] == "call":
                for o in d[2].get("args", []):
                    if op_local(o) is not None:
                        work.append(op_local(o))
            else:
                st = d[3]
                if st.get("r") in ("ref", "rawptr", "discr") and "p" in st:
                    work.append(place_local(st["p"]))
                for o in st.get("o", []):
                    if op_local(o) is not None:
                        work.append(op_local(o))
            if len(ds) > 1:
                for sb, through, gl in dominating_guards(body, d[1]):
                    work.append(gl)
    return False


def r6(rep, prog):
    """a cursor that is reset on another term forgets everything that depended on the previous term"""
    import re
    from ..mergecov import Aliases, fmt_path
    R = "C07-R6"
    rep.rule(R, "constructor / reset agreement of the posting cursors: BlockSegmentPostings and SkipReader can be re-pointed at another term (`reset`, reached through the public InvertedIndexReader::reset_block_postings_from_terminfo). The layout of a posting list is decided per term (a JSON field stores numeric terms without frequencies — 5-byte skip entries — and text terms with them), so every field that the constructor (`open` / `new`) derives from its parameters must also be assigned by `reset` (directly or through a method of self it calls); a field that only the constructor sets keeps the previous term's layout: wrong skip entry size, stale term frequencies, out-of-bounds panics")
    PAIRS = [("tantivy::postings::block_segment_postings::BlockSegmentPostings", "open", "reset"),
             ("tantivy::postings::skip::SkipReader", "new", "reset")]
    n = 0
    for ty, ctor, rst in PAIRS:
        cb = get_body(rep, prog, R, "%s::%s" % (ty, ctor))
        rb = get_body(rep, prog, R, "%s::%s" % (ty, rst))
        if cb is None or rb is None:
            continue
        # fields of the struct literal in the constructor and whether their value depends on a parameter
        dep = {}
        for bi in cb.normal_blocks():
            for st in cb.stmts(bi):
                if st.get("r") == "agg" and st.get("adt") == ty and "fields" in st:
                    for fld, o in zip(st["fields"], st.get("o", [])):
                        l = op_local(o)
                        d = _depends_on_param(cb, l) if l is not None else False
                        dep[fld] = d
        if not rep.check(bool(dep), R, "%s::%s builds the struct by literal" % (short(ty), ctor), "%d fields" % len(dep), "cannot establish: no struct literal of %s in %s" % (ty, ctor), site=cb.span):
            continue
        # fields reset() stores into, including through methods of self
        memo = {}

        def writes(fid, depth=0):
            if fid in memo:
                return memo[fid]
            memo[fid] = set()
            b = prog.bodies.get(fid)
            if b is None:
                return set()
            al = Aliases(b, {1: "self"})
            out = {u[2][0][1] for u in al.uses() if u[1] == "self" and u[0] in ("w", "rw") and u[2] and u[4] == "store"}
            for bi, t in b.calls():
                f = t.get("res") or t.get("f") or ""
                if not t.get("args"):
                    continue
                r = al.resolve(op_place(t["args"][0]))
                if r and r[0] == "self" and depth < 3:
                    if r[1] == () and f in prog.bodies:
                        out |= writes(f, depth + 1)
                    elif r[1] and f.endswith("::reset"):
                        out.add(r[1][0][1])      # a sub-object that is itself reset
            memo[fid] = out
            return out
        wr = writes("%s::%s" % (ty, rst))
        for fld, depends in sorted(dep.items()):
            if not depends:
                continue
            if (short(ty), fld) in CURSOR_CONFIG:
                rep.ok(R, "%s.%s is configuration of the cursor, not of the term" % (short(ty), fld), CURSOR_CONFIG[(short(ty), fld)])
                continue
            n += 1
            rep.check(fld in wr, R, "%s::%s re-derives `%s`" % (short(ty), rst, fld), "assigned by the constructor from its parameters and by reset",
                      "%s::%s computes `%s` from its parameters, %s::%s never assigns it: a cursor re-pointed at a term with another layout (numeric vs text term of a JSON field, or any term after "
                      "BlockSegmentPostings::empty()) keeps the previous term's `%s` — skip entries are read with the wrong size and stale term frequencies survive (panics `Compressed array seems too small`, "
                      "slice out of range, or tf 3 where a fresh cursor gives 1)" % (short(ty), ctor, fld, short(ty), rst, fld), site=rb.span)
    rep.floor(R, "parameter-dependent constructor fields compared", n, 6)


def r5(rep, prog):
    """the values of one field are analysed in the order the document yields them"""
    import re
    R = "C07-R5"
    rep.rule(R, "order of the values of a field: token positions of a multi-valued field continue from value to value (R3), so the values must reach the analyser in document order. Between Document::iter_fields_and_values and the postings writer, SegmentWriter::add_document / index_document (closures included) and what they reach in indexer::segment_writer, core::json_utils and postings::{postings_writer, json_postings_writer} never pass the values through slice::sort_unstable* / select_nth_unstable*: grouping by field needs a stable sort, an unstable one returns the values of one field in arbitrary order")
    ents = [n for n in prog.bodies if re.search(r"^tantivy::indexer::segment_writer::SegmentWriter::(add_document|index_document)(::\{closure#\d+\})*$", n)]
    if not rep.check(len(ents) >= 3, R, "anchor SegmentWriter::{add_document, index_document}", "%d bodies" % len(ents), "cannot establish: SegmentWriter::add_document / index_document not found"):
        return
    MODS = ("tantivy::indexer::segment_writer::", "tantivy::core::json_utils::", "tantivy::postings::postings_writer::", "tantivy::postings::json_postings_writer::")
    scope = lambda y: y.lstrip("<").startswith(MODS) or any(m in y for m in MODS)
    reach = prog.reachable_bodies(ents, scope=scope) | set(ents)
    BAD = re.compile(r"::(sort_unstable(_by(_key)?)?|select_nth_unstable(_by(_key)?)?)$")
    n = 0
    for fid in sorted(reach):
        b = prog.bodies[fid]
        for bi, t in b.calls():
            n += 1
            f = t.get("res") or t.get("f") or ""
            f2 = t.get("f") or ""
            if BAD.search(f) or BAD.search(f2):
                rep.fail(R, "%s reorders through %s" % (short(fid), short(f2 or f)),
                         "%s, on the path that hands a document's values to the postings writer, calls `%s`: values of the same field (equal sort keys) come back in arbitrary order, their tokens get positions "
                         "that are not those of the document (phrase queries and position gaps break for documents with many values)" % (fid, f2 or f), site=site(b, bi))
    rep.check(len(reach) >= 15, R, "indexing-path bodies examined", "%d bodies, %d calls, no unstable sort" % (len(reach), n),
              "cannot establish: only %d bodies reachable from add_document" % len(reach))


def run(rep, prog, tier):
    rep.rule("C07-R1", "schema::Type::{to_code, from_code} are mutually inverse on every variant and ALL_TYPES lists every variant exactly once")
    rep.rule("C07-R2", "fieldnorm::code::FIELD_NORMS_TABLE has 256 entries, starts at 0 and is strictly increasing (precondition of the binary search in fieldnorm_to_id, and of id_to_fieldnorm being its inverse)")
    rep.not_decided += ["everything about posting-list content, positions, term dictionaries (values)"]
    r3(rep, prog)
    r5(rep, prog)
    r6(rep, prog)
    r7(rep, prog)
    r4(rep, prog)
    tc = get_body(rep, prog, "C07-R1", T + "::to_code")
    fc = get_body(rep, prog, "C07-R1", T + "::from_code")
    variants = ct.enum_variants(prog, T)
    if tc is not None and fc is not None and rep.check(variants is not None, "C07-R1", "enum schema::Type", "found", "cannot establish: enum Type not found"):
        enc, how = ct.encode_map(prog, tc, T)
        dec, how2 = ct.decode_map(prog, fc, T)
        if rep.check(enc is not None and dec is not None, "C07-R1", "Type code functions readable", "%s / %s" % (how, how2),
                     "cannot read the code tables off Type::to_code / from_code (%s / %s)" % (how, how2), site=tc.span):
            ct.check_inverse(rep, "C07-R1", "schema::Type", enc, dec, variants, site=fc.span)
        arr = ct.const_array_variants(prog, "tantivy::schema::field_type::ALL_TYPES", T)
        rep.check(arr is not None and sorted(arr) == sorted(variants) and len(set(arr)) == len(arr), "C07-R1", "ALL_TYPES lists every Type variant once",
                  "%d entries" % len(arr or []), "ALL_TYPES %s does not list every variant of Type %s exactly once" % (arr, sorted(variants)))
    tab = ct.const_int_array(prog, "tantivy::fieldnorm::code::FIELD_NORMS_TABLE")
    if rep.check(tab is not None, "C07-R2", "FIELD_NORMS_TABLE readable", "constant array", "cannot establish: FIELD_NORMS_TABLE not found as a constant array"):
        rep.check(len(tab) == 256, "C07-R2", "FIELD_NORMS_TABLE has 256 entries", "len=%d" % len(tab), "FIELD_NORMS_TABLE has %d entries, one per u8 code is required" % len(tab))
        rep.check(tab[0] == 0, "C07-R2", "FIELD_NORMS_TABLE[0] == 0", "first=%d" % tab[0], "first entry is %d: fieldnorm 0 has no code" % tab[0])
        bad = [i for i in range(1, len(tab)) if tab[i] <= tab[i - 1]]
        rep.check(not bad, "C07-R2", "FIELD_NORMS_TABLE is strictly increasing", "max=%d" % tab[-1],
                  "FIELD_NORMS_TABLE is not strictly increasing at index %s: the binary search in fieldnorm_to_id returns a wrong id" % bad[:3])
    f2i = get_body(rep, prog, "C07-R2", "tantivy::fieldnorm::code::fieldnorm_to_id")
    if f2i is not None:
        bs = [t for _, t in f2i.calls() if "binary_search" in t.get("f", "")]
        rep.check(bool(bs), "C07-R2", "fieldnorm_to_id is a binary search over the table", "%d binary_search call(s)" % len(bs), "fieldnorm_to_id no longer binary-searches FIELD_NORMS_TABLE (monotonicity rule may be obsolete)", site=f2i.span)


def r3(rep, prog):
    """position state that spans the values of one field of one document is reset per field, not per value"""
    from ..rules import innermost_loop
    from ..mergecov import Aliases
    R = "C07-R3"
    rep.rule(R, "position state spans the values of a field: in SegmentWriter::index_document (a) json_positions_per_path is cleared outside the loop over the JSON values of the field (index_json_value relies on it to place the next value of the same path after the previous one plus the position gap), and (b) the IndexingPosition of a text field — whose num_tokens is recorded as the field norm — is created outside the loop over the field's values; resetting either per value makes the terms of different values of one document overlap in position space (phrase queries match across values) and, for text, records the length of the last value only")
    fid = "tantivy::indexer::segment_writer::SegmentWriter::index_document"
    b = get_body(rep, prog, R, fid)
    if b is None:
        return
    al = Aliases(b, {1: "self"})
    # (a) JSON
    ij = [bi for bi, t in b.calls() if (t.get("res") or t.get("f") or "").endswith("json_utils::index_json_value")]
    clears = []
    for bi, t in b.calls():
        f = t.get("res") or t.get("f") or ""
        if f.endswith("IndexingPositionsPerPath::clear") and t.get("args"):
            r = al.resolve(op_place(t["args"][0]))
            if r and r[1][:1] == (("f", "json_positions_per_path"),):
                clears.append(bi)
    if rep.check(len(ij) >= 1 and len(clears) >= 1, R, "index_document: anchors of the JSON arm", "%d index_json_value call(s), %d clear(s) of json_positions_per_path" % (len(ij), len(clears)),
                 "cannot establish: index_json_value or the clear of json_positions_per_path not found in index_document", site=b.span):
        for jb in ij:
            lp = innermost_loop(b, jb)
            inside = [c for c in clears if c in lp]
            rep.check(bool(lp) and not inside, R, "json_positions_per_path is not cleared inside the loop over the JSON values", "cleared before the loop",
                      "index_document clears json_positions_per_path inside the loop over the values of a JSON field: the positions of the second value of a path restart at 0 and overlap those of the first",
                      site=site(b, inside[0]) if inside else site(b, jb))
            # (a') per field: once the loop over one field's values is left, the next index_json_value
            # (another JSON field of the same document: path ids are shared by all JSON fields of the
            # segment) is reached only through a clear
            if lp:
                exits = tuple(sorted({s for x in lp for s in b.succ(x) if s not in lp}))
                again = b.reachable(exits, blocked=frozenset(clears)) if exits else set()
                rep.check(jb not in again, R, "json_positions_per_path is cleared between two JSON fields of a document", "every path from the exit of the loop over one field's values to the next index_json_value crosses the clear",
                          "index_document reaches index_json_value for a second JSON field of the same document without clearing json_positions_per_path: a path shared by two JSON fields continues the first field's positions in the second",
                          site=site(b, jb))
    # (b) text: the IndexingPosition given to index_text and read for the field norm
    IT = [(bi, t) for bi, t in b.calls() if (t.get("f") or "").endswith("PostingsWriter::index_text")]
    rec = [(bi, t) for bi, t in b.calls() if (t.get("res") or t.get("f") or "").endswith("FieldNormsWriter::record")]
    norm_locals = set()
    for bi, t in rec:
        for a in t.get("args", []):
            l = op_local(a)
            if l is None:
                continue
            tr = trace_back(b, l)
            if any(s[0] == "field" and s[2] == "num_tokens" for s in tr):
                # the local that owns the field
                cur = l
                for _ in range(6):
                    ds = b.defs().get(cur, [])
                    if len(ds) != 1 or ds[0][0] != "stmt":
                        break
                    o = (ds[0][3].get("o") or [None])[0]
                    pl = op_place(o) if o is not None else None
                    if pl is None:
                        break
                    cur = place_local(pl)
                    if not is_bare(pl):
                        break
                norm_locals.add(cur)
    n = 0
    for bi, t in IT:
        if len(t.get("args", [])) < 6:
            continue
        pl = op_place(t["args"][5])
        if pl is None:
            continue
        tr = trace_back(b, place_local(pl))
        # &mut L
        L = place_local(pl)
        for _ in range(6):
            ds = b.defs().get(L, [])
            if len(ds) == 1 and ds[0][0] == "stmt" and ds[0][3].get("r") in ("ref", "rawptr"):
                L = place_local(ds[0][3]["p"])
            elif len(ds) == 1 and ds[0][0] == "stmt" and ds[0][3].get("r") == "use" and op_place(ds[0][3]["o"][0]) is not None:
                L = place_local(op_place(ds[0][3]["o"][0]))
            else:
                break
        if L is None or L not in norm_locals:
            continue
        n += 1
        lp = innermost_loop(b, bi)
        inits = [d[1] for d in b.defs().get(L, [])]       # every assignment of the whole value
        inside = [x for x in inits if x in lp]
        rep.check(bool(lp) and bool(inits) and not inside, R, "the text field's IndexingPosition is created outside the loop over its values", "Default::default() before the loop; num_tokens recorded after it",
                  "index_document re-creates the IndexingPosition of a text field inside the loop over the field's values: positions of the values overlap and the field norm counts the last value only",
                  site=site(b, inside[0]) if inside else site(b, bi))
    rep.floor(R, "text-field index_text sites whose position feeds the field norm", n, 1)


def r4(rep, prog):
    """a token is counted iff it is indexed"""
    R = "C07-R4"
    rep.rule(R, "counted iff indexed: in the token callback of PostingsWriter::index_text the per-value token counter (a captured counter incremented by the constant 1; it becomes the field norm and must agree with the number of postings written, i.e. with total_num_tokens) is incremented on exactly the paths that hand the token to PostingsWriter::subscribe — a token skipped by the length filter is neither indexed nor counted")
    fid = "tantivy::postings::postings_writer::PostingsWriter::index_text::{closure#0}"
    b = get_body(rep, prog, R, fid)
    if b is None:
        return
    subs = [bi for bi, t in b.calls() if (t.get("f") or "").endswith("PostingsWriter::subscribe")]
    incs = []
    for bi in b.normal_blocks():
        for st in b.stmts(bi):
            if st.get("r") == "bin" and st.get("op") in ("AddWithOverflow", "Add") and len(st.get("o", [])) == 2:
                o0, o1 = st["o"]
                p0 = op_place(o0)
                if p0 is not None and not is_bare(p0) and "*" in p0["p"] and op_place(o1) is None and str(o1.get("v")) == "1":
                    # the dereferenced pointer comes from the closure environment
                    tr = trace_back(b, place_local(p0))
                    if tr and tr[-1] == ("param", 1):
                        incs.append(bi)
    if not rep.check(len(subs) == 1 and len(incs) == 1, R, "index_text callback: anchors", "one subscribe call, one captured counter incremented by 1",
                     "cannot establish: expected one subscribe call and one `captured += 1` in the token callback of index_text, found %d / %d" % (len(subs), len(incs)), site=b.span):
        return
    S, N = subs[0], incs[0]
    rets = b.return_blocks()
    # counted but not indexed: entry -> N avoiding S, and N -> exit avoiding S
    pre = b.reachable((0,), blocked=frozenset({S}))
    post = b.reachable(tuple(b.succ(N)), blocked=frozenset({S})) if N in pre else set()
    counted_not_indexed = N in pre and any(r in post or r == N for r in rets)
    indexed_not_counted = any(r in b.reachable(tuple(b.succ(S)), blocked=frozenset({N})) for r in rets) and N not in b.reachable((0,), blocked=frozenset({S}))
    rep.check(not counted_not_indexed, R, "a token that is not handed to subscribe is not counted", "the counter increment is only reachable after subscribe",
              "the token callback of index_text counts a token (num_tokens += 1) on a path that never hands it to subscribe: tokens dropped by the length filter inflate the field norm, "
              "which no longer equals the number of postings of the document", site=site(b, N))
    rep.check(not indexed_not_counted, R, "a token handed to subscribe is counted", "every path from subscribe to the exit increments the counter",
              "the token callback of index_text indexes a token without counting it", site=site(b, S))


def _dominates(b, a, x):
    """every path from entry to block x passes block a"""
    return x not in b.reachable((0,), blocked=frozenset({a})) or a == x
