"""C09 — stored documents are returned exactly: only the code tables of the doc store."""
from .. import codetab as ct
from ..rules import get_body, short, calls_to, site
from ..model import Ev, must_precede, op_local, op_place, trace_back, provenance, place_local

D = "tantivy::store::decompressors::Decompressor"
SE = "tantivy::schema::document::se::BinaryValueSerializer::<'se, W>::"
DE = "tantivy::schema::document::de::BinaryValueDeserializer::<'de, R>::from_reader"
TC = "tantivy::schema::document::type_codes::"


def run(rep, prog, tier):
    rep.rule("C09-R1", "Decompressor::{get_id, from_id} are mutually inverse; From<Compressor> for Decompressor is total and injective; DOC_STORE_VERSION is accepted by DocStoreFooter::deserialize")
    rep.rule("C09-R2", "document value codec: every type code the serializer writes (base and extended namespace) is accepted by the deserializer's decode switch; the type_codes constants are pairwise distinct per namespace")
    rep.not_decided += ["skip index, block cache, compression, nested value content (values)"]
    r1(rep, prog)
    r2(rep, prog)
    r3(rep, prog)
    r4(rep, prog)
    r5(rep, prog)
    r6(rep, prog)
    r7(rep, prog)
    r8(rep, prog)


def r8(rep, prog):
    """a merge copies stored documents as bytes only between stores of the same format"""
    import re
    R = "C09-R8"
    rep.rule(R, "raw copies only between equal formats: IndexMerger::write_storable_fields copies stored documents as bytes (StoreWriter::store_bytes) or whole compressed blocks (StoreWriter::stack), and the merged store's footer always says the current format. The source may be a store written by an older release (V1: dates in microseconds; V2: nanoseconds): each raw copy must therefore be preceded, on every path, by a call that looks at the SOURCE store's doc_store_version (a guard, or a helper that re-encodes old documents); otherwise a merge silently reinterprets the stored dates of an old segment (x1000 too small)")
    fid = "tantivy::indexer::merger::IndexMerger::write_storable_fields"
    b = get_body(rep, prog, R, fid)
    if b is None:
        return
    RAW = re.compile(r"store::writer::StoreWriter::(store_bytes|stack)$")
    raws = [(bi, t) for bi, t in b.calls() if RAW.search(t.get("f") or "")]
    if not rep.check(len(raws) >= 2, R, "raw copy sites in write_storable_fields", "%d" % len(raws), "cannot establish: write_storable_fields has %d store_bytes / stack sites" % len(raws), site=b.span):
        return
    # callees that read the source reader's version (directly or one level down)
    VERS = set()
    for n2, b2 in prog.bodies.items():
        if n2.lstrip("<").startswith("tantivy::store::reader::StoreReader::") and "{closure" not in n2:
            al_fields = [x for bi2 in b2.normal_blocks() for st in b2.stmts(bi2) for x in proj_fields_of(st)]
            if "doc_store_version" in al_fields and not n2.endswith(("::open", "::get", "::iter")):
                VERS.add(n2)
    looks = [Ev(bi, "term") for bi, t in b.calls() if (t.get("res") or t.get("f") or "") in VERS]
    for bi, t in raws:
        bad = must_precede(b, looks, [Ev(bi, "term")]) if looks else [1]
        rep.check(not bad, R, "%s at bb%d happens after the source store's format was looked at" % ((t.get("f") or "").split("::")[-1], bi), "%d version-reading call(s) precede it" % len(looks),
                  "IndexMerger::write_storable_fields copies stored documents with %s without ever looking at the doc_store_version of the source StoreReader: the merged store is stamped with the current version, so the "
                  "documents of a segment written in the older format are reinterpreted — the stored date 00:00:00.000123 of tests/compat_tests_data/index_v6 reads 00:00:00.000000123 after a merge" % (t.get("f") or "").split("::")[-1], site=site(b, bi))


def proj_fields_of(st):
    """field names read or written by one MIR statement (projections of its places)"""
    out = []
    from ..model import proj_fields
    for pl in [st.get("d"), st.get("p")] + [op_place(o) for o in st.get("o", [])]:
        if pl is None or isinstance(pl, int):
            continue
        try:
            out += [f[1] for f in proj_fields(pl)]
        except Exception:
            pass
    return out


def r7(rep, prog):
    """every way of reading a stored document decodes it with the version the store was written with"""
    R = "C09-R7"
    rep.rule(R, "one version source for every read path: the doc store footer records the format version of its documents (V1 stores dates in microseconds, V2 in nanoseconds); StoreReader keeps it in `doc_store_version`. Every BinaryDocumentDeserializer::from_reader in store::reader — get (by address), iter (sequential), the async variants — takes its version argument from that field, never from a constant: a sibling that decodes with the crate's current version reads the dates of an older store 1000 times too small, and disagrees with the by-address path on the same document")
    n = 0
    for fid, b in sorted(prog.bodies.items()):
        if not fid.lstrip("<").startswith("tantivy::store::reader::") or "::tests::" in fid or b.kind in ("const", "static", "promoted"):
            continue
        for bi, t in b.calls():
            f = t.get("res") or t.get("f") or ""
            if not f.endswith("BinaryDocumentDeserializer::<'de, R>::from_reader") and not f.endswith("BinaryDocumentDeserializer::from_reader") and "BinaryDocumentDeserializer" not in f:
                continue
            if not f.endswith("from_reader") or len(t.get("args", [])) < 2:
                continue
            n += 1
            l = op_local(t["args"][1])
            tr = trace_back(b, l) if l is not None else [("const", t["args"][1].get("v") if isinstance(t["args"][1], dict) else "?")]
            ok = any(x[0] == "field" and x[2] == "doc_store_version" for x in tr)
            if not ok and "{closure" in fid and tr and tr[-1] == ("param", 1):
                # a value captured by the closure: follow it into the enclosing function
                from ..rules import closure_capture
                idx = next((x[1] for x in tr if x[0] == "field"), None)
                cap = closure_capture(prog, fid, idx) if idx is not None else None
                if cap is not None and op_local(cap[1]) is not None:
                    tr2 = trace_back(cap[0], op_local(cap[1]))
                    ok = any(x[0] == "field" and x[2] == "doc_store_version" for x in tr2)
            rep.check(ok, R, "%s decodes with the store's own version" % short(fid), "version <- self.doc_store_version",
                      "`%s` hands BinaryDocumentDeserializer::from_reader a version that is not the StoreReader's doc_store_version (%s): documents of a store written by an older release are decoded with the wrong "
                      "layout on this read path only (stored dates of a V1 store come out 1000x too small through iter, while Searcher::doc returns them right)" % (fid, tr[:2]), site=site(b, bi))
    rep.floor(R, "document deserialisation sites in store::reader", n, 2)


def r6(rep, prog):
    """a decoded length prefix decides exactly how much is read"""
    import re
    R = "C09-R6"
    rep.rule(R, "length prefixes are honoured: in the codecs of stored values (common::serialize, common::vint, schema::document::de) a length decoded by VInt::val that sizes a read — the limit of Read::take, the size of a buffer handed to Read::read_exact / read, the end of the `0..n` loop over the elements, the length kept by an array / object access — reaches that use through casts only, never through min / max / clamp / saturating arithmetic (only the capacity hint of with_capacity may be capped): a capped read returns a truncated value and leaves the reader in the middle of the payload, so every later value of the document is decoded from the wrong bytes")
    CLAMP = re.compile(r"(::cmp::(min|max|Ord::min|Ord::max|Ord::clamp|min_by|max_by)$|::(saturating_sub|saturating_add|saturating_mul|wrapping_sub|wrapping_add|clamp|min|max)$)")
    VAL = re.compile(r"tantivy_common::vint::(VInt::val|read_u32_vint|read_u32_vint_no_advance)$|VInt::deserialize_u64$")
    TAKE = re.compile(r"std::io::Read::take$")
    RDX = re.compile(r"std::io::Read::(read_exact|read)$")
    FROM_ELEM = re.compile(r"alloc::vec::from_elem$|alloc::vec::Vec::<.*>::resize$|alloc::vec::Vec::<.*>::set_len$")
    n_sinks = 0
    n_bodies = 0
    for b in prog.bodies.values():
        if b.kind in ("const", "static", "promoted") or "::tests::" in b.id or "::test::" in b.id:
            continue
        if not b.span.startswith(("common/src/serialize.rs", "common/src/vint.rs", "src/schema/document/de.rs")):
            continue
        n_bodies += 1
        sinks = []  # (block, what, local)
        for bi, t in b.calls():
            f = t.get("res") or t.get("f") or ""
            f2 = t.get("f") or ""
            if TAKE.search(f) or TAKE.search(f2):
                l = op_local(t["args"][1])
                if l is not None:
                    sinks.append((bi, "the limit of Read::take", l))
            elif FROM_ELEM.search(f) or FROM_ELEM.search(f2):
                l = op_local(t["args"][1])
                if l is not None:
                    sinks.append((bi, "the size of the buffer (%s)" % short(f2 or f), l))
        for bi in b.normal_blocks():
            for st in b.stmts(bi):
                if st.get("r") == "agg" and str(st.get("adt", "")).endswith("ops::range::Range") and len(st.get("o", [])) == 2:
                    l = op_local(st["o"][1])
                    if l is not None:
                        sinks.append((bi, "the end of a `start..n` range", l))
                elif st.get("r") == "agg" and st.get("ak") == "adt" and "fields" in st:
                    for fld, o in zip(st["fields"], st.get("o", [])):
                        if fld in ("length", "len", "num_items", "num_elements") and op_local(o) is not None:
                            sinks.append((bi, "the field `%s` of %s" % (fld, short(st.get("adt", "?"))), op_local(o)))
        for bi, what, l in sinks:
            lv = provenance(b, l)
            calls = {x[1] for x in lv if x[0] == "call"}
            clamps = [c for c in calls if CLAMP.search(c)]
            through = {x[1] for x in provenance(b, l, extra_transparent=clamps) if x[0] == "call"} if clamps else calls
            if not any(VAL.search(c) for c in through):
                continue
            n_sinks += 1
            cl = sorted(c for c in calls if CLAMP.search(c))
            rep.check(not cl, R, "decoded length in %s reaches %s unclamped" % (short(b.id), what), "through casts only",
                      "`%s` decodes a length prefix and passes it through %s before it becomes %s: the read stops short of the payload that was written (values longer than the cap come back truncated, "
                      "the bytes left over are parsed as the next value)" % (b.id, [short(c) for c in cl], what), site=site(b, bi))
    rep.floor(R, "codec bodies scanned", n_bodies, 60)
    rep.floor(R, "uses of a decoded length that size a read", n_sinks, 4)


def r4(rep, prog):
    """the document serializer writes the stored values in the order the document yields them"""
    import re
    R = "C09-R4"
    rep.rule(R, "order of stored values: between Document::iter_fields_and_values and the bytes written, the document serializer (BinaryDocumentSerializer::serialize_doc and everything it reaches inside schema::document) never passes the values through an order-destroying primitive — slice::sort_unstable* / select_nth_unstable* (equal keys, i.e. several values of one field, come back in arbitrary order) or a hash container; a stable sort or no sort keeps 'several values per field in order'")
    entry = SE.replace("BinaryValueSerializer", "BinaryDocumentSerializer") + "serialize_doc"
    if entry not in prog.bodies:
        cands = prog.names(r"BinaryDocumentSerializer::<.*>::serialize_doc$")
        entry = cands[0] if cands else entry
    if entry not in prog.bodies:
        rep.fail(R, "anchor", "cannot establish: BinaryDocumentSerializer::serialize_doc not found")
        return
    scope = lambda y: "tantivy::schema::document" in y
    reach = prog.reachable_bodies([entry], scope=scope) | {n for n in prog.bodies if n.startswith(entry + "::{closure")}
    BAD = re.compile(r"::(sort_unstable(_by(_key)?)?|select_nth_unstable(_by(_key)?)?)$|collections::hash::(map::HashMap|set::HashSet)<.*>::(from_iter|insert|extend)$|HashMap::<.*>::(insert|entry)$")
    n = 0
    for fid in sorted(reach):
        b = prog.bodies[fid]
        for bi, t in b.calls():
            n += 1
            f = t.get("res") or t.get("f") or ""
            f2 = t.get("f") or ""
            if BAD.search(f) or BAD.search(f2):
                rep.fail(R, "%s reorders through %s" % (short(fid), short(f2 or f)),
                         "%s, on the path that serialises a document for the doc store, calls `%s`: the relative order of the values of one field is no longer the order in which they were added "
                         "(an unstable sort keeps no order between equal keys)" % (fid, f2 or f), site=site(b, bi))
    rep.check(len(reach) >= 5, R, "serializer bodies examined", "%d bodies, %d calls, no order-destroying primitive" % (len(reach), n),
              "cannot establish: only %d bodies reachable from serialize_doc" % len(reach), site=prog.bodies[entry].span)



def r5(rep, prog):
    """the dedicated compressor thread's io::Result reaches whoever closes the store"""
    from .. import errfate
    R = "C09-R5"
    rep.rule(R, "the doc store's compressor thread cannot fail silently: every JoinHandle<io::Result<()>>::join in store::store_compressor takes the thread's own Result out of join()'s Ok payload and returns / `?`-propagates it (a close() that only reports panics publishes a .store file whose tail — last blocks, skip index, footer — was never written)")
    n = 0
    for fid in sorted(prog.bodies):
        if not fid.startswith("tantivy::store::store_compressor::"):
            continue
        b = prog.bodies[fid]
        for bi, fates in errfate.join_inner_fates(prog, b):
            n += 1
            bad = sorted(x for x in fates if x not in ("checked", "returned", "passed"))
            rep.check(not bad, R, "%s propagates the compressor thread's Result" % short(fid), "fate: %s" % sorted(fates),
                      "`%s` joins the compressor thread but its io::Result is %s: an I/O error while the thread wrote the tail of the .store file is lost and the store is published truncated" % (fid, bad), site=site(b, bi))
    rep.floor(R, "joins of the compressor thread", n, 1)



def r3(rep, prog):
    """merging the store: blocks of a source segment may be copied verbatim (stacked) only when the
    segment has no deleted / filtered documents"""
    R = "C09-R3"
    rep.rule(R, "verbatim stacking of doc-store blocks happens only for source segments without deletes: every call to StoreWriter::stack is reachable only through the false arm of a test of SegmentReader::has_deletes() (or alive_bitset().is_none()) on the same reader; all other documents are copied one by one through iter_raw(alive_bitset)")
    STACK = {"tantivy::store::writer::StoreWriter::stack"}
    sites_ = prog.who_calls(STACK)
    rep.floor(R, "call sites of StoreWriter::stack", len(sites_), 1)
    HD = {"tantivy::index::segment_reader::SegmentReader::has_deletes"}
    for body, bi, t in sites_:
        ok = False
        why = "no has_deletes() test controls the stacking"
        for b, ht in body.calls():
            if not (prog.call_targets(ht) & HD):
                continue
            # the switch on (a copy of) the result
            dest = place_local(ht["dest"])
            for sb in body.normal_blocks():
                tt = body.term(sb)
                if tt["k"] != "switch" or op_local(tt["on"]) is None:
                    continue
                src = trace_back(body, op_local(tt["on"]))
                if not (src and src[-1][0] == "call" and src[-1][2] == b):
                    continue
                arms = dict((v, tg) for v, tg in tt["vals"])
                false_t = arms.get("0")
                true_ts = [tg for v, tg in tt["vals"] if v != "0"] + ([tt["else"]] if "0" in arms else [])
                if false_t is None:
                    continue
                from_true = set()
                for x in true_ts:
                    from_true |= body.reachable((x,), blocked=frozenset({sb}))
                from_false = body.reachable((false_t,), blocked=frozenset({sb}))
                if bi in from_false and bi not in from_true:
                    ok = True
                    why = "stack() is reachable only when has_deletes() is false"
                elif bi in from_true:
                    why = "stack() is reachable on the arm where has_deletes() is true"
        rep.check(ok, R, "%s stacks store blocks only for segments without deletes" % short(body.id), why,
                  "`%s` can copy doc-store blocks verbatim (StoreWriter::stack) for a segment that has deleted / filtered documents (%s): the merged store then contains documents the other structures "
                  "dropped, and every later document is fetched under the wrong id" % (body.id, why), site=site(body, bi))
    # the slow path copies through the alive bitset
    mb = prog.body("tantivy::indexer::merger::IndexMerger::write_storable_fields")
    if mb is not None:
        raws = [(b, t) for b, t in mb.calls() if t.get("f", "").endswith("StoreReader::iter_raw")]
        refs_raw = 0
        for r_ in prog.body_refs(mb):
            cb = prog.body(r_)
            if cb is not None:
                refs_raw += len([1 for _, t in cb.calls() if t.get("f", "").endswith("StoreReader::iter_raw")])
        rep.check(len(raws) + refs_raw >= 2, R, "the document-by-document path iterates through the alive bitset", "%d iter_raw(alive_bitset) site(s)" % (len(raws) + refs_raw),
                  "write_storable_fields no longer copies documents through StoreReader::iter_raw(alive_bitset)", site=mb.span)


def r1(rep, prog):
    R = "C09-R1"
    variants = ct.enum_variants(prog, D)
    eb = get_body(rep, prog, R, D + "::get_id")
    db = get_body(rep, prog, R, D + "::from_id")
    if variants is not None and eb is not None and db is not None:
        enc, how = ct.encode_map(prog, eb, D)
        dec, how2 = ct.decode_map(prog, db, D)
        if rep.check(enc is not None and dec is not None, R, "Decompressor id functions readable", "%s / %s" % (how, how2), "cannot read Decompressor::get_id / from_id (%s / %s)" % (how, how2), site=eb.span):
            ct.check_inverse(rep, R, "store::Decompressor", enc, dec, variants, site=db.span)
    # From<Compressor> for Decompressor
    fb = get_body(rep, prog, R, "<tantivy::store::decompressors::Decompressor as core::convert::From<tantivy::store::compressors::Compressor>>::from")
    CV = ct.enum_variants(prog, "tantivy::store::compressors::Compressor")
    if fb is not None and CV is not None:
        m = {}
        for b in fb.normal_blocks():
            t = fb.term(b)
            if t["k"] == "switch":
                byd = {d: n for n, d in CV.items()}
                for v, tg in t["vals"]:
                    var = ct._first_variant(fb, D, tg)
                    if var and int(v) in byd:
                        m[byd[int(v)]] = var
                rest = [n for n in CV if n not in m]
                if len(rest) == 1:
                    var = ct._first_variant(fb, D, t["else"])
                    if var:
                        m[rest[0]] = var
        rep.check(set(m) == set(CV) and len(set(m.values())) == len(m) and all(k == v for k, v in m.items()), R, "Compressor -> Decompressor is total, injective and name preserving",
                  "%s" % m, "From<Compressor> for Decompressor maps %s: a block written with one codec is read with another" % m, site=fb.span)
    # DOC_STORE_VERSION accepted
    DV = "tantivy::store::reader::DocStoreVersion"
    variants = ct.enum_variants(prog, DV)
    cb = prog.body("tantivy::store::DOC_STORE_VERSION")
    cur = None
    if cb is not None:
        for st in cb.stmts(0):
            if st.get("r") == "agg" and st.get("adt") == DV:
                cur = st["variant"]
    if rep.check(variants is not None and cur is not None, R, "DOC_STORE_VERSION readable", "DOC_STORE_VERSION = %s" % cur, "cannot establish DOC_STORE_VERSION"):
        rep.check(variants[cur] == max(variants.values()), R, "DOC_STORE_VERSION is the newest DocStoreVersion", "%s = %d" % (cur, variants[cur]),
                  "DOC_STORE_VERSION %s is not the newest variant: DocStoreFooter::deserialize panics on stores this build wrote... or newer variants are unreachable" % cur)
        ds = [b for b in prog.bodies.values() if "DocStoreVersion as tantivy_common::serialize::BinarySerializable>::deserialize" in b.id]
        if rep.check(len(ds) == 1, R, "DocStoreVersion::deserialize found", "1", "cannot establish: DocStoreVersion deserialize impl not found"):
            dec = None
            for b in ds[0].normal_blocks():
                t = ds[0].term(b)
                if t["k"] == "switch":
                    m = {}
                    for v, tg in t["vals"]:
                        var = ct._first_variant(ds[0], DV, tg)
                        if var:
                            m[int(v)] = var
                    if m:
                        dec = m
            ser = [b for b in prog.bodies.values() if "DocStoreVersion as tantivy_common::serialize::BinarySerializable>::serialize" in b.id]
            rep.check(dec is not None and all(variants.get(v) == c for c, v in dec.items()) and set(dec.values()) == set(variants), R,
                      "DocStoreVersion decode accepts exactly the enum's discriminants", "%s" % dec, "DocStoreVersion::deserialize table %s disagrees with the enum %s" % (dec, variants), site=ds[0].span)


def r2(rep, prog):
    R = "C09-R2"
    sb = get_body(rep, prog, R, SE + "serialize_value")
    db = get_body(rep, prog, R, DE)
    if sb is None or db is None:
        return
    WTC = {SE + "write_type_code", SE + "serialize_with_type_code"}
    # all bodies of the serializer that emit codes: serialize_value and its helpers in se.rs
    emitters = [b for b in prog.bodies.values() if b.span.startswith("src/schema/document/se.rs") and b.kind in ("fn", "assocfn", "closure")]
    base, ext = {}, {}
    EXT = ct.const_scalar(prog, TC + "EXT_CODE")
    for body in emitters:
        cs = [(b, t) for b, t in body.calls() if prog.call_targets(t) & WTC]
        ext_marks = [Ev(b, "term") for b, t in cs if t["args"][1].get("v") == str(EXT) and t.get("f", "").endswith("write_type_code")]
        for b, t in cs:
            o = t["args"][1]
            if "v" not in o:
                if body.id.endswith("serialize_with_type_code") or body.id.endswith("write_type_code"):
                    continue   # the helpers forward their `code` parameter
                rep.fail(R, "%s: non-constant type code" % short(body.id), "a type code that is not a compile-time constant is written", site=site(body, b))
                continue
            v = int(o["v"])
            in_ext = bool(ext_marks) and not must_precede(body, ext_marks, [Ev(b, "term")]) and not (t["args"][1].get("v") == str(EXT) and t.get("f", "").endswith("write_type_code"))
            (ext if in_ext else base).setdefault(v, []).append(site(body, b))
    rep.floor(R, "constant type codes written by the serializer", len(base) + len(ext), 12)
    # reader: first switch on the deserialized u8 = base namespace; nested switch inside the EXT arm = ext namespace
    switches = []
    for b in db.normal_blocks():
        t = db.term(b)
        if t["k"] == "switch" and len(t["vals"]) >= 1:
            src = trace_back(db, op_local(t["on"])) if op_local(t["on"]) is not None else []
            full = src
            if any(s[0] == "call" and "BinarySerializable>::deserialize" in s[1] for s in src) or any(s[0] == "downcast" for s in src):
                switches.append((b, {int(v) for v, _ in t["vals"]}))
    switches = [s for s in switches if len(s[1]) >= 1]
    big = max(switches, key=lambda s: len(s[1])) if switches else None
    if not rep.check(big is not None and len(big[1]) >= 10, R, "deserializer decode switch found", "%d base codes accepted" % (len(big[1]) if big else 0),
                     "cannot establish: the type-code switch of BinaryValueDeserializer::from_reader was not recognised", site=db.span):
        return
    rbase = big[1]
    rext = set()
    for b, vals in switches:
        if b != big[0]:
            rext |= vals
    for v, ss in sorted(base.items()):
        rep.check(v in rbase, R, "written base type code %d is decodable" % v, "accepted by from_reader", "the serializer writes type code %d, which BinaryValueDeserializer::from_reader rejects: such a value can be stored but never read back" % v, site=ss[0])
    for v, ss in sorted(ext.items()):
        rep.check(v in rext, R, "written extended type code %d is decodable" % v, "accepted by the EXT arm", "the serializer writes extended type code %d, which the deserializer rejects" % v, site=ss[0])
    rep.check(EXT in rbase, R, "EXT_CODE opens the extended namespace in the reader", "code %s" % EXT, "EXT_CODE is not accepted by the reader")
    # constants pairwise distinct per namespace
    consts = {b.id.split("::")[-1]: ct.const_scalar(prog, b.id) for b in prog.bodies.values() if b.id.startswith(TC) and b.kind == "const"}
    basec = {k: v for k, v in consts.items() if not k.endswith("_EXT_CODE")}
    dup = [k for k in basec if list(basec.values()).count(basec[k]) > 1]
    rep.check(len(basec) >= 13 and not dup, R, "type_codes constants are pairwise distinct", "%d base constants" % len(basec), "type_codes constants collide: %s" % dup)
