"""C12 — scores are BM25 over the searcher's statistics and explain agrees: layering and shared arithmetic."""
from ..model import (trace_through, trace_back, op_local, op_place, place_local, is_bare, provenance, proj_fields)
from ..rules import (rule_precede, rule_must_pass, get_body, calls_to, site, short, rule_who_may_call, option_root, return_defs, whole_iteration, trace_back_deep)
from .. import codetab as ct

Q = "tantivy::query::"
B = Q + "bm25::Bm25Weight::"
SR = "tantivy::index::segment_reader::SegmentReader"
SE = "tantivy::core::searcher::Searcher"


def run(rep, prog, tier):
    rep.rule("C12-R1", "statistics are searcher-wide: Bm25Weight is only built by Query::weight-level functions that have no SegmentReader in scope (plus the indexing-side block-max helper), and impl Bm25StatisticsProvider for Searcher sums over all segment readers")
    rep.rule("C12-R2", "explain shares the arithmetic: Bm25Weight::explain's top value is Bm25Weight::score(self, fieldnorm_id, term_freq) of its own parameters; TermScorer::score and ::explain feed the same fieldnorm_id()/term_freq(); every impl Weight::explain takes its value from a scorer it seeked to the doc, a child explanation, or a constant (frozen classification)")
    rep.rule("C12-R3", "the field-length quantisation table is monotone (shared with C07-R2)")
    rep.not_decided += ["the numeric value of any score (values)", "PhrasePrefixQuery passes `searcher` where its siblings pass `statistics_provider` (only visible under search_with_statistics_provider; observation)"]
    r1(rep, prog)
    r2(rep, prog)
    r4(rep, prog)
    r5(rep, prog)
    r7(rep, prog)
    r8(rep, prog)
    r9(rep, prog)
    r10(rep, prog)
    r11(rep, prog)
    rep.rule("C12-R6", "score memo invalidation (shared with C13-R2): a scorer whose score() memoises its result in a field of self (RequiredOptionalScorer.score_cache) stores into that field in every DocSet method that moves a sub-docset — advance, seek and seek_danger — so the score reported for a document is the one computed for that document, however it was reached")
    from ..report import Retag
    from .c13 import memo_invalidation
    memo_invalidation(Retag(rep, "C12-R6"), prog, "C12-R6")
    tab = ct.const_int_array(prog, "tantivy::fieldnorm::code::FIELD_NORMS_TABLE")
    rep.check(tab is not None and len(tab) == 256 and all(tab[i] > tab[i - 1] for i in range(1, 256)) and tab[0] == 0, "C12-R3", "FIELD_NORMS_TABLE is a strictly increasing 256-entry table", "quantisation is order preserving", "FIELD_NORMS_TABLE is not a strictly increasing 256-entry table starting at 0")


CONST_SCORE_OK = {
    "tantivy::query::all_query::AllScorer": "matches everything with score 1.0 by definition; boosts are applied by the BoostScorer / ConstScorer around it",
}


def r11(rep, prog):
    """a literal score is only returned when there is no weight to score with"""
    import re
    from ..rules import dominating_guards, place_ty
    from ..model import op_place, place_local, is_bare
    R = "C12-R11"
    rep.rule(R, "no scorer answers a scored query with a literal: a Scorer::score that returns the constant 1.0 does so only on the arm where its own Option<Bm25Weight> is None (scoring disabled: the value is never looked at), or is tabled (AllScorer). A scorer that returns 1.0 although a similarity weight — already multiplied by the query's boost — was handed to its constructor ignores BM25 and the boost, while explain() (BoostWeight::explain multiplies the inner explanation) reports the boosted value")
    ONE = "1065353216"
    n = 0
    for fid, b in sorted(prog.bodies.items()):
        m = re.match(r"^<(.+) as tantivy::query::scorer::Scorer>::score$", fid)
        if not m:
            continue
        ty = m.group(1).split("<")[0]
        for bi in b.normal_blocks():
            for st in b.stmts(bi):
                if not (is_bare(st["d"]) and st["d"] == 0 and st.get("r") == "use" and st["o"][0].get("v") == ONE):
                    continue
                n += 1
                if ty in CONST_SCORE_OK:
                    rep.ok(R, "%s::score returns 1.0" % short(ty), "tabled: " + CONST_SCORE_OK[ty], site=site(b, bi))
                    continue
                guarded = False
                for sb, through, gl in dominating_guards(b, bi):
                    tr = trace_back(b, gl)
                    if not tr or not any(x[0] == "discr" for x in tr):
                        continue
                    # the place whose discriminant is read
                    for blk in b.normal_blocks():
                        for s2 in b.stmts(blk):
                            if s2.get("r") == "discr" and is_bare(s2["d"]) and s2["d"] == gl or (s2.get("r") == "discr" and s2["d"] in [x for x in [gl]]):
                                row = place_ty(prog, b, s2["p"])
                                tys = (row or {}).get("s", "") if isinstance(row, dict) else ""
                                listed = {v for v, _ in b.term(sb)["vals"]}
                                none_arms = {"0"} | ({"else"} if "1" in listed else set())
                                if "Bm25Weight" in tys and "Option" in tys and set(through) <= none_arms:
                                    guarded = True
                rep.check(guarded, R, "%s::score returns the literal 1.0 only without a similarity weight" % short(ty), "on the None arm of its Option<Bm25Weight>",
                          "`%s` returns the literal 1.0 on a path that is not the None arm of an Option<Bm25Weight> of the scorer: the similarity weight built for the query (BM25, multiplied by the boost) is ignored — "
                          "score(Boost(q, b)) stays 1.0 while explain() reports b; inside a boolean query the unboosted 1.0 is summed with correctly boosted clauses" % fid, site=site(b, bi))
    rep.floor(R, "Scorer::score impls returning the literal 1.0", n, 3)


WINDOW_EXEMPT = {
    "count_including_deleted": "counting drains the union to its end and never reads a score afterwards (the union is left past its last window)",
}


def r10(rep, prog):
    """a buffered document that is discarded leaves no score behind"""
    import re
    from ..rules import natural_loop
    R = "C12-R10"
    rep.rule(R, "the union's window is two parallel arrays, `bitsets` (which docs are buffered) and `scores` (one reusable combiner per slot): a method of BufferedUnionScorer that discards buffered docs wholesale (TinySet::clear / TinySet::empty over buckets, as seek does for the buckets it skips) must, on every path from the discard to its return, also run a loop that clears score combiners — otherwise the score accumulated for a skipped doc is added to whichever doc lands on the same slot after the next refill. Only docs popped one by one (advance_buffered, fill_buffer) reset their own slot")
    DISC = re.compile(r"tantivy_common::bitset::TinySet::(clear|empty)$")
    SCLR = re.compile(r"tantivy::query::score_combiner::ScoreCombiner::clear$")
    n_fn = n_disc = 0
    for fid, b in sorted(prog.bodies.items()):
        if "buffered_union::BufferedUnionScorer<" not in fid or "{closure" in fid or b.kind in ("const", "static", "promoted"):
            continue
        disc = [bi for bi, t in b.calls() if DISC.search(t.get("f") or "") or DISC.search(t.get("res") or "")]
        if not disc:
            continue
        n_fn += 1
        meth = fid.rsplit("::", 1)[-1]
        if meth in WINDOW_EXEMPT:
            rep.check(True, R, "%s discards buffered docs" % short(fid), "exempt: %s" % WINDOW_EXEMPT[meth], "")
            continue
        clr = [bi for bi, t in b.calls() if SCLR.search(t.get("f") or "")]
        # a clear inside a loop counts from the loop's header on (a loop over an empty range clears nothing because nothing was discarded)
        gates = set(clr)
        for c in clr:
            for hb in b.normal_blocks():
                lp = natural_loop(b, hb)
                if lp and c in lp:
                    gates.add(hb)
        rets = set(b.return_blocks())
        for d in disc:
            n_disc += 1
            reach = b.reachable((d,), blocked=frozenset(gates))
            leak = sorted(rets & set(reach))
            rep.check(not leak, R, "%s: buffered docs discarded at bb%d also lose their scores" % (short(fid), d), "every path to the return runs a score-clearing loop (%d clear site(s))" % len(clr),
                      "`%s` clears bucket bitsets of the window but can return without clearing the score combiners of those buckets: the scores accumulated for the skipped docs stay in `scores[]` and are added to the "
                      "docs that take the same slots after the next refill (TopDocs scores then disagree with explain() and with other segmentations)" % fid, site=site(b, d))
    rep.floor(R, "BufferedUnionScorer methods that discard buffered docs", n_fn, 2)
    rep.floor(R, "discard sites checked", n_disc, 2)


def r7(rep, prog):
    """ScoreCombiner::clear forgets everything update accumulated"""
    import re
    from ..mergecov import Aliases, fmt_path
    R = "C12-R7"
    rep.rule(R, "score combiners are reusable: for every impl of ScoreCombiner, clear() stores into every field that update() writes (the buffered union reuses one combiner per window slot: a field that survives clear() leaks the score of an earlier document into a later one)")
    types = {}
    for n in prog.bodies:
        m = re.match(r"^<(.+) as tantivy::query::score_combiner::ScoreCombiner>::([a-z_]+)$", n)
        if m:
            types.setdefault(m.group(1), {})[m.group(2)] = n
    rep.floor(R, "ScoreCombiner implementations", len(types), 3)
    for ty, ms in sorted(types.items()):
        if "update" not in ms or "clear" not in ms:
            rep.fail(R, "%s: update/clear" % short(ty), "cannot establish: %s lacks update or clear" % ty)
            continue

        def writes(fid):
            b = prog.bodies[fid]
            al = Aliases(b, {1: "self"})
            return {u[2][:1] for u in al.uses() if u[1] == "self" and u[0] in ("w", "rw") and u[2]}
        wu, wc = writes(ms["update"]), writes(ms["clear"])
        missing = sorted(fmt_path(x) for x in wu - wc)
        rep.check(not missing, R, "%s::clear resets what update accumulates" % short(ty), "update writes %s, clear writes %s" % (sorted(fmt_path(x) for x in wu), sorted(fmt_path(x) for x in wc)),
                  "`%s`::clear does not reset self%s, which update() accumulates into: a reused combiner carries the score of an earlier document" % (ty, ", self".join(missing)), site=prog.bodies[ms["clear"]].span)


def r8(rep, prog):
    """all clauses of a query are scored on the same statistics"""
    R = "C12-R8"
    rep.rule(R, "one statistics source: every Bm25Weight::for_terms / for_one_term call whose provider comes out of an EnableScoring::Enabled value takes the `statistics_provider` field, never `searcher` (under Searcher::search_with_statistics_provider the two differ; a query type that reads `searcher` scores its clause on other statistics than the clauses next to it)")
    names = prog.names(r"bm25::Bm25Weight::for_(terms|one_term)(_without_explain)?$")
    n = 0
    for b, bi, t in prog.who_calls(set(names)):
        if "::tests::" in b.id or not t.get("args"):
            continue
        l = op_local(t["args"][0])
        tr = trace_back(b, l) if l is not None else []
        if not any(s[0] == "downcast" and s[1] == "Enabled" for s in tr):
            continue
        n += 1
        fld = next((s[2] for s in tr if s[0] == "field"), None)
        rep.check(fld == "statistics_provider", R, "%s takes its statistics from the provider" % short(b.id), "EnableScoring::Enabled { statistics_provider, .. }",
                  "`%s` builds its Bm25Weight from the `%s` field of EnableScoring::Enabled instead of `statistics_provider`: with a custom statistics provider this clause is scored on the local searcher's "
                  "statistics while term / phrase clauses of the same query follow the provider" % (b.id, fld), site=site(b, bi))
    rep.floor(R, "weight constructors reading EnableScoring::Enabled", n, 4)


def r9(rep, prog):
    """a match-all clause keeps its score contribution"""
    from ..rules import dominating_guards, guard_evidence
    R = "C12-R9"
    rep.rule(R, "a match-all clause keeps its score: BooleanWeight::complex_scorer strips AllScorer clauses from its MUST and SHOULD lists (remove_and_count_all_and_empty_scorers) and only restores their match-all semantics. An AllScorer scores 1.0 per document; whether a clause is a bare AllScorer depends on the segment (a fast-field range or exists query returns one only when the whole column of that segment matches). So the stripping of MUST / SHOULD lists must be confined to the scoring-disabled case (a guard on scoring_enabled) — otherwise the score of a document depends on how the documents are split into segments, and explain() (which builds the clause with boost 1.0) disagrees with score()")
    fid = next((n for n in prog.bodies if n.endswith("BooleanWeight::<TScoreCombiner>::complex_scorer")), None)
    b = prog.bodies.get(fid) if fid else None
    if b is None:
        rep.fail(R, "anchor", "cannot establish: BooleanWeight::complex_scorer not found")
        return
    strips = [(bi, t) for bi, t in b.calls() if (t.get("res") or t.get("f") or "").endswith("remove_and_count_all_and_empty_scorers")]
    rep.floor(R, "strip sites in complex_scorer (must, should, must_not)", len(strips), 3)
    guarded = 0
    for bi, t in strips:
        ev = set()
        for sb, arms, l in dominating_guards(b, bi):
            ev |= guard_evidence(prog, b, l)
            tr = trace_back(b, l)
            if any(s[0] == "field" and s[2] == "scoring_enabled" for s in tr):
                ev.add(("field", "scoring_enabled"))
        if ("field", "scoring_enabled") in ev:
            guarded += 1
    # the MustNot list may always be stripped (an excluded clause contributes no score): two of the three sites need the guard
    rep.check(guarded >= 2, R, "AllScorer clauses are only stripped from MUST / SHOULD when scores are not needed", "%d of %d strip sites are guarded by scoring_enabled" % (guarded, len(strips)),
              "BooleanWeight::complex_scorer strips AllScorer clauses from its MUST and SHOULD lists whether or not scoring is enabled (%d of %d strip sites depend on scoring_enabled): the 1.0 such a clause "
              "contributes is lost exactly in the segments where the clause happens to match every document" % (guarded, len(strips)), site=site(b, strips[0][0]) if strips else b.span)


def r4(rep, prog):
    """every place that evaluates the BM25 formula: the weight and the field-length byte must
    belong to the same scorer / field; the set of such places is frozen with per-function counts"""
    R = "C12-R4"
    rep.rule(R, "who evaluates BM25: the call sites of Bm25Weight::score are a frozen table (function -> count); where the weight is taken from a scorer (bm25_weight() / similarity_weight), the fieldnorm id comes from the same scorer's own fieldnorm reader")
    TABLE = {
        "<tantivy::query::term_query::term_scorer::TermScorer as tantivy::query::scorer::Scorer>::score": (1, "the scorer's own weight, fieldnorm_id() and term_freq()"),
        "<tantivy::query::phrase_query::phrase_scorer::PhraseScorer<TPostings> as tantivy::query::scorer::Scorer>::score": (1, "phrase scorer: own weight, own fieldnorm reader, phrase count as tf"),
        B + "explain": (1, "C12-R2"),
        B + "max_score": (1, "upper bound with fieldnorm id 255 / max tf"),
        "tantivy::postings::skip::SkipReader::block_max_score": (1, "block-max metadata of the posting list being read"),
        "tantivy::postings::block_segment_postings::BlockSegmentPostings::block_max_score::{closure#0}": (1, "exact block max over the decoded block of this posting list"),
        "tantivy::query::boolean_query::block_wand_intersection::block_wand_intersection": (1, "leader clause only: weight and fieldnorm reader are both taken from `leader`; secondaries go through TermScorer::score"),
    }
    sites_ = prog.who_calls({B + "score"})
    per = {}
    for b, bi, t in sites_:
        per.setdefault(b.id, []).append((b, bi, t))
    for c, lst in sorted(per.items()):
        b, bi, t = lst[0]
        if c not in TABLE:
            rep.fail(R, "Bm25Weight::score is evaluated in %s" % short(c), "`%s` evaluates the BM25 formula but is not in the table: which scorer's weight and which field's length does it combine?" % c, site=site(b, bi))
            continue
        cnt, why = TABLE[c]
        rep.check(len(lst) <= cnt, R, "BM25 evaluation in %s" % short(c), "%d site(s): %s" % (len(lst), why),
                  "`%s` evaluates Bm25Weight::score at %d sites, the table has %d: a new evaluation must use the weight and the fieldnorm reader of the same scorer" % (c, len(lst), cnt), site=site(b, bi))
    for c in TABLE:
        if c not in per:
            rep.fail(R, "stale table entry %s" % short(c), "listed BM25 evaluation site no longer exists: re-confirm the table")
    # block_wand_intersection: both ingredients of the leader evaluation come from `leader`
    fid = "tantivy::query::boolean_query::block_wand_intersection::block_wand_intersection"
    body = prog.body(fid)
    if body is not None and fid in per:
        b, bi, t = per[fid][0]
        TS = "tantivy::query::term_query::term_scorer::TermScorer::"
        w = trace_through(body, op_local(t["args"][0]), transparent=("core::clone::Clone::clone",) + tuple(prog.names(r"Deref::deref$")))
        wsrc = [s for s in w if s[0] == "call" and s[1] == TS + "bm25_weight"]
        f = trace_through(body, op_local(t["args"][1]))
        fsrc = [s for s in f if s[0] == "call" and s[1].endswith("FieldNormReader::fieldnorm_id")]
        same = False
        if wsrc and fsrc:
            wrecv = option_root(body, body.term(wsrc[0][2])["args"][0])
            fr = body.term(fsrc[0][2])["args"][0]
            frt = trace_through(body, op_local(fr), transparent=("core::clone::Clone::clone",) + tuple(prog.names(r"Deref::deref$")))
            frc = [s for s in frt if s[0] == "call" and s[1] == TS + "fieldnorm_reader"]
            if frc:
                frecv = option_root(body, body.term(frc[0][2])["args"][0])
                same = wrecv == frecv and wrecv[0] in ("param", "local")
        rep.check(same, R, "block_wand_intersection: the leader's weight meets the leader's fieldnorm", "bm25_weight() and fieldnorm_reader() are taken from the same scorer",
                  "in block_wand_intersection the Bm25Weight and the fieldnorm id given to score() do not provably come from the same scorer: a clause can be normalised with another field's length", site=site(b, bi))


def r5(rep, prog):
    """specialised scoring paths that hard-code the sum of the clause scores (block-WAND) may only
    replace the generic scorer when the weight's score combiner is the sum"""
    R = "C12-R5"
    rep.rule(R, "score-combiner agreement: in every method of impl Weight for BooleanWeight<TScoreCombiner>, a call to block_wand / block_wand_intersection (which add the clause scores) is dominated by a guard computed from the combiner type parameter (e.g. TypeId::of::<TScoreCombiner>() == TypeId::of::<SumCombiner>()); otherwise a disjunction-max query is scored as a sum by TopDocs while scorer()/explain() use max + tie-breaker")
    BW = ("tantivy::query::boolean_query::block_wand::block_wand", "tantivy::query::boolean_query::block_wand_union::block_wand", "tantivy::query::boolean_query::block_wand_intersection::block_wand_intersection")
    names = prog.names(r"^tantivy::query::boolean_query::(block_wand(_union)?::block_wand(_single_scorer)?|block_wand_intersection::block_wand_intersection)$")
    sites_ = [(b, bi, t) for (b, bi, t) in prog.who_calls(names) if "BooleanWeight" in b.id]
    rep.floor(R, "block-WAND call sites in BooleanWeight", len(sites_), 2)
    for body, bi, t in sites_:
        dom = body.dominators().get(bi, set())
        guarded = False
        for d in dom:
            tt = body.term(d)
            if tt["k"] != "switch" or op_local(tt["on"]) is None:
                continue
            lv = provenance(body, op_local(tt["on"]), extra_transparent=tuple(prog.names(r"PartialEq::eq$|TypeId as core::cmp::PartialEq>::eq$")))
            for l in lv:
                if l[0] != "call":
                    continue
                ct = body.term(l[2])
                # the guard's source is a call instantiated with the combiner type parameter
                for g in ct.get("ga", []):
                    row = body.types[g]
                    if row["k"] == "param" and "Combiner" in row["s"]:
                        # the call must be unreachable from the arm on which the guard is false
                        arms = dict((v, tg) for v, tg in tt["vals"])
                        false_t = arms.get("0")
                        if false_t is not None and bi not in body.reachable((false_t,), blocked=frozenset({d})):
                            guarded = True
        rep.check(guarded, R, "%s: %s only when the combiner is the sum" % (short(body.id).split("::")[-1], t.get("f", "").split("::")[-1]),
                  "dominated by a guard derived from the TScoreCombiner type parameter",
                  "`%s` calls %s, which sums the clause scores, without checking that the weight's score combiner is the sum: with another combiner (DisjunctionMaxQuery) TopDocs ranks and reports "
                  "sum scores while scorer() and explain() report max + tie-breaker" % (body.id, t.get("f", "")), site=site(body, bi))


def r1(rep, prog):
    R = "C12-R1"
    ctors = {B + "for_terms", B + "for_one_term", B + "for_one_term_without_explain", B + "new", B + "new_without_explain"}
    allowed = {
        B + "for_terms": "internal delegation (for_one_term / new)",
        B + "for_one_term": "internal delegation",
        B + "for_one_term_without_explain": "internal delegation",
        Q + "term_query::term_query::TermQuery::specialized_weight": "Query::weight level: statistics provider of the whole searcher",
        Q + "phrase_query::phrase_query::PhraseQuery::phrase_weight": "Query::weight level",
        Q + "phrase_query::regex_phrase_query::RegexPhraseQuery::regex_phrase_weight": "Query::weight level",
        Q + "phrase_prefix_query::phrase_prefix_query::PhrasePrefixQuery::phrase_prefix_query_weight": "Query::weight level",
        "tantivy::postings::serializer::PostingsSerializer::new_term": "indexing side: only ranks (fieldnorm, tf) pairs of one posting list to pick the block-max pair; not a score shown to users",
    }
    ok, callers = rule_who_may_call(rep, prog, R, ctors, "Bm25Weight constructors", allowed)
    for c in sorted(callers):
        b = prog.body(c)
        if b is None or c.startswith(B) or c.endswith("PostingsSerializer::new_term"):
            continue
        seg = [l for l in range(1, b.argc + 1) if SR in b.local_ty_str(l)]
        rep.check(not seg, R, "%s has no SegmentReader parameter" % short(c), "statistics cannot be per segment here", "`%s` builds a Bm25Weight with a SegmentReader in scope: statistics may be taken from one segment" % c, site=b.span)
        # the statistics come from a Bm25StatisticsProvider / Searcher
        calls = {t.get("f", "") for _, t in b.calls()}
        uses_provider = any("Bm25StatisticsProvider" in f for f in calls) or any(f in ctors for f in calls)
        rep.check(uses_provider, R, "%s takes its statistics from a statistics provider" % short(c), "Bm25StatisticsProvider / for_terms", "`%s` does not go through Bm25StatisticsProvider" % c, site=b.span)
    ft = get_body(rep, prog, R, B + "for_terms")
    if ft is not None:
        calls = {t.get("f", "").split("::")[-1] for _, t in ft.calls() if "Bm25StatisticsProvider" in t.get("f", "")}
        rep.check({"total_num_tokens", "total_num_docs", "doc_freq"} <= calls, R, "for_terms reads all three statistics from the provider", "%s" % sorted(calls), "Bm25Weight::for_terms no longer reads total_num_tokens / total_num_docs / doc_freq from the provider (%s)" % sorted(calls), site=ft.span)
    P = "<tantivy::core::searcher::Searcher as tantivy::query::bm25::Bm25StatisticsProvider>::"
    for m in ("total_num_tokens", "total_num_docs"):
        b = get_body(rep, prog, R, P + m)
        if b is None:
            continue
        sr = calls_to(prog, b, {SE + "::segment_readers"})
        form, why = whole_iteration(prog, b, sr[0][0]) if len(sr) == 1 else (None, "%d calls of segment_readers()" % len(sr))
        rep.check(len(sr) == 1 and form is not None, R, "Searcher::%s sums over every segment reader" % m, "iterates Searcher::segment_readers(): %s" % why,
                  "Searcher's %s no longer visits all segment readers (%s)" % (m, why), site=b.span)
    b = get_body(rep, prog, R, P + "doc_freq")
    if b is not None:
        rep.check(len(calls_to(prog, b, {SE + "::doc_freq"})) == 1, R, "provider doc_freq delegates to Searcher::doc_freq", "delegation", "Bm25StatisticsProvider::doc_freq for Searcher no longer delegates to Searcher::doc_freq", site=b.span)
    sb = get_body(rep, prog, R, SE + "::doc_freq")
    if sb is not None:
        loops = [bb for bb, t in sb.calls() if t.get("f", "").endswith("Iterator::next") and bb in sb.reachable(tuple(sb.succ(bb)))]
        reads = any(f[1] == "segment_readers" for bi in sb.normal_blocks() for st in sb.stmts(bi) for pl in ([st["p"]] if "p" in st else []) for f in proj_fields(pl)) or bool(calls_to(prog, sb, {SE + "::segment_readers"}))
        rep.check(bool(loops) and reads, R, "Searcher::doc_freq sums over every segment reader", "loop over inner.segment_readers", "Searcher::doc_freq no longer loops over all segment readers", site=sb.span)


def r2(rep, prog):
    R = "C12-R2"
    eb = get_body(rep, prog, R, B + "explain")
    if eb is not None:
        sc = calls_to(prog, eb, {B + "score"})
        if rep.check(len(sc) == 1, R, "Bm25Weight::explain calls Bm25Weight::score", "1 call", "Bm25Weight::explain no longer calls score(): %d calls" % len(sc), site=eb.span):
            b, t = sc[0]
            roots = [option_root(eb, t["args"][i]) for i in (0, 1, 2)]
            rep.check(roots == [("param", 1), ("param", 2), ("param", 3)], R, "explain scores its own (self, fieldnorm_id, term_freq)", "score(self, fieldnorm_id, term_freq)", "explain calls score with other arguments: %s" % roots, site=site(eb, b))
            # the returned Explanation's value is that score
            NEW = prog.names(r"^tantivy::query::explanation::Explanation::new$|Explanation::new::<")
            top = None
            for bb, tt in calls_to(prog, eb, NEW):
                tr = trace_back(eb, op_local(tt["args"][1])) if op_local(tt["args"][1]) is not None else []
                if tr and tr[-1][0] == "call" and tr[-1][2] == b:
                    top = (bb, tt)
            okr = False
            if top is not None:
                lv = provenance(eb, 0, extra_transparent=())
                # the returned explanation is the one built from the score
                dest = place_local(top[1]["dest"])
                from ..model import flows_to
                okr = 0 in flows_to(eb, dest)
            rep.check(top is not None and okr, R, "the explanation returned carries exactly that score", "Explanation::new(.., score) is the value returned", "the top explanation of Bm25Weight::explain is not built from score()", site=eb.span)
    TS = Q + "term_query::term_scorer::TermScorer::"
    sb = get_body(rep, prog, R, "<tantivy::query::term_query::term_scorer::TermScorer as tantivy::query::scorer::Scorer>::score")
    xb = get_body(rep, prog, R, TS + "explain")
    for what, body, callee in (("score", sb, B + "score"), ("explain", xb, B + "explain")):
        if body is None:
            continue
        cs = calls_to(prog, body, {callee})
        okk = False
        for b, t in cs:
            a1 = trace_back_deep(body, op_local(t["args"][1])) if op_local(t["args"][1]) is not None else []
            a2 = trace_back_deep(body, op_local(t["args"][2])) if op_local(t["args"][2]) is not None else []
            okk = bool(a1) and a1[-1][0] == "call" and a1[-1][1].endswith("TermScorer::fieldnorm_id") and bool(a2) and a2[-1][0] == "call" and a2[-1][1].endswith("term_freq")
        rep.check(okk, R, "TermScorer::%s feeds fieldnorm_id() and term_freq()" % what, "%s(self.fieldnorm_id(), self.term_freq())" % callee.split("::")[-1],
                  "TermScorer::%s does not pass its fieldnorm_id() / term_freq() to Bm25Weight::%s" % (what, callee.split("::")[-1]), site=body.span)
    # classification of every impl Weight::explain
    CLASS = {
        "AllWeight": "const", "EmptyWeight": "none", "TermWeight": "scorer-explain", "BoostWeight": "child", "ConstWeight": "scorer-seek-const",
        "BooleanWeight<TScoreCombiner>": "scorer-score", "PhraseWeight": "scorer-score", "PhrasePrefixWeight": "scorer-score", "RegexPhraseWeight": "scorer-score",
        "AutomatonWeight<A>": "scorer-seek-const", "ExistsWeight": "scorer-seek-const", "InvertedIndexRangeWeight": "scorer-seek-const", "FastFieldRangeWeight": "scorer-score",
    }
    impls = [im for im in prog.impls if im.get("trait") == Q + "weight::Weight"]
    n = 0
    for im in impls:
        ty = prog.impl_self_ty(im)["s"].split("::")[-1]
        items = {i["name"]: i["path"] for i in im["items"]}
        if "explain" not in items:
            continue
        b = prog.body(items["explain"])
        if b is None:
            continue
        n += 1
        if ty not in CLASS:
            rep.fail(R, "explain of %s is unclassified" % ty, "a new impl Weight::explain (`%s`) must be classified: where does its value come from?" % items["explain"], site=b.span)
            continue
        cls = CLASS[ty]
        calls = [t.get("f", "") for _, t in b.calls()]
        has_seek = any(f.endswith("DocSet::seek") for f in calls)
        has_score = any(f.endswith("Scorer::score") for f in calls)
        child = any(f.endswith("Weight::explain") or f.endswith("::explain") for f in calls)
        okk = {"const": not has_seek and not has_score, "none": True, "scorer-explain": has_seek and child, "child": child and not has_score,
               "scorer-seek-const": has_seek and not has_score, "scorer-score": has_seek and has_score}[cls]
        # a value taken from Scorer::score must come after the seek to `doc`
        if cls == "scorer-score" and okk:
            SEEK = prog.names(r"docset::DocSet::seek$")
            SCORE = prog.names(r"scorer::Scorer::score$")
            from ..model import Ev, must_precede
            bad = must_precede(b, [Ev(x, "term") for x, tt in b.calls() if prog.call_targets(tt) & SEEK], [Ev(x, "term") for x, tt in b.calls() if prog.call_targets(tt) & SCORE])
            okk = not bad
        rep.check(okk, R, "%s::explain takes its value from %s" % (ty, cls), "seek=%s score=%s child=%s" % (has_seek, has_score, child),
                  "%s::explain no longer matches its classification `%s` (seek=%s score=%s child-explain=%s)" % (ty, cls, has_seek, has_score, child), site=b.span)
    rep.floor(R, "impl Weight::explain classified", n, 12)
