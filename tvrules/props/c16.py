"""C16 — the query parser is total: panic inventory and recursion over the parser's scope."""
from ..model import sccs, op_local
from ..rules import get_body, site, short
from .. import panics

QG = "tantivy_query_grammar::"
QP = "tantivy::query::query_parser::query_parser::"


def in_scope_fn(prog):
    def f(fid):
        b = prog.body(fid)
        if b is None:
            return False
        sp = b.span
        return sp.startswith("query-grammar/src/") or sp.startswith("src/query/query_parser/") or sp.startswith("src/core/json_utils.rs")
    return f


def entries(prog):
    return [b.id for b in prog.bodies.values()
            if b.id in (QG + "parse_query", QG + "parse_query_lenient")
            or b.id.startswith(QP + "QueryParser::parse_query") or b.id == QP + "QueryParser::build_query_from_user_input_ast"]


G = QG + "query_grammar::"
# (function, class, kind) -> (max count, reason)
PANIC_TABLE_ = {
    ("tantivy::core::json_utils::convert_to_fast_value_and_append_to_json_term", "P1", "assert_failed"): (1, "assert_eq on the term's type code: the parser only calls it with a JSON term it just built (Term::from_field_json_path)"),
    ("tantivy::core::json_utils::convert_to_fast_value_and_append_to_json_term", "P2", "Option::expect"): (1, "same precondition: the term is a JSON term with a path"),
    (QP + "QueryParser::build_query_from_user_input_ast", "P3", "swap_remove"): (1, "guarded by `!err.is_empty()`"),
    (QP + "QueryParser::parse_query_to_logical_ast", "P3", "swap_remove"): (1, "guarded by `!err.is_empty()`"),
    (QP + "QueryParser::compute_boundary_term", "P2", "Option::unwrap"): (1, "guarded by `terms.len() != 1` returning an error just before"),
    (QP + "QueryParser::compute_logical_ast_from_leaf_lenient", "P2", "Option::unwrap"): (1, "guarded by `asts.len() == 1`"),
    (QP + "convert_to_query", "P1", "panic_fmt"): (1, "assert!(!occur_subqueries.is_empty()) after trim_ast, which removes empty clauses (returns None for them)"),
    (QG + "infallible::LenientError::from_internal", "P4", "Overflow(Sub)"): (1, "internal.pos is the length of a suffix of the input string, so <= str_len"),
    (QG + "infallible::space0_infallible::{closure#0}", "P2", "Option::expect"): (1, "multispace0 matches the empty string: opt_i(..) always yields Some"),
    (QG + "infallible::unwrap_infallible", "P1", "panic"): (1, "unreachable!() on Err(nom::Err<Infallible>): the error type is uninhabited"),
    (G + "aggregate_binary_expressions", "P3", "swap_remove"): (1, "guarded by `errors.is_empty()` else-branch"),
    (G + "aggregate_binary_expressions", "P4", "Overflow(Add)"): (1, "others.len() + 1 on a Vec length (< isize::MAX)"),
    (G + "aggregate_infallible_expressions", "P2", "Option::unwrap"): (4, "leafs is non-empty (early return on is_empty); clauses.pop()/clause.pop() after len()==1 tests"),
    (G + "aggregate_infallible_expressions", "P3", "index"): (1, "clause[0] after `clause.len() == 1`"),
    (G + "exists_infallible", "P2", "Result::expect"): (1, "only reached through alt_infallible after exists_precond peeked the same tuple successfully"),
    (G + "term_group_infallible", "P2", "Result::expect"): (1, "only reached after term_group_precond peeked the same tuple successfully"),
    (G + "parse_to_ast_lenient", "P2", "Result::unwrap"): (1, "ast_infallible returns Result<_, nom::Err<Infallible>>: never Err"),
    (G + "positive_float_number::{closure#0}", "P2", "Result::unwrap"): (1, "the string matched digit1[.digit1]: f64::from_str accepts it (huge values parse to inf, not Err)"),
    (G + "range_infallible::{closure#0}", "P1", "panic_fmt"): (2, "unreachable!: range_infallible is only chosen after peek(one_of(\"{[><\")), and the remaining arms cover None / '*' / TO"),
    (G + "rewrite_ast", "P3", "drain"): (1, "drain(..) with the full range never panics"),
    (G + "rewrite_ast_clause", "P2", "Option::unwrap"): (1, "guarded by the match arm `clauses.len() == 1`"),
    (G + "simple_term_infallible::{closure#0}::{closure#0}::{closure#1}", "P2", "Option::unwrap"): (1, "opt_i(many0(..)): many0 cannot fail, so the option is Some"),
    (G + "word_infallible::{closure#0}::{closure#1}", "P3", "windows"): (1, "windows(2): size is the non-zero constant 2"),
    (G + "word_infallible::{closure#0}::{closure#1}::{closure#0}", "P3", "BoundsCheck"): (2, "window[0], window[1] on a windows(2) element"),
    (QG + "user_input_ast::UserInputLeaf::set_field", "P2", "Option::expect"): (1, "an Exists leaf only reaches set_field(None -> Some) with a field: rests on C16-R5 (`exists` is only composed as tuple((field_name, exists))) and C16-R3 (one notion of white space). This entry was triaged WRONG twice: first as unreachable from 28 ASCII inputs (non-ASCII white space reached it: F17), then as resting on C16-R3 alone (`+ *` reached it through the occur marker: F43). A triaged reason is a claim; both times it took an input nobody had tried"),
}

# recursion anchors: SCCs of the parser's call graph, all structural recursion over the nesting depth of the input
RECURSION_NOTE = "recursion depth follows the nesting depth of the query text / AST, which the caller controls; no depth bound"


def r3(rep, prog):
    """one notion of white space in the grammar"""
    import re
    R = "C16-R3"
    rep.rule(R, "one notion of white space: the query grammar's word parsers stop on `char::is_whitespace` (every Unicode white space); the parsers that skip separators must accept the same characters. nom's `multispace0/1` / `space0/1` only know ASCII blanks: with both in use, an input such as `*\\u{3000}` or `IN [a\\u{a0}b]` is neither a word character nor a separator — the strict parser reaches `Exists` without a field (panic), the lenient parser loops without consuming input. Rule: in query-grammar, not both an ASCII-only separator parser and `char::is_whitespace` are called")
    ascii_ws = re.compile(r"^nom::character::complete::(multispace0|multispace1|space0|space1)$")
    uni = re.compile(r"char::methods::<impl char>::is_whitespace$")
    A, U = [], []
    for fid in sorted(prog.bodies):
        if not fid.startswith(("tantivy_query_grammar::", "<tantivy_query_grammar::")) or "::tests::" in fid or "::test::" in fid:
            continue
        b = prog.bodies[fid]
        for bi, t in b.all_calls() if hasattr(b, "all_calls") else b.calls():
            f = t.get("f") or ""
            f0 = re.sub(r"::<.*>$", "", f)
            if ascii_ws.match(f0):
                A.append((fid, bi))
            elif uni.search(f):
                U.append((fid, bi))
        # function items passed as values (tuple((multispace0, ..))) are operands, not calls
        for bi in b.normal_blocks():
            for st in b.stmts(bi):
                for o in st.get("o", []):
                    fn = o.get("fn") if isinstance(o, dict) else None
                    if fn and ascii_ws.match(re.sub(r"::<.*>$", "", fn)):
                        A.append((fid, bi))
            t = b.term(bi)
            for o in t.get("args", []) if t["k"] in ("call", "tailcall") else []:
                fn = o.get("fn") if isinstance(o, dict) else None
                if fn and ascii_ws.match(re.sub(r"::<.*>$", "", fn)):
                    A.append((fid, bi))
    rep.extra["whitespace_predicates"] = {"ascii_only_sites": len(A), "unicode_sites": len(U)}
    rep.check(len(U) + len(A) >= 5, R, "white-space tests found in the grammar", "%d ASCII-only, %d Unicode" % (len(A), len(U)), "cannot establish: no white-space predicate found in query-grammar")
    # keywords followed by a hard-coded blank: `tag("AND ")` is an ASCII-space-only separator in disguise
    KW = []
    for fid in sorted(prog.bodies):
        if not fid.startswith(("tantivy_query_grammar::", "<tantivy_query_grammar::")) or "::tests::" in fid or "::test::" in fid:
            continue
        b = prog.bodies[fid]
        for bi, t in b.calls():
            if re.search(r"nom::bytes::complete::tag", t.get("f") or ""):
                for o in t.get("args", []):
                    lit = o.get("str") if isinstance(o, dict) else None
                    if lit and len(lit) > 1 and lit != lit.rstrip():
                        KW.append((fid, bi, lit))
    rep.check(not KW, R, "no keyword parser hard-codes its trailing blank", "tag(..) literals end with the keyword",
              "query-grammar matches %s with nom `tag`: the white space after the keyword is a literal U+0020, so the same keyword followed by a tab or a newline (a query typed on two lines) is not the operator — "
              "the strict parser rejects `a AND\\tb`, the lenient one silently searches `AND` / `NOT` as a word (`(*a *AND *b)`), and strict and lenient disagree on `NOT\\ta`" % sorted({repr(k[2]) for k in KW}),
              site=site(prog.bodies[KW[0][0]], KW[0][1]) if KW else "")
    # a field name ends at any white space: its character classes test char::is_whitespace, not a list with a blank in it
    fnb = [n for n in prog.bodies if n == "tantivy_query_grammar::query_grammar::field_name" or n.startswith("tantivy_query_grammar::query_grammar::field_name::{closure")]
    fn_uni = any(uni.search(t.get("f") or "") for n in fnb for _, t in prog.bodies[n].calls())
    rep.check(bool(fnb) and fn_uni, R, "field_name stops at every white space", "its character classes test char::is_whitespace",
              "query_grammar::field_name decides which characters belong to a field name with a fixed list (SPECIAL_CHARS, whose only white space is the blank): a tab, a newline or U+3000 in front of a field name is swallowed into it together "
              "with the preceding word — `a\\ntitle:b` (a query typed on two lines) is parsed as the single field `\"a\\ntitle\"`, in both parsers", site=prog.bodies[fnb[0]].span if fnb else "")
    both = bool(A) and bool(U)
    site_ = site(prog.bodies[A[0][0]], A[0][1]) if A else ""
    rep.check(not both, R, "separator parsers and word parsers agree on what white space is", "one predicate (%s)" % ("char::is_whitespace" if U else "ASCII"),
              "query-grammar uses nom's ASCII-only multispace/space parsers at %d site(s) and `char::is_whitespace` at %d site(s): a non-ASCII white space (U+3000, U+00A0, U+2028, ...) ends a word but is not "
              "skipped as a separator — `*` followed by it is parsed as an exists-query without a field (panic in UserInputLeaf::set_field), `IN [a\\u{a0}b]` makes the lenient parser loop forever" % (len(A), len(U)),
              site=site_)


def r4(rep, prog):
    """a date literal denotes an instant: the instant parsed is the instant handed to DateTime"""
    R = "C16-R4"
    rep.rule(R, "date literals keep their instant: at every site where a parsed RFC 3339 text becomes a tantivy DateTime (query parser leaf and range/set bounds, JSON date inference, document values), the OffsetDateTime given to DateTime::from_utc is the result of OffsetDateTime::parse, passed through nothing but `?` / ok / map_err and the instant-preserving to_offset; the sibling sites agree, so a literal with a zone offset selects the documents indexed at that instant")
    from ..model import provenance
    PARSE = "time::offset_date_time::OffsetDateTime::parse"
    KEEP = prog.names(r"^(time::offset_date_time::OffsetDateTime::to_offset|core::result::Result::<T, E>::(map_err|ok)|<core::result::Result<T, E> as core::ops::try_trait::Try>::branch|<core::option::Option<T> as core::ops::try_trait::Try>::branch)$")
    n = 0
    for b in prog.bodies.values():
        if b.kind in ("const", "static", "promoted") or "::tests::" in b.id:
            continue
        parses = [bi for bi, t in b.calls() if (t.get("res") or t.get("f") or "") == PARSE]
        if not parses:
            continue
        for bi, t in b.calls():
            f = t.get("res") or t.get("f") or ""
            if not f.endswith("datetime::DateTime::from_utc"):
                continue
            l = op_local(t["args"][0])
            lv = provenance(b, l, extra_transparent=KEEP) if l is not None else set()
            calls = sorted({x[1] for x in lv if x[0] == "call"})
            n += 1
            other = [c for c in calls if c != PARSE]
            rep.check(PARSE in calls and not other, R, "date literal in %s" % short(b.id), "from_utc(parse(text)) through `?`/ok/map_err/to_offset only",
                      "`%s` gives DateTime::from_utc a value that went through %s after OffsetDateTime::parse: a call that is not the instant-preserving to_offset can move the instant the literal denotes "
                      "(replace_offset keeps the wall-clock fields and swaps the zone: `10:00+02:00` becomes `10:00Z` instead of `08:00Z`), so the query bound and the indexed value of the same text disagree" % (b.id, [short(c) for c in other] or "an untraceable definition"),
                      site=site(b, bi))
    rep.floor(R, "RFC 3339 text to DateTime conversion sites", n, 6)


def r5(rep, prog):
    """the strict grammar composes `exists` only behind a mandatory field name"""
    R = "C16-R5"
    rep.rule(R, "an exists leaf always has a field: the strict parser's `exists` (white space, `*`, a terminator) yields UserInputLeaf::Exists with an empty field, and UserInputLeaf::set_field(None) on it panics (`expect(\"Exist query without a field isn't allowed\")`). `exists` skips leading white space itself, so wherever it can run without a field name in front of it, ` *` is accepted — `+ *`, `a - *`. Rule: in query-grammar every use of the fn item `exists` is as the second element of the pair (field_name, exists) handed to nom's tuple(): never as an alternative next to an optional field name, never alone")
    EX = QG + "query_grammar::exists"
    FN = QG + "query_grammar::field_name"
    uses = []
    for fid, b in sorted(prog.bodies.items()):
        if not fid.startswith(QG) or "::tests::" in fid or b.kind in ("const", "static", "promoted"):
            continue
        for bi in b.normal_blocks():
            for st in b.stmts(bi):
                ops = [o.get("fn") for o in st.get("o", []) if isinstance(o, dict)]
                if EX in ops:
                    uses.append((b, bi, "agg" if st.get("r") == "agg" else st.get("r"), ops))
            t = b.term(bi)
            if t["k"] in ("call", "tailcall"):
                ops = [o.get("fn") for o in t.get("args", []) if isinstance(o, dict)]
                if EX in ops:
                    uses.append((b, bi, "call " + short(t.get("f") or ""), ops))
    rep.floor(R, "uses of the fn item query_grammar::exists", len(uses), 1)
    for b, bi, how, ops in uses:
        ok = how == "agg" and ops == [FN, EX]
        rep.check(ok, R, "`exists` in %s is paired with a mandatory field_name" % short(b.id), "tuple((field_name, exists))",
                  "%s uses the parser `exists` as %s with %s: it is not the pair (field_name, exists). `exists` skips white space and accepts `*` on its own, so the strict parser builds an Exists leaf without a field "
                  "and UserInputLeaf::set_field(None) panics — parse_query(\"+ *\"), (\"a - *\"), (\"title:a +\\t*\")" % (b.id, how, [short(o or "?") for o in ops]), site=site(b, bi))


def r6(rep, prog):
    """every kind of leaf the grammar can produce has a handler that can produce a query"""
    R = "C16-R6"
    rep.rule(R, "every leaf kind has a handler: QueryParser::compute_logical_ast_from_leaf_lenient dispatches on the variant of UserInputLeaf (Literal, All, Range, Set, Exists, Regex — read from the enum definition); in the arm of every variant some path builds a LogicalAst (an aggregate of that type, or a call that returns one). An arm that can only report an error means a construct of the documented grammar is parsed and then always refused")
    fids = [n for n in prog.bodies if n.endswith("QueryParser::compute_logical_ast_from_leaf_lenient")]
    b = prog.bodies[fids[0]] if fids else None
    ad = prog.adts.get(QG + "user_input_ast::UserInputLeaf")
    if not rep.check(b is not None and ad is not None, R, "anchors", "dispatch function and enum found", "cannot establish: compute_logical_ast_from_leaf_lenient or UserInputLeaf not found"):
        return
    variants = [v["name"] for v in ad["variants"]]
    sw = None
    for bi in b.normal_blocks():
        t = b.term(bi)
        if t["k"] == "switch" and op_local(t["on"]) is not None:
            from ..model import trace_back
            tr = trace_back(b, op_local(t["on"]))
            if tr and tr[0] == ("discr",) and tr[-1] == ("param", 2) and len(t["vals"]) >= len(variants) - 1:
                sw = (bi, t)
                break
    if not rep.check(sw is not None, R, "the dispatch on the leaf's variant", "one switch over all variants", "cannot establish: no switch over every UserInputLeaf variant at the top of compute_logical_ast_from_leaf_lenient", site=b.span):
        return
    bi, t = sw
    arms = {int(v): tg for v, tg in t["vals"]}
    if t.get("else") is not None and not b.blocks[t["else"]]["t"]["k"] == "unreachable":
        for i in range(len(variants)):
            arms.setdefault(i, t["else"])
    LA = "tantivy::query::query_parser::logical_ast::LogicalAst"
    for i, name in enumerate(variants):
        tg = arms.get(i)
        if not rep.check(tg is not None, R, "UserInputLeaf::%s has an arm" % name, "", "UserInputLeaf::%s is not handled by the dispatch of compute_logical_ast_from_leaf_lenient" % name, site=site(b, bi)):
            continue
        others = frozenset(x for j, x in arms.items() if j != i and x != tg) | {bi}
        region = set(b.reachable((tg,), blocked=others)) | {tg}
        builds = False
        for rb in region:
            for st in b.stmts(rb):
                if st.get("r") == "agg" and st.get("adt") == LA:
                    builds = True
            tt = b.term(rb)
            if tt["k"] in ("call", "tailcall"):
                f = tt.get("res") or tt.get("f") or ""
                fb = prog.bodies.get(f)
                if fb is not None and "LogicalAst" in fb.local_ty_str(0):
                    builds = True
        rep.check(builds, R, "the arm of UserInputLeaf::%s can build a query" % name, "a LogicalAst is constructed on some path",
                  "the arm of UserInputLeaf::%s in QueryParser::compute_logical_ast_from_leaf_lenient never builds a LogicalAst: every `%s` the grammar parses is answered with an error (strict) or dropped with an error "
                  "(lenient) — `title:*`, the exists query of the documented grammar, gives UnsupportedQuery(\"Range query need to target a specific field.\")" % (name, name.lower()), site=site(b, tg))


def r7(rep, prog):
    """the slop and the prefix flag of a quoted phrase reach every phrase literal the parser builds"""
    from ..model import provenance
    R = "C16-R7"
    rep.rule(R, "`\"a b\"~2` and `\"a b\"*` mean the same on every kind of field: compute_logical_ast_for_leaf receives the slop and the prefix flag of the quoted phrase; every LogicalLiteral::Phrase it (or a helper it calls) builds takes its `slop` and `prefix` from parameters, never from a constant. Sibling agreement: generate_literals_for_str forwards both; a helper that hard-codes `slop: 0, prefix: false` silently drops what the user wrote for that kind of field")
    LL = "tantivy::query::query_parser::logical_ast::LogicalLiteral"
    n = 0
    for fid, b in sorted(prog.bodies.items()):
        if "tantivy::query::query_parser::query_parser::" not in fid or "::tests::" in fid or b.kind in ("const", "static", "promoted"):
            continue
        for bi in b.normal_blocks():
            for st in b.stmts(bi):
                if st.get("r") == "agg" and st.get("adt") == LL and st.get("variant") == "Phrase" and "fields" in st:
                    n += 1
                    for fld, o in zip(st["fields"], st.get("o", [])):
                        if fld not in ("slop", "prefix"):
                            continue
                        l = op_local(o)
                        from_param = l is not None and any(x[0] == "param" for x in provenance(b, l))
                        rep.check(from_param, R, "%s: Phrase.%s comes from a parameter" % (short(fid), fld), "forwarded",
                                  "`%s` builds a LogicalLiteral::Phrase whose `%s` is the constant %s: the ~slop / * suffix of a quoted phrase is silently ignored on this kind of field — "
                                  "`js.t:\"big wolf\"~1` matches [9] where `title:\"big wolf\"~1` matches [8, 9]" % (fid, fld, o.get("v") if isinstance(o, dict) else "?"), site=site(b, bi))
    rep.floor(R, "Phrase literals built by the query parser", n, 2)


def run(rep, prog, tier):
    r4(rep, prog)
    r5(rep, prog)
    r6(rep, prog)
    r7(rep, prog)
    rep.rule("C16-R1", "panic inventory: every panicking construct (explicit panic/assert/unreachable, unwrap/expect, indexing/slicing and panicking std APIs, arithmetic overflow/division asserts) in bodies of the parser's source files reachable from parse_query / parse_query_lenient / QueryParser entry points equals the frozen, individually reasoned table (keyed by function + kind + count, no line numbers)")
    rep.rule("C16-R2", "recursion: every cycle (SCC) of the parser scope's call graph needs a recorded depth bound; cycles driven by input nesting without a bound are findings")
    rep.not_decided += ["that the parsed query means what the grammar says", "strict / lenient agreement (semantic)", "panics inside tokenizers, Term builders, date/ip parsing called from the parser (outside the scope, trusted)"]
    ents = entries(prog)
    rep.floor("C16-R1", "parser entry points", len(ents), 5)
    scope = prog.reachable_bodies(ents, scope=in_scope_fn(prog))
    rep.floor("C16-R1", "parser bodies in scope", len(scope), 250)
    inv = panics.fold_closures(panics.inventory(prog, scope))
    PANIC_TABLE = panics.fold_table(PANIC_TABLE_, prog)
    total = sum(len(v) for v in inv.values())
    rep.extra["panic_sites"] = total
    rep.extra["scope_bodies"] = len(scope)
    for k, sites in sorted(inv.items()):
        fid, cls, kind = k
        key = "%s: %s %s" % (short(fid), cls, kind)
        if k in PANIC_TABLE:
            cnt, why = PANIC_TABLE[k]
            rep.check(len(sites) <= cnt, "C16-R1", key, "triaged (%d site(s)): %s" % (len(sites), why),
                      "%d site(s) of %s %s in `%s`, the table has %d: a new panicking construct on the parse path" % (len(sites), cls, kind, fid, cnt),
                      site=site(sites[0][0], sites[0][1]))
        else:
            rep.fail("C16-R1", key, "untriaged panicking construct (%s %s, %d site(s)) reachable from the query parser entry points: "
                     "an input reaching it makes parse_query panic instead of returning an error" % (cls, kind, len(sites)),
                     site=site(sites[0][0], sites[0][1]))
    for k in PANIC_TABLE:
        if k not in inv:
            rep.stale("C16-R1", "%s %s %s" % (short(k[0]), k[1], k[2]), PANIC_TABLE[k][1])
    rep.stale_floor("C16-R1", "triaged panic sites", len(PANIC_TABLE))
    # calls leaving the scope
    out_calls = set()
    for fid in scope:
        b = prog.body(fid)
        for _, t in b.calls():
            for n in prog.call_may_reach(t):
                if n not in scope and prog.body(n) is not None:
                    out_calls.add(n)
    rep.extra["workspace_callees_outside_scope_trusted"] = sorted(short(x) for x in out_calls)[:80]
    # recursion
    comps = sccs(prog.callgraph(), scope)
    rep.extra["recursive_components"] = len(comps)
    for c in comps:
        rep_fn = min(x for x in c if "{closure" not in x) if any("{closure" not in x for x in c) else c[0]
        rep.fail("C16-R2", "unbounded recursion: %s" % short(rep_fn),
                 "call-graph cycle of %d function(s) [%s] without a depth bound; %s: a deeply nested input overflows the stack (process abort, not an Err)"
                 % (len(c), ", ".join(short(x).split("::")[-1] if "{closure" not in x else short(x).split("::")[-2] + "::{closure}" for x in c[:8]), RECURSION_NOTE),
                 site=prog.body(rep_fn).span)
    r3(rep, prog)
    rep.floor("C16-R2", "recursive components found (strict and lenient grammar cycles must be among them)", len(comps), 2)
