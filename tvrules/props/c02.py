"""C02 — a commit publishes exactly the sequential effect of the operations: only the protocol
clauses (atomic opstamps, join before commit, commit task dataflow, batch unit)."""
import re
from ..model import (Ev, must_precede, must_pass, trace_through, trace_back, op_local, op_place, place_local, is_bare, provenance, proj_fields)
from ..rules import (rule_precede, rule_must_pass, rule_result_checked, get_body, calls_to, site, short, rule_who_may_call,
                     option_root, guard_live_at, locals_of_type, return_defs, rule_after_loop, rule_loop_exhausted)

I = "tantivy::indexer::"
SU = I + "segment_updater::"
IW = I + "index_writer::IndexWriter::<D>::"
ST = I + "stamper::Stamper::"


def run(rep, prog, tier):
    rep.rule("C02-R1", "atomic opstamps: Stamper::stamp / stamps obtain their value from exactly one AtomicU64::fetch_add (no load, no non-atomic counter); nothing stores into the counter (opstamps are monotone: a rewind lets older deletes of the queue remove newer documents)")
    rep.rule("C02-R2", "join before commit: prepare_commit closes the document channel, then joins every worker and propagates both error layers before stamping the commit (shared with C11-R3)")
    rep.rule("C02-R3", "commit task dataflow: the entries returned by purge_deletes(opstamp) are what SegmentManager::commit installs (under one write guard), save_metas receives the same opstamp and the task returns it")
    rep.rule("C02-R4", "batch unit: IndexWriter::run draws all opstamps of a batch with one Stamper::stamps call and sends all adds as one batch; add_document / delete_query return the opstamp they stamped the operation with")
    rep.not_decided += ["delete-cursor arithmetic, doc_opstamp < delete_opstamp comparisons, rollback content, delete-all semantics: which documents survive (values / histories)"]
    r1(rep, prog)
    r2(rep, prog)
    r3(rep, prog)
    r4(rep, prog)
    from .c04 import r5 as merge_targets
    merge_targets(rep, prog, "C02-R5")
    rep.rule("C02-R7", "the merged segment resumes the delete queue where its sources stand AFTER they were advanced: in segment_updater::merge the delete cursor given to the new SegmentEntry is read only after the loop over advance_deletes has completed (shared with C04-R1); a cursor cloned before the loop makes the next commit re-apply, without the per-document opstamp test, deletes that are older than documents of the merged segment")
    from .c04 import merged_cursor
    merged_cursor(rep, prog, "C02-R7")
    r8(rep, prog)
    r9(rep, prog)
    r10(rep, prog)
    r11(rep, prog)
    rep.rule("C02-R6", "an accepted batch is indexed completely: in index_documents the loop over one document group (the adds of one IndexWriter::run batch, already stamped and acknowledged) is left only when its iterator is exhausted or with an error; a `break` out of it on an Ok path drops acknowledged adds")
    rule_loop_exhausted(rep, prog, "C02-R6", I + "index_writer::index_documents", {I + "segment_writer::SegmentWriter::add_document"}, "the documents of one group")


def r8(rep, prog):
    """the writer's own record of the last commit follows the commits"""
    R = "C02-R8"
    rep.rule(R, "the writer reports the last commit: IndexWriter::commit_opstamp() returns the field committed_opstamp ('the opstamp of the last successful commit'), which delete_all_documents also uses to rewind the stamper; so some function on the commit path (IndexWriter::commit, PreparedCommit::commit / commit_future and what they reach) stores into that field. A field that is only written by IndexWriter::new keeps reporting the commit that was current when the writer was opened")
    OWNER = "tantivy::indexer::index_writer::IndexWriter"
    writers = set()
    for fid, b in prog.bodies.items():
        if "::tests::" in fid:
            continue
        for bi in b.normal_blocks():
            for st in b.stmts(bi):
                d = st["d"]
                if not is_bare(d):
                    fs = proj_fields(d)
                    if fs and fs[-1][1] == "committed_opstamp" and fs[-1][2].startswith(OWNER):
                        writers.add(fid)
                if st.get("r") == "agg" and (st.get("adt") or "") == OWNER:
                    writers.add(fid + " (constructor)")
    entries = [n for n in prog.bodies if n in (IW + "commit", "tantivy::indexer::prepared_commit::PreparedCommit::<'a, D>::commit",
                                                "tantivy::indexer::prepared_commit::PreparedCommit::<'a, D>::commit_future")]
    if not rep.check(len(entries) >= 2, R, "commit entry points", "%s" % [short(e) for e in entries], "cannot establish: commit entry points not found (%d)" % len(entries)):
        return
    reach = prog.reachable_bodies(entries, scope=lambda y: y.startswith(("tantivy::indexer::", "<tantivy::indexer::")))
    on_commit = sorted(w for w in writers if w in reach)
    rep.check(bool(on_commit), R, "IndexWriter::committed_opstamp is updated on the commit path", "written by %s" % [short(w) for w in on_commit],
              "the field IndexWriter::committed_opstamp is written only by %s and by nothing that commit reaches: after any number of successful commits `commit_opstamp()` still reports the commit that was "
              "current when the writer was created, and delete_all_documents() rewinds the opstamp generator to that stale value" % sorted(short(w) for w in writers), site=prog.bodies[entries[0]].span)


def _slice_ops(body, local, limit=200):
    """binary operators and callee names in the backward slice of `local` (all definitions followed)"""
    ops, calls, seen, work = set(), set(), set(), [local]
    defs = body.defs()
    while work and len(seen) < limit:
        l = work.pop()
        if l in seen:
            continue
        seen.add(l)
        for d in defs.get(l, []):
            if d[0] == "call":
                t = d[2]
                calls.add(t.get("res") or t.get("f") or "")
                for o in t.get("args", []):
                    if op_local(o) is not None:
                        work.append(op_local(o))
            else:
                st = d[3]
                if st.get("r") == "bin":
                    ops.add(st.get("op"))
                if st.get("r") in ("ref", "rawptr", "discr") and "p" in st:
                    work.append(place_local(st["p"]))
                for o in st.get("o", []):
                    if op_local(o) is not None:
                        work.append(op_local(o))
    return ops, calls


def r11(rep, prog):
    """an operation issued after commit N is never counted into commit N"""
    R = "C02-R11"
    rep.rule(R, "the opstamp convention is the same on both sides: a commit's opstamp N is itself a stamp drawn from the stamper (fetch_add returns the old value), so inside one writer the next operation gets N + 1. A writer that is re-opened (or rebuilt by rollback) seeds its stamper from meta.json's opstamp: if the seed is the bare N, its first operation is stamped N again — then the code that applies deletes 'up to a target opstamp' (compute_deleted_bitset, used for commits and for merges, whose target for committed segments is N) must treat the target as exclusive. Rule: either IndexWriter::new seeds Stamper::new with meta.opstamp plus something, or compute_deleted_bitset does not apply a delete whose opstamp equals the target. With both inclusive, `reopen; delete_term(a); merge` publishes the uncommitted delete and rollback cannot undo it")
    nb = get_body(rep, prog, R, IW + "new")
    cb = get_body(rep, prog, R, I + "index_writer::compute_deleted_bitset")
    if nb is None or cb is None:
        return
    seeds = calls_to(prog, nb, {ST + "new"})
    if not rep.check(len(seeds) == 1, R, "IndexWriter::new builds one stamper", "Stamper::new", "cannot establish: IndexWriter::new calls Stamper::new %d times" % len(seeds), site=nb.span):
        return
    sb, stt = seeds[0]
    sl = op_local(stt["args"][0])
    ops, calls = _slice_ops(nb, sl) if sl is not None else (set(), set())
    from_meta = any(c.endswith("Index::load_metas") for c in calls)
    bumped = bool(ops & {"Add", "AddWithOverflow", "AddUnchecked"}) or any(re.search(r"::(checked_add|saturating_add|wrapping_add)$", c) for c in calls)
    rep.check(from_meta, R, "the stamper is seeded from meta.json", "load_metas().opstamp", "IndexWriter::new does not seed its stamper from the index meta: opstamps restart below committed ones", site=site(nb, sb))
    # the comparison of compute_deleted_bitset
    ADV = I + "delete_queue::DeleteCursor::advance"
    advb = {bi for bi, t in cb.calls() if (t.get("res") or t.get("f")) == ADV}
    verdict = None
    where = None
    for bi in cb.normal_blocks():
        t = cb.term(bi)
        if t["k"] != "switch" or op_local(t["on"]) is None:
            continue
        tr = trace_back(cb, op_local(t["on"]))
        if not tr or tr[-1][0] != "bin" or tr[-1][1] not in ("Gt", "Ge", "Lt", "Le", "Eq", "Ne"):
            continue
        bst = cb.stmts(tr[-1][2])[tr[-1][3]]
        provs = []
        for o in bst.get("o", []):
            l = op_local(o)
            tb = trace_back(cb, l) if l is not None else []
            provs.append(tb)
        is_ops = lambda tb: any(x[0] == "field" and x[2] == "opstamp" for x in tb)
        # the target is a parameter named target_opstamp, wherever it stands, or that field of a parameter that bundles them
        pnames = cb.var_names()
        is_tgt = lambda tb: bool(tb) and tb[-1][0] == "param" and (pnames.get(tb[-1][1]) == "target_opstamp" or any(x[0] == "field" and x[2] == "target_opstamp" for x in tb))
        if not ((is_ops(provs[0]) and is_tgt(provs[1])) or (is_ops(provs[1]) and is_tgt(provs[0]))):
            continue
        cond_at_eq = tr[-1][1] in ("Ge", "Le", "Eq")
        listed = {v: tg for v, tg in t["vals"]}
        arm_true = listed.get("1", t.get("else") if "0" in listed else None)
        arm_false = listed.get("0", t.get("else") if "1" in listed else None)
        reach = lambda a: a is not None and bool(advb & (set(cb.reachable((a,), blocked=frozenset({bi}))) | {a}))
        apply_true, apply_false = reach(arm_true), reach(arm_false)
        if apply_true == apply_false:
            continue
        verdict = (cond_at_eq == apply_true)      # does a delete with opstamp == target get applied?
        where = bi
    if not rep.check(verdict is not None, R, "compute_deleted_bitset compares delete_op.opstamp with target_opstamp", "one comparison decides between applying the delete and leaving the loop",
                     "cannot establish: no comparison between delete_op.opstamp and the target_opstamp parameter decides the loop of compute_deleted_bitset", site=cb.span):
        return
    rep.check(bumped or not verdict, R, "an operation stamped after commit N is not counted into N",
              "seed = meta.opstamp%s; a delete with opstamp == target is %s" % (" + k" if bumped else " (bare)", "applied" if verdict else "not applied"),
              "IndexWriter::new seeds the stamper with the bare meta.opstamp N (the stamp the last commit itself drew), so the first operation of a re-opened or rolled-back writer is stamped N again; and compute_deleted_bitset applies "
              "every delete with opstamp <= target. A merge of committed segments (target = N) therefore bakes an UNCOMMITTED delete into the merged segment and end_merge publishes it in meta.json: a reader sees the "
              "delete without any commit, and rollback() cannot bring the document back", site=site(cb, where))


def r10(rep, prog):
    """what a segment-updater task publishes as the commit is read inside the task"""
    R = "C02-R10"
    rep.rule(R, "the active meta is read where it is written: commits and end-of-merge republications are serialised as tasks of the segment-updater thread; a task that republishes the current commit (end_merge: same opstamp and payload, new segment list) must read that commit with load_meta() inside the task. A value read from load_meta() by the caller and carried into the closure handed to schedule_task is a snapshot taken on another thread: a commit queued in between is then overwritten with the older opstamp and payload. Rule: no capture of a closure passed to SegmentUpdater::schedule_task derives from SegmentUpdater::load_meta")
    SCHED = prog.names(r"^tantivy::indexer::segment_updater::SegmentUpdater::schedule_task(::<.*>)?$")
    LOAD = prog.names(r"^tantivy::indexer::segment_updater::SegmentUpdater::load_meta$")
    n = 0
    inner = 0
    for b in prog.bodies.values():
        if not b.span.startswith("src/indexer/segment_updater.rs") or b.kind in ("const", "static", "promoted"):
            continue
        for bi, t in b.calls():
            f = t.get("res") or t.get("f") or ""
            if f not in SCHED and (t.get("f") or "") not in SCHED:
                continue
            n += 1
            cl = op_local(t["args"][1]) if len(t["args"]) > 1 else None
            lv = provenance(b, cl) if cl is not None else set()
            stale = sorted({x[1] for x in lv if x[0] == "call" and x[1] in LOAD})
            rep.check(not stale, R, "task scheduled by %s captures no load_meta() snapshot" % short(b.id), "captures: %s" % sorted({x[0] for x in lv}),
                      "`%s` reads the active meta with load_meta() on the calling thread and carries the value into the task it schedules on the segment-updater thread: by the time the task runs, a later commit may have "
                      "been published, and the task republishes the older opstamp / payload over it (the metadata then report a commit older than the one commit() returned; a re-opened writer re-issues its opstamps)" % b.id,
                      site=site(b, bi))
    for fid, b in prog.bodies.items():
        if fid.startswith("tantivy::indexer::segment_updater::SegmentUpdater::end_merge::{closure"):
            inner += len(calls_to(prog, b, LOAD))
    rep.floor(R, "schedule_task call sites", n, 4)
    rep.check(inner >= 1, R, "end_merge reads the commit it republishes inside its task", "%d load_meta() call(s) in the end_merge task" % inner,
              "the end_merge task no longer reads the active meta itself (no load_meta() inside the closure): whatever it republishes was read on another thread")


def r9(rep, prog):
    """delete-all also covers the documents that are still in the indexing pipeline"""
    R = "C02-R9"
    rep.rule(R, "delete-all covers the pipeline: documents accepted before delete_all_documents() may still sit in the operation channel or in a worker's open SegmentWriter; so delete_all_documents (like rollback and prepare_commit) must synchronise with the indexing workers — close / recreate the document channel, join the workers or drain the receiver — before or while it clears the segment registers. Clearing only the registers lets `add a; delete_all; add b; commit` publish a")
    fid = IW + "delete_all_documents"
    b = get_body(rep, prog, R, fid)
    if b is None:
        return
    SYNC = re.compile(r"IndexWriter::<D>::(recreate_document_channel|operation_receiver|drop_sender)$|JoinHandle::<T>::join$|IndexWriterStatus::<D>::operation_receiver$")
    reach = prog.reachable_bodies([fid], scope=lambda y: y.startswith(("tantivy::indexer::", "<tantivy::indexer::")))
    hit = []
    for f in sorted(reach | {fid}):
        bb = prog.bodies.get(f)
        if bb is None:
            continue
        for bi, t in bb.calls():
            if SYNC.search(t.get("res") or t.get("f") or ""):
                hit.append(short(f))
    rep.check(bool(hit), R, "delete_all_documents synchronises with the indexing workers", "%s" % sorted(set(hit)),
              "IndexWriter::delete_all_documents only clears the segment registers (it reaches no channel recreation, worker join or receiver drain): documents that were acknowledged before the call "
              "but are still in the channel or in a worker's segment writer survive the delete-all and are published by the next commit", site=b.span)


def r1(rep, prog):
    R = "C02-R1"
    FA = prog.names(r"^core::sync::atomic::Atomic::<u64>::fetch_add$|AtomicU64::fetch_add$")
    LD = prog.names(r"^core::sync::atomic::Atomic::<u64>::load$|AtomicU64::load$")
    STORE = prog.names(r"^core::sync::atomic::Atomic::<u64>::(store|swap|compare_exchange|fetch_sub|fetch_update)$")
    for m in ("stamp", "stamps"):
        body = get_body(rep, prog, R, ST + m)
        if body is None:
            continue
        fa = calls_to(prog, body, FA)
        ld = calls_to(prog, body, LD | STORE)
        ok = len(fa) == 1 and not ld
        rep.check(ok, R, "Stamper::%s is one atomic read-modify-write" % m, "exactly one fetch_add, no load/store",
                  "Stamper::%s uses %d fetch_add and %d load/store: two producers can obtain the same opstamp" % (m, len(fa), len(ld)), site=body.span)
        if fa:
            # the returned value derives from the fetch_add result
            lv = provenance(body, 0)
            rep.check(any(l[0] == "call" and l[1] in FA for l in lv), R, "Stamper::%s returns the value fetched" % m, "result <- fetch_add", "Stamper::%s does not return the fetched value" % m, site=body.span)
    # the counter is an atomic
    adt = prog.adts.get(I + "stamper::Stamper")
    if adt is not None:
        ft = prog.crate_types["tantivy"][adt["variants"][0]["fields"][0]["ty"]]["s"]
        rep.check("Atomic" in ft, R, "the stamper's counter is atomic", ft, "Stamper's counter is not an atomic (%s)" % ft, site=adt["span"])
    # stores on an AtomicU64 inside the stamper module
    stores = [(b, bi, t) for (b, bi, t) in prog.who_calls(STORE) if b.span.startswith("src/indexer/stamper.rs")]
    callers = sorted({b.id for (b, bi, t) in prog.who_calls({x.id for x, _, _ in stores})}) if stores else []
    rep.check(not stores, R, "opstamps are monotone: nothing stores into the stamper's counter", "fetch_add is the only write",
              "the opstamp generator can be rewound: %s store(s) into the stamper's counter (called by %s). The delete queue keeps the deletes issued so far: a document added after a rewind gets an "
              "opstamp smaller than theirs and is removed by deletes that were issued before it was added; commit opstamps go backwards" % (sorted({short(b.id) for b, _, _ in stores}), [short(c) for c in callers]),
              site=site(stores[0][0], stores[0][1]) if stores else "")
    rule_who_may_call(rep, prog, R, {ST + "new"}, "Stamper::new", {IW + "new": "one stamper per writer, seeded with the committed opstamp"})
    nb = prog.body(IW + "new")
    if nb is not None:
        for b, t in calls_to(prog, nb, {ST + "new"}):
            tr = trace_through(nb, op_local(t["args"][0]))
            rep.check(any(s[0] == "field" and s[2] == "opstamp" for s in tr) and any(s[0] == "call" and s[1].endswith("Index::load_metas") for s in tr), R,
                      "the stamper starts at the committed opstamp", "Stamper::new(index.load_metas()?.opstamp)", "the stamper is not seeded from meta.json's opstamp", site=site(nb, b))


def r2(rep, prog):
    from .c11 import r3 as c11r3

    class View:
        """report C11-R3's obligations under this property's rule id"""
        def __init__(self, rep):
            self._r = rep

        def __getattr__(self, k):
            return getattr(self._r, k)

        def ok(self, rule, *a, **kw):
            return self._r.ok("C02-R2", *a, **kw)

        def fail(self, rule, *a, **kw):
            return self._r.fail("C02-R2", *a, **kw)

        def check(self, cond, rule, *a, **kw):
            return self._r.check(cond, "C02-R2", *a, **kw)

        def floor(self, rule, *a, **kw):
            return self._r.floor("C02-R2", *a, **kw)
    c11r3(View(rep), prog)
    # the commit opstamp is stamped after the joins
    JOIN = prog.names(r"^std::thread::(join_handle::)?JoinHandle::<T>::join$")
    rule_after_loop(rep, prog, "C02-R2", IW + "prepare_commit", JOIN, {ST + "stamp"}, "JoinHandle::join", "Stamper::stamp (commit opstamp)")


def r3(rep, prog):
    R = "C02-R3"
    fid = SU + "SegmentUpdater::schedule_commit::{closure#0}"
    body = get_body(rep, prog, R, fid)
    if body is None:
        return

    def upvar_field(o):
        pl = op_place(o)
        if pl is None:
            return None
        fs = proj_fields(pl)
        if place_local(pl) == 1 and fs:
            return fs[0][0]
        tr = trace_back(body, place_local(pl))
        for s in tr:
            if s[0] == "field":
                last = s
        f = [s for s in tr if s[0] == "field"]
        if f and tr[-1] == ("param", 1):
            return f[-1][1]
        return None
    purge = calls_to(prog, body, {SU + "SegmentUpdater::purge_deletes"})
    commit = calls_to(prog, body, {I + "segment_manager::SegmentManager::commit"})
    save = calls_to(prog, body, {SU + "SegmentUpdater::save_metas"})
    if not rep.check(len(purge) == 1 and len(commit) == 1 and len(save) == 1, R, "commit task: anchors", "purge_deletes, SegmentManager::commit, save_metas", "cannot establish: the commit task lacks purge_deletes / commit / save_metas", site=body.span):
        return
    f_p = upvar_field(purge[0][1]["args"][1])
    f_s = upvar_field(save[0][1]["args"][1])
    rets = return_defs(body)
    f_r = None
    for kind, b, x in rets:
        if kind == "ok" and x is not None:
            tr = trace_back(body, x)
            f = [s for s in tr if s[0] == "field"]
            if f and tr[-1] == ("param", 1):
                f_r = f[-1][1]
    rep.check(f_p is not None and f_p == f_s == f_r, R, "purge_deletes, save_metas and the returned value use the same opstamp", "captured variable #%s" % f_p,
              "the commit task uses different opstamps: purge_deletes <- capture %s, save_metas <- capture %s, returned <- capture %s" % (f_p, f_s, f_r), site=site(body, save[0][0]))
    o = commit[0][1]["args"][1]
    tr = trace_through(body, op_local(o))
    rep.check("m" in o and any(s[0] == "call" and s[1] == SU + "SegmentUpdater::purge_deletes" for s in tr), R, "the purged entries are what the commit installs", "SegmentManager::commit(move purge_deletes(opstamp)?)",
              "SegmentManager::commit does not receive the entries returned by purge_deletes", site=site(body, commit[0][0]))
    pb = get_body(rep, prog, R, SU + "SegmentUpdater::purge_deletes")
    if pb is not None:
        names = pb.var_names()
        p = [l for l in range(1, pb.argc + 1) if names.get(l) == "target_opstamp"]
        for b, t in calls_to(prog, pb, {I + "index_writer::advance_deletes"}):
            rep.check(bool(p) and option_root(pb, t["args"][2]) == ("param", p[0]), R, "purge_deletes applies deletes up to the commit opstamp", "advance_deletes(.., .., target_opstamp)",
                      "purge_deletes advances deletes to another opstamp than the commit's", site=site(pb, b))
    sb = get_body(rep, prog, R, SU + "SegmentUpdater::save_metas")
    if sb is not None:
        names = sb.var_names()
        agg = [st for bi in sb.normal_blocks() for st in sb.stmts(bi) if st.get("r") == "agg" and st.get("adt") == "tantivy::index::index_meta::IndexMeta"]
        okk = False
        for st in agg:
            i = st["fields"].index("opstamp")
            j = st["fields"].index("payload")
            ro = option_root(sb, st["o"][i])
            rp = option_root(sb, st["o"][j])
            okk = ro[0] == "param" and names.get(ro[1]) == "opstamp" and rp[0] == "param" and names.get(rp[1]) == "commit_message"
        rep.check(okk, R, "save_metas writes the opstamp and payload it was given", "IndexMeta{opstamp: opstamp, payload: commit_message}", "SegmentUpdater::save_metas does not put its opstamp / payload parameters into the IndexMeta", site=sb.span)
        cm = calls_to(prog, sb, {I + "segment_manager::SegmentManager::committed_segment_metas"})
        rep.check(len(cm) == 1, R, "the published segment list is the committed register", "committed_segment_metas()", "SegmentUpdater::save_metas does not list the committed register", site=sb.span)


def r4(rep, prog):
    R = "C02-R4"
    body = get_body(rep, prog, R, IW + "run")
    if body is not None:
        gb = calls_to(prog, body, {IW + "get_batch_opstamps"})
        sb = calls_to(prog, body, {IW + "send_add_documents_batch"})
        st = calls_to(prog, body, {ST + "stamps"})
        # the range is drawn by get_batch_opstamps or, when that helper is written into run, by Stamper::stamps itself
        draws = sorted({b for b, _ in gb} | {b for b, _ in st})
        gb = [(b, body.term(b)) for b in draws]
        rep.check(len(draws) == 1 and len(sb) == 1, R, "run draws its opstamps once and sends one batch", "1 get_batch_opstamps, 1 send_add_documents_batch",
                  "IndexWriter::run draws opstamps %d time(s) and sends %d batch(es): the operations of one batch are no longer contiguous / one unit" % (len(draws), len(sb)), site=body.span)
        if gb and sb:
            # neither is inside the loop over operations
            for what, (b, t) in (("get_batch_opstamps", gb[0]), ("send_add_documents_batch", sb[0])):
                rep.check(b not in body.reachable(tuple(body.succ(b))), R, "run: %s is outside the operation loop" % what, "not on a cycle", "%s is called once per operation" % what, site=site(body, b))
            rule_must_pass(rep, prog, R, IW + "run", {IW + "send_add_documents_batch"}, "send_add_documents_batch", a_ok=True, starts=tuple(body.succ(gb[0][0])), start_what="get_batch_opstamps")
    gbb = get_body(rep, prog, R, IW + "get_batch_opstamps")
    if gbb is not None:
        standin = gbb.id != IW + "get_batch_opstamps"      # the helper was written into run (which stamps an empty batch with stamp())
        rep.check(len(calls_to(prog, gbb, {ST + "stamps"})) == 1 and (standin or not calls_to(prog, gbb, {ST + "stamp"})), R, "get_batch_opstamps uses one Stamper::stamps call", "contiguous range", "get_batch_opstamps no longer draws one contiguous range", site=gbb.span)
    for m, op_adt in (("add_document", I + "operation::AddOperation"), ("delete_query", I + "operation::DeleteOperation")):
        b = get_body(rep, prog, R, IW + m)
        if b is None:
            continue
        stc = calls_to(prog, b, {ST + "stamp"})
        if not rep.check(len(stc) == 1, R, "%s stamps once" % m, "1 Stamper::stamp", "%s stamps %d times" % (m, len(stc)), site=b.span):
            continue
        sblk = stc[0][0]
        aggs = [(bi, st) for bi in b.normal_blocks() for st in b.stmts(bi) if st.get("r") == "agg" and st.get("adt") == op_adt]
        ok_op = False
        for bi, st in aggs:
            i = st["fields"].index("opstamp")
            tr = trace_back(b, op_local(st["o"][i])) if op_local(st["o"][i]) is not None else []
            ok_op = bool(tr) and tr[-1][0] == "call" and tr[-1][2] == sblk
        ok_ret = False
        for kind, bi, x in return_defs(b):
            if kind == "ok" and x is not None:
                tr = trace_back(b, x)
                ok_ret = bool(tr) and tr[-1][0] == "call" and tr[-1][2] == sblk
        rep.check(ok_op and ok_ret, R, "%s returns the opstamp it put into the operation" % m, "operation.opstamp and Ok(opstamp) both <- the same stamp() call",
                  "%s: the opstamp stored in the operation (%s) and the one returned (%s) do not both come from its single stamp() call" % (m, ok_op, ok_ret), site=b.span)
