"""C05 — searchers are immutable snapshots; readers only ever see whole commits."""
from ..model import (Ev, must_pass, must_precede, trace_through, trace_back, op_local, op_place, place_local,
                     is_bare, provenance)
from ..rules import (rule_precede, rule_must_pass, rule_result_checked, rule_who_may_call, get_body, family,
                     calls_to, site, short, rule_between, return_defs, guard_live_at, locals_of_type)

D = "tantivy::directory::directory::Directory::"
RD = "tantivy::reader::InnerIndexReader::"
SR = "tantivy::index::segment_reader::SegmentReader"
I = "tantivy::indexer::"


def run(rep, prog, tier):
    rep.rule("C05-R1", "reader-side lock region: meta.json is read and every SegmentReader::open runs while the META_LOCK DirectoryLock is alive; who-may-call SegmentReader::open* equals the frozen table")
    rep.rule("C05-R3", "eager open: SegmentReader's fields cannot reach a Directory / Index / Segment / path; Segment::open_read is only called while opening, never from a later method")
    rep.rule("C05-R4", "no mutable access to shared bytes: no function of ownedbytes / FileSlice / FileHandle impls returns &mut [u8] or a raw mutable pointer; no DerefMut/AsMut/BorrowMut impl for them")
    rep.rule("C05-R5", "atomic publish of whole states: the only ArcSwap::store is in InnerIndexReader::reload and its argument is the Ok value of create_searcher (fully built, warmed)")
    rep.rule("C05-R6", "monotone reload: the meta.json read (create_searcher) and the publish (ArcSwap::store) happen inside one mutual-exclusion region, so overlapping reloads publish in read order")
    rep.not_decided += ["equality of answers of a held searcher over time (follows from R3/R4 + file immutability, not checked as values)", "multi-process reload races beyond the META_LOCK region"]
    r1(rep, prog)
    r3(rep, prog)
    r4(rep, prog)
    r5(rep, prog)
    r6(rep, prog)
    rep.rule("C05-R7", "what a reload can see is a committed state (shared with C02-R5 / C04-R5): merge operations built from the committed segments carry the opstamp of the last commit (load_meta().opstamp), so a background merge that rewrites meta.json between two commits cannot publish deletes that were never committed; merges of uncommitted segments carry a fresh stamp")
    from ..report import Retag
    from .c04 import r5 as merge_targets
    merge_targets(Retag(rep, "C05-R7"), prog, "C05-R7")
    rep.rule("C05-R8", "a dead writer publishes nothing (shared with C11-R8): SegmentUpdater::save_metas writes meta.json only on the true arm of is_alive(); tasks that were already queued when the writer was rolled back or dropped still run on the updater thread, and without the guard they overwrite the meta.json of the replacement writer — a reload moves back to an older commit")
    from .c11 import publish_only_alive
    publish_only_alive(rep, prog, "C05-R8")
    flock_files_stay(rep, prog, "C05-R9")


def flock_files_stay(rep, prog, R):
    """a lock that is an flock on a file keeps the file"""
    rep.rule(R, "flock-based lock files are never unlinked: MmapDirectory's locks (META_LOCK, which protects a reader between reading meta.json and opening the segment files from the garbage collector; INDEX_WRITER_LOCK) are `flock`s on a file that stays in the directory. Unlinking the file on release breaks mutual exclusion: a party already blocked in flock() gets the lock on the now unlinked inode, the next party finds no file, creates a new one and locks it at once. So the only caller of std::fs::remove_file in the mmap directory is MmapDirectory::delete, and the Drop of the lock guard touches no file")
    import re
    RM = prog.names(r"^std::fs::(remove_file|remove_dir|remove_dir_all)$")
    ok, callers = rule_who_may_call(rep, prog, R, RM, "std::fs::remove_file", {
        "<tantivy::directory::mmap_directory::MmapDirectory as tantivy::directory::directory::Directory>::delete": "Directory::delete of a managed file (C10-R3 tables who calls it)",
    })
    drops = [n for n in prog.bodies if re.search(r"^<tantivy::directory::mmap_directory::ReleaseLockFile as core::ops::drop::Drop>::drop$", n)]
    if rep.check(len(drops) == 1, R, "ReleaseLockFile::drop present", "the guard of an MmapDirectory lock", "cannot establish: Drop for mmap_directory::ReleaseLockFile not found"):
        b = prog.bodies[drops[0]]
        fsc = [t.get("f") for _, t in b.calls() if (t.get("f") or "").startswith(("std::fs::", "std::os::", "tantivy::directory::"))]
        rep.check(not fsc, R, "releasing an MmapDirectory lock only drops the file handle", "no file system call in ReleaseLockFile::drop",
                  "ReleaseLockFile::drop calls %s: the lock is an flock on that file; removing or replacing the file lets a second party lock a fresh inode while another still holds (or is about to be granted) the old one" % fsc, site=b.span)


def r1(rep, prog):
    R = "C05-R1"
    fid = RD + "open_segment_readers"
    body = get_body(rep, prog, R, fid)
    if body is not None:
        acq = calls_to(prog, body, family(prog, D + "acquire_lock"))
        rep.check(len(acq) == 1, R, "open_segment_readers acquires one lock", "1 acquire_lock", "expected one acquire_lock call, found %d" % len(acq), site=body.span)
        for b, t in acq:
            lv = provenance(body, op_local(t["args"][1]))
            rep.check(("static", "tantivy::directory::directory_lock::META_LOCK") in lv, R, "open_segment_readers acquires META_LOCK", "lock argument is the META_LOCK static",
                      "open_segment_readers acquires another lock than META_LOCK", site=site(body, b))
        rule_result_checked(rep, prog, R, fid, family(prog, D + "acquire_lock"), "acquire_lock(&META_LOCK)")
        names = body.var_names()
        gs = [l for l in locals_of_type(body, lambda row: row["k"] == "adt" and row.get("def") == "tantivy::directory::directory::DirectoryLock") if l in names]
        x = [Ev(b, "term", what="searchable_segments") for b, t in calls_to(prog, body, {"tantivy::index::index::Index::searchable_segments"})]
        # the readers are opened either through an adaptor that is handed `SegmentReader::open` as a value (the
        # opening then happens inside the consuming `collect`) or by direct calls in a loop
        opens = [Ev(b, "term", what="map(SegmentReader::open)") for b, t in body.calls() if any(o.get("fn") == SR + "::open" for o in t["args"])]
        coll = [Ev(b, "term", what="collect") for b, t in body.calls() if t.get("f", "").endswith("Iterator::collect")]
        direct = [Ev(b, "term", what="SegmentReader::open") for b, t in calls_to(prog, body, {SR + "::open"})]
        if direct and not opens:
            opens, coll = direct, direct
        elif direct:
            opens = opens + direct
        if rep.check(bool(gs) and bool(x) and bool(opens) and bool(coll), R, "open_segment_readers: anchors",
                     "named DirectoryLock local, searchable_segments, map(SegmentReader::open), collect",
                     "cannot establish: guard local (bound to `_`?) / searchable_segments / SegmentReader::open / collect missing in open_segment_readers "
                     "(guards=%d meta-read=%d opens=%d collect=%d)" % (len(gs), len(x), len(opens), len(coll)), site=body.span):
            ok, why = guard_live_at(body, gs[0], x + opens + coll)
            rep.check(ok, R, "meta.json is read and segments are opened while META_LOCK is held", why,
                      "in open_segment_readers the META_LOCK guard is not alive over the meta.json read and the segment opening: %s "
                      "(GC in another process can delete a listed file before it is opened)" % why, site=site(body, x[0].b))
    # searchable_segments -> load_metas -> atomic_read(meta.json)
    sb = get_body(rep, prog, R, "tantivy::index::index::Index::searchable_segments")
    # who may open segment readers
    allowed = {
        RD + "open_segment_readers": "the reader side itself: the calls are checked above to lie in the META_LOCK region (absent when the readers are opened through `map(SegmentReader::open)`)",
        I + "index_writer::advance_deletes": "writer side: the segment is protected by its live SegmentEntry/SegmentMeta",
        I + "index_writer::apply_deletes": "writer side: freshly written segment, protected by its live Segment",
        "tantivy::index::index::Index::fields_metadata::{closure#0}": "introspection over searchable segments (not the search path)",
    }
    rule_who_may_call(rep, prog, R, {SR + "::open"}, "SegmentReader::open", allowed, floor=len(allowed) - 1)
    refs = sorted(b.id for b in prog.bodies.values() if (SR + "::open") in prog.body_refs(b))
    rep.check(set(refs) <= {RD + "open_segment_readers"}, R, "SegmentReader::open as a value is only used by open_segment_readers", "%s" % [short(r) for r in refs],
              "SegmentReader::open is passed as a function value in %s: a search-path open outside the META_LOCK region" % refs)
    rule_who_may_call(rep, prog, R, {SR + "::open_with_custom_alive_set"}, "SegmentReader::open_with_custom_alive_set", {
        I + "merger::IndexMerger::open_with_custom_alive_set": "merge input readers (writer side, entries held by the merge operation)",
        SR + "::open": "delegation",
    })


def r3(rep, prog):
    R = "C05-R3"
    tid = [i for i, r in enumerate(prog.crate_types["tantivy"]) if r["s"] == SR]
    if rep.check(len(tid) == 1 and SR in prog.adts, R, "struct SegmentReader exists", "found", "cannot establish: SegmentReader type not found"):
        forb = ("tantivy::directory::managed_directory::ManagedDirectory", "tantivy::index::index::Index", "tantivy::index::segment::Segment",
                "std::path::PathBuf", "tantivy::directory::mmap_directory::MmapDirectory", "tantivy::directory::ram_directory::RamDirectory")

        def pred(row):
            if row["k"] == "dyn" and any(t == "tantivy::directory::directory::Directory" for t in row.get("tr", [])):
                return True
            return row["k"] == "adt" and row.get("def") in forb
        hits = prog.type_mentions("tantivy", tid[0], pred)
        nfields = len(prog.adts[SR]["variants"][0]["fields"])
        rep.check(not hits, R, "SegmentReader holds no way back to the directory", "%d fields walked transitively; no Directory / Index / Segment / PathBuf reachable" % nfields,
                  "SegmentReader can reach %s via %s: a file could be opened lazily, after GC removed it" % (hits[0][1]["s"] if hits else "", " -> ".join(hits[0][0]) if hits else ""),
                  site=prog.adts[SR]["span"])
    rule_who_may_call(rep, prog, R, {"tantivy::index::segment::Segment::open_read"}, "Segment::open_read", {
        SR + "::open_with_custom_alive_set": "eager open of every component",
        I + "segment_writer::remap_and_write": "writer: reads back fieldnorms / temp store of the segment being written",
        I + "merger::IndexMerger::write": "writer: reads back fieldnorms of the segment being merged",
    })
    ob = get_body(rep, prog, R, SR + "::open_with_custom_alive_set")
    if ob is not None:
        cs = calls_to(prog, ob, {"tantivy::index::segment::Segment::open_read"})
        rep.floor(R, "Segment::open_read calls in open_with_custom_alive_set", len(cs), 6)
    # no method of SegmentReader other than the open* constructors takes a Segment
    bad = []
    n = 0
    for b in prog.bodies.values():
        if b.id.startswith(SR + "::") and b.kind == "assocfn" and not b.id.split("::")[-1].startswith("open"):
            n += 1
            for l in range(1, b.argc + 1):
                if "tantivy::index::segment::Segment" in b.local_ty_str(l):
                    bad.append(b.id)
    rep.check(not bad, R, "no SegmentReader method takes a Segment after opening", "%d methods scanned" % n, "SegmentReader methods taking a Segment: %s" % bad)


def r4(rep, prog):
    R = "C05-R4"

    def mut_bytes(row, types):
        if row["k"] in ("ref", "ptr") and row.get("mut"):
            inner = types[row["a"][0]]
            if inner["s"] in ("[u8]", "u8") or (inner["k"] in ("slice", "array") and types[inner["a"][0]]["s"] == "u8"):
                return True
        return False
    scopes = [b for b in prog.bodies.values() if b.kind in ("fn", "assocfn") and (
        b.crate == "ownedbytes" or b.id.startswith("tantivy_common::file_slice::") or "tantivy_common::file_slice::" in b.id
        or "as tantivy_common::file_slice::FileHandle>" in b.id)]
    bad = []
    for b in scopes:
        types = b.types
        stack = [b.locals[0]]
        seen = set()
        while stack:
            t = stack.pop()
            if t in seen:
                continue
            seen.add(t)
            row = types[t]
            if mut_bytes(row, types):
                bad.append(b)
                break
            stack.extend(row.get("a", []))
    rep.floor(R, "functions of ownedbytes / FileSlice / FileHandle impls scanned", len(scopes), 40)
    rep.check(not bad, R, "no API of OwnedBytes / FileSlice / FileHandle hands out mutable bytes", "%d signatures scanned" % len(scopes),
              "%s returns mutable access to shared bytes" % (bad[0].id if bad else ""), site=(bad[0].span if bad else ""))
    forb_traits = ("core::ops::deref::DerefMut", "core::convert::AsMut", "core::borrow::BorrowMut", "core::ops::index::IndexMut", "std::io::Write")
    targets = ("ownedbytes::OwnedBytes", "tantivy_common::file_slice::FileSlice")
    hits = [im for im in prog.impls if im.get("trait") in forb_traits and prog.impl_self_ty(im).get("def") in targets]
    rep.check(not hits, R, "no DerefMut / AsMut / BorrowMut / IndexMut / Write impl for OwnedBytes or FileSlice", "impl table scanned (%d impls)" % len(prog.impls),
              "mutable-access impl found: %s" % [(h.get("trait"), h["span"]) for h in hits])
    # Searcher / SegmentReader expose no &mut self method
    nm = 0
    bad = []
    for b in prog.bodies.values():
        if b.kind == "assocfn" and (b.id.startswith(SR + "::") or b.id.startswith("tantivy::core::searcher::Searcher::")) and b.argc >= 1:
            nm += 1
            row = b.local_ty(1)
            if row["k"] == "ref" and row.get("mut") and b.types[row["a"][0]]["s"] in (SR, "tantivy::core::searcher::Searcher"):
                bad.append(b.id)
    rep.floor(R, "Searcher / SegmentReader methods scanned", nm, 30)
    rep.check(not bad, R, "Searcher and SegmentReader have no &mut self method", "%d methods" % nm, "&mut self methods: %s" % bad)


def r5(rep, prog):
    R = "C05-R5"
    STORE = prog.names(r"^arc_swap::ArcSwapAny::<T, S>::(store|swap|rcu|compare_and_swap)$")
    ok, callers = rule_who_may_call(rep, prog, R, STORE, "ArcSwap::store/swap", {RD + "reload": "the only publisher of a new searcher"})
    body = get_body(rep, prog, R, RD + "reload")
    if body is None:
        return
    for b, t in calls_to(prog, body, STORE):
        tr = trace_through(body, op_local(t["args"][1]))
        okk = any(s[0] == "call" and s[1] == RD + "create_searcher" for s in tr) and (("downcast", "Continue") in tr or ("downcast", "Ok") in tr)
        rep.check(okk, R, "reload publishes the Ok value of create_searcher", "store(arg) <- Continue(create_searcher(..)?)",
                  "the value stored by reload does not flow from the Ok-continuation of create_searcher", site=site(body, b))
    rule_precede(rep, prog, R, RD + "reload", {RD + "create_searcher"}, STORE, "create_searcher", "ArcSwap::store")
    cb = get_body(rep, prog, R, RD + "create_searcher")
    if cb is not None:
        WARM = {"tantivy::reader::warming::WarmingState::warm_new_searcher_generation"}
        rule_must_pass(rep, prog, R, cb.id, WARM, "warm_new_searcher_generation", a_ok=True)
        rule_must_pass(rep, prog, R, cb.id, {RD + "open_segment_readers"}, "open_segment_readers", a_ok=True)
        for kind, b, x in return_defs(cb):
            tr = trace_through(cb, x, transparent=("core::clone::Clone::clone",) + tuple(prog.names(r"^alloc::sync::Arc::<T>::new$"))) if kind == "ok" and x is not None else []
            rep.check(any(s[0] == "call" and "SearcherInner::new" in s[1] for s in tr) or any(s[0] == "call" and s[1].endswith("Arc::<T>::new") for s in tr), R,
                      "create_searcher returns the searcher it built", "Ok(Arc::new(SearcherInner::new(..)?))", "create_searcher returns something else than the SearcherInner it built", site=site(cb, b))


def r6(rep, prog):
    R = "C05-R6"
    body = get_body(rep, prog, R, RD + "reload")
    if body is None:
        return
    STORE = prog.names(r"^arc_swap::ArcSwapAny::<T, S>::(store|swap|rcu|compare_and_swap)$")
    st = [Ev(b, "term", what="ArcSwap publish") for b, t in calls_to(prog, body, STORE)]
    cr = [Ev(b, "term", what="create_searcher") for b, t in calls_to(prog, body, {RD + "create_searcher"})]
    if not rep.check(bool(st) and bool(cr), R, "reload: anchors", "create_searcher and store found", "cannot establish: create_searcher / store missing in reload", site=body.span):
        return
    guards = locals_of_type(body, lambda row: row["k"] == "adt" and row.get("def", "").endswith(("MutexGuard", "RwLockWriteGuard")))
    names = body.var_names()
    ok_any = False
    why = "no MutexGuard / RwLockWriteGuard local in reload"
    for g in guards:
        ok, why = guard_live_at(body, g, cr + st)
        if ok:
            ok_any = True
            break
    rep.check(ok_any, R, "reload: the meta read and the publish are in one critical section", why,
              "InnerIndexReader::reload reads meta.json (create_searcher) and publishes (ArcSwap::store) outside any common critical section: "
              "two overlapping reloads can publish in the opposite order of their reads and move the reader back to an older commit (%s)" % why,
              site=site(body, st[0].b))
