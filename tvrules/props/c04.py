"""C04 — merging never changes the logical content: only the merge protocol."""
from ..model import (Ev, must_precede, must_pass, trace_through, trace_back, op_local, op_place, place_local, is_bare, provenance, proj_fields,
                     reach_positions, flows_to, ok_continuation_events)
from ..rules import (rule_precede, rule_must_pass, rule_result_checked, rule_between, get_body, calls_to, site, short, rule_who_may_call,
                     option_root, guard_live_at, locals_of_type, local_kill_events, rule_after_loop)

I = "tantivy::indexer::"
SU = I + "segment_updater::"
ADV = I + "index_writer::advance_deletes"
SM = I + "segment_manager::SegmentManager::"


def run(rep, prog, tier):
    rep.rule("C04-R1", "segment_updater::merge advances the deletes of every source entry to the target opstamp (third argument = the parameter) before IndexMerger::open, and opens the merger on segments built from the advanced entries' metas")
    rep.rule("C04-R2", "end_merge task: deletes that arrived during the merge are applied (advance_deletes to the committed opstamp) before the swap, whose error returns first; SegmentManager::end_merge removes and adds on one register under one write guard; a committed merge re-saves the meta with unchanged opstamp and payload; a refused swap returns before save_metas")
    rep.rule("C04-R3", "one mapping drives all structures in IndexMerger::write (shared with C17-R1)")
    rep.rule("C04-R4", "merge results are caught: merge is only called inside catch_unwind of the merge task (shared with C11-R4)")
    rep.not_decided += ["translation validation of merged postings / columns / store (values)"]
    r1(rep, prog)
    r2(rep, prog)
    r34(rep, prog)
    r5(rep, prog, "C04-R5")
    r6(rep, prog)


def r6(rep, prog):
    """a finished merge is applied only if ALL of its source segments are still registered"""
    import re
    from ..rules import dominating_guards
    R = "C04-R6"
    rep.rule(R, "a merge result replaces its sources only while all of them are still there: SegmentManager::end_merge asks SegmentRegisters::segments_status(source ids) and discards the merged segment when the answer is None. Two merges may share a source segment (IndexWriter::merge does not look at what is already being merged; a policy merge can overlap an explicit one): the first to end removes the shared segment, the second must then be refused — so every `Some(status)` answer of segments_status is decided by a test that ALL the given ids are in one register (SegmentRegister::contains_all, or Iterator::all over the ids without any filtering adaptor). A lookup that skips ids it does not find applies both merges: the shared segment's documents are in the index twice")
    fid = I + "segment_manager::SegmentRegisters::segments_status"
    b = get_body(rep, prog, R, fid)
    if b is None:
        return
    FILTER = re.compile(r"Iterator::(filter|filter_map|flat_map|take|skip|take_while|skip_while|step_by)$")
    somes = []
    for bi in b.normal_blocks():
        for st in b.stmts(bi):
            if st.get("r") == "agg" and st.get("adt") == "core::option::Option" and st.get("variant") == "Some" and is_bare(st["d"]) and st["d"] == 0:
                somes.append(bi)
    if not rep.check(bool(somes), R, "segments_status has Some(..) answers", "%d" % len(somes), "cannot establish: no `Some(status)` answer found in SegmentRegisters::segments_status", site=b.span):
        return
    for bi in somes:
        ok = False
        why = "no dominating all-ids test"
        for sb, through, gl in dominating_guards(b, bi):
            tr = trace_back(b, gl)
            if not tr or tr[-1][0] != "call":
                continue
            callee = tr[-1][1]
            t = b.term(tr[-1][2])
            if callee.endswith("SegmentRegister::contains_all") and set(through) <= {"else", "1"}:
                lv = provenance(b, op_local(t["args"][1])) if len(t["args"]) > 1 and op_local(t["args"][1]) is not None else set()
                if ("param", 2) in lv:
                    ok = True
            elif re.search(r"Iterator>?::all$", callee) and set(through) <= {"else", "1"}:
                lv = provenance(b, op_local(t["args"][0])) if op_local(t["args"][0]) is not None else set()
                calls = {x[1] for x in lv if x[0] == "call"}
                if any(FILTER.search(c) for c in calls):
                    why = "the ids go through %s before the all() test" % sorted(short(c) for c in calls if FILTER.search(c))
                elif ("param", 2) in provenance(b, op_local(t["args"][0]), extra_transparent=tuple(calls)):
                    ok = True
        rep.check(ok, R, "Some(status) at bb%d is decided by a test over all the given ids" % bi, "contains_all(segment_ids) / all()",
                  "SegmentRegisters::segments_status can answer Some(status) without having tested that every one of the given segment ids is in that register (%s): SegmentManager::end_merge then applies a merge whose "
                  "source segments are partly gone — two overlapping merges (merge(&[A,B]) and merge(&[B,C]) in flight together) are both published and the documents of B are in the index twice" % why, site=site(b, bi))


def r5(rep, prog, R):
    """automatic merges: candidates computed from the *committed* segments get the committed
    opstamp (load_meta().opstamp) as merge target, so a merge of committed segments never applies
    deletes that are not committed yet; candidates from the uncommitted segments get a fresh stamp"""
    rep.rule(R, "merge target opstamps: in consider_merge_options the MergeOperations built for candidates of the committed segments carry load_meta().opstamp, those for the uncommitted segments a fresh Stamper::stamp(); make_merge_operation (explicit merges) uses load_meta().opstamp")
    fid = SU + "SegmentUpdater::consider_merge_options"
    body = get_body(rep, prog, R, fid)
    if body is None:
        return
    gm = calls_to(prog, body, {SU + "SegmentUpdater::get_mergeable_segments"})
    if not rep.check(len(gm) == 1, R, "consider_merge_options lists the mergeable segments once", "1 call to get_mergeable_segments", "cannot establish: get_mergeable_segments call not found", site=body.span):
        return
    gdest = place_local(gm[0][1]["dest"])
    CMC = set(prog.method_family("tantivy::indexer::merge_policy::MergePolicy::compute_merge_candidates"))
    MAP = prog.names(r"Iterator::map$")
    DEREF = tuple(prog.names(r"Deref::deref$"))
    pairs = []
    for b, t in body.calls():
        if not (prog.call_targets(t) & MAP):
            continue
        cdef = trace_back(body, op_local(t["args"][1])) if op_local(t["args"][1]) is not None else []
        if not (cdef and cdef[-1][0] == "agg" and "{closure" in str(cdef[-1][1])):
            continue
        cb = prog.body(cdef[-1][1])
        if cb is None or not any(ct.get("f", "").endswith("MergeOperation::new") for _, ct in cb.calls()):
            continue
        which = None
        cm = [s_ for s_ in trace_through(body, op_local(t["args"][0]), transparent=tuple(prog.names(r"IntoIterator::into_iter$"))) if s_[0] == "call" and s_[1] in CMC]
        if cm:
            ct = body.term(cm[0][2])
            cur = op_local(ct["args"][1])
            for _ in range(10):
                ds = body.defs().get(cur, [])
                if len(ds) != 1:
                    break
                d = ds[0]
                if d[0] == "call":
                    if d[2].get("f", "").endswith("Deref::deref"):
                        cur = op_local(d[2]["args"][0])
                        continue
                    break
                st = d[3]
                q = st.get("p") if st.get("r") in ("ref", "rawptr") else (op_place(st["o"][0]) if st.get("r") in ("use", "cast") and st.get("o") else None)
                if q is None:
                    break
                if place_local(q) == gdest:
                    fs = proj_fields(q)
                    which = {0: "committed", 1: "uncommitted"}.get(fs[0][0]) if fs else None
                    break
                cur = place_local(q)
        agg_st = body.stmts(cdef[-1][2])[cdef[-1][3]]
        srcs = set()
        for o in agg_st["o"]:
            if op_local(o) is None:
                continue
            tr = trace_through(body, op_local(o), transparent=DEREF)
            if any(x[0] == "call" and x[1].endswith("Stamper::stamp") for x in tr):
                srcs.add("stamp")
            if any(x[0] == "call" and x[1] == SU + "SegmentUpdater::load_meta" for x in tr) and any(x[0] == "field" and x[2] == "opstamp" for x in tr):
                srcs.add("committed-opstamp")
        pairs.append((b, which, srcs))
    rep.floor(R, "merge-operation builders in consider_merge_options", len(pairs), 2)
    for b, which, srcs in pairs:
        want = {"committed": {"committed-opstamp"}, "uncommitted": {"stamp"}}.get(which)
        rep.check(which is not None and srcs == want, R, "merge candidates of the %s segments get %s" % (which or "?", "the committed opstamp" if which == "committed" else "a fresh opstamp"),
                  "MergeOperation::new(.., %s, ..)" % sorted(srcs),
                  "in consider_merge_options the merge operations for the %s segments carry the opstamp source %s (expected %s): a background merge of committed segments would apply deletes that are not "
                  "committed yet - they become visible without a commit and survive a rollback" % (which or "unidentified", sorted(srcs), sorted(want) if want else "?"), site=site(body, b))
    mb = get_body(rep, prog, R, SU + "SegmentUpdater::make_merge_operation")
    if mb is not None:
        for b, t in calls_to(prog, mb, {I + "merge_operation::MergeOperation::new"}):
            tr = trace_through(mb, op_local(t["args"][1]), transparent=DEREF)
            rep.check(any(x[0] == "call" and x[1] == SU + "SegmentUpdater::load_meta" for x in tr) and any(x[0] == "field" and x[2] == "opstamp" for x in tr), R,
                      "explicit merges target the committed opstamp", "MergeOperation::new(.., load_meta().opstamp, ..)", "make_merge_operation does not use the committed opstamp", site=site(mb, b))


def r1(rep, prog):
    R = "C04-R1"
    fid = SU + "merge"
    body = get_body(rep, prog, R, fid)
    if body is None:
        return
    names = body.var_names()
    p = [l for l in range(1, body.argc + 1) if names.get(l) == "target_opstamp"]
    cs = calls_to(prog, body, {ADV})
    if rep.check(len(p) == 1 and len(cs) == 1, R, "merge: anchors", "target_opstamp parameter and one advance_deletes call", "cannot establish: merge lacks the target_opstamp parameter or the advance_deletes call", site=body.span):
        b, t = cs[0]
        r = option_root(body, t["args"][2])
        rep.check(r == ("param", p[0]), R, "merge advances deletes to its target_opstamp", "advance_deletes(.., .., target_opstamp)", "advance_deletes is called with %s instead of merge's target_opstamp" % (r,), site=site(body, b))
        # the call is inside the loop over all entries
        rep.check(b in body.reachable(tuple(body.succ(b))), R, "merge advances every source entry", "advance_deletes is inside the loop over segment_entries", "advance_deletes is not in a loop: only one entry is brought up to date", site=site(body, b))
        rule_result_checked(rep, prog, R, fid, {ADV}, "advance_deletes")
    OPEN = {I + "merger::IndexMerger::open"}
    # IndexMerger::open only after the advance loop has run to completion: every path to it passes
    # the `next()` of the loop that contains advance_deletes (which must have returned None)
    if cs:
        ab = cs[0][0]
        loop = body.reachable(tuple(body.succ(ab)))
        nexts = [Ev(b, "term") for b, t in body.calls() if t.get("f", "").endswith("Iterator::next") and b in loop and ab in body.reachable(tuple(body.succ(b)))]
        opens = [Ev(b, "term") for b, t in calls_to(prog, body, OPEN)]
        bad = must_precede(body, nexts, opens) if nexts and opens else [1]
        inside = [e for e in opens if e.b in loop and ab in body.reachable((e.b,))]
        rep.check(not bad and not inside, R, "IndexMerger::open runs only after the advance loop", "dominated by the loop's iterator and outside the loop body",
                  "IndexMerger::open is reachable before / inside the loop that advances the deletes", site=site(body, opens[0].b) if opens else body.span)
    # every Segment view that can reach the merger is built from an entry's meta AFTER that entry's deletes
    # were advanced: after the loop, or later in the same iteration.  A Segment built before the advance
    # may only be handed to advance_deletes itself.
    SEGF = {"tantivy::index::index::Index::segment"}
    if cs:
        ab = cs[0][0]
        loop = body.reachable(tuple(body.succ(ab)))
        loop = {x for x in loop if ab in body.reachable((x,))}
        adv_ok, _chk = ok_continuation_events(body, ab)
        nexts_b = [b for b, t in body.calls() if t.get("f", "").endswith("Iterator::next") and b in loop]
        post, pre = [], []
        # sites in merge itself
        for sb, st in calls_to(prog, body, SEGF):
            if sb not in loop:
                after = not must_precede(body, [Ev(x, "term") for x in nexts_b], [Ev(sb, "term")]) if nexts_b else False
                (post if after else pre).append(("merge", sb, st))
                continue
            # inside the loop: from the start of an iteration, is the site reachable without the Ok continuation of advance_deletes?
            starts = []
            for nb in nexts_b:
                sw = body.term(nb).get("to")
                tt = body.term(sw) if sw is not None else None
                if tt and tt["k"] == "switch":
                    starts += [tg for v, tg in tt["vals"] if v != "0"] or [tt["else"]]
            reached = reach_positions(body, list(adv_ok) + [Ev(nb, "term") for nb in nexts_b], starts=tuple(starts))
            early = sb in reached and reached[sb] >= len(body.stmts(sb))
            (pre if early else post).append(("merge", sb, st))
        # sites in closures created by merge: the closure must be created after the loop
        for r_ in sorted(prog.body_refs(body)):
            cb = prog.body(r_)
            if cb is None or "{closure" not in r_ or not r_.startswith(fid):
                continue
            if not any(True for _ in calls_to(prog, cb, SEGF)):
                continue
            created = [bi for bi in body.normal_blocks() for st_ in body.stmts(bi) if st_.get("r") == "agg" and st_.get("def") == r_]
            okc = bool(created) and all(bi not in loop and not must_precede(body, [Ev(x, "term") for x in nexts_b], [Ev(bi, "enter")]) for bi in created)
            (post if okc else pre).append((r_, created[0] if created else 0, None))
        rep.check(bool(post), R, "the merger's input segments are built from entry metas after the deletes were advanced", "%d site(s) of Index::segment after the advance (loop exit or later in the iteration)" % len(post),
                  "merge builds no Segment view after advance_deletes: the merger reads the sources without the deletes up to target_opstamp", site=body.span)
        for where, sb, st in pre:
            if st is None:
                rep.fail(R, "a segment-building closure is created before the advance loop finished", "in merge, the closure %s builds Segment views from entry metas before the deletes of every entry were advanced" % short(where), site=site(body, sb))
                continue
            d = st.get("dest")
            locs = flows_to(body, d) if isinstance(d, int) else set()
            other = []
            for ub, ut in body.calls():
                for ai, a in enumerate(ut.get("args", [])):
                    l = op_local(a)
                    if l in locs and ub != sb:
                        f = ut.get("res") or ut.get("f") or ""
                        if f == ADV and ai == 0:
                            continue
                        other.append(short(f))
            # references taken to the value (e.g. `segment.clone()`) count as other uses of the stale view only if the
            # value itself is then moved elsewhere; a clone handed to advance_deletes is fine
            moved_elsewhere = [f for f in other if not f.endswith("Clone::clone")]
            refs = [bi for bi in body.normal_blocks() for s_ in body.stmts(bi) if s_.get("r") == "ref" and place_local(s_["p"]) in locs]
            cloned_to = []
            for bi in refs:
                pass
            rep.check(not moved_elsewhere, R, "a Segment view built before the advance is only given to advance_deletes", "pre-advance view -> advance_deletes",
                      "merge keeps a Segment view that was built from the entry's meta BEFORE advance_deletes (it carries the old delete opstamp) and hands it to %s: the merger does not see the deletes up to target_opstamp"
                      % sorted(set(moved_elsewhere)), site=site(body, sb))
    merged_cursor(rep, prog, R)


def merged_cursor(rep, prog, R):
    """the merged entry's delete cursor is read after every source was advanced (shared with C02-R7)"""
    fid = SU + "merge"
    body = get_body(rep, prog, R, fid)
    if body is None:
        return
    DC = {I + "segment_entry::SegmentEntry::delete_cursor"}
    if calls_to(prog, body, {ADV}) and calls_to(prog, body, DC):
        rule_after_loop(rep, prog, R, fid, {ADV}, DC, "advance_deletes over the source entries", "the delete cursor handed to the merged segment",
                        key="the merged segment inherits a delete cursor read after the advance loop")
    else:
        rep.fail(R, "the merged segment inherits a delete cursor read after the advance loop", "cannot establish: SegmentEntry::delete_cursor / advance_deletes not found in merge", site=body.span)


def r2(rep, prog):
    R = "C04-R2"
    fid = SU + "SegmentUpdater::end_merge::{closure#1}"
    body = get_body(rep, prog, R, fid)
    if body is not None:
        ENDM = {SM + "end_merge"}
        SAVE = {SU + "SegmentUpdater::save_metas"}
        LOAD = {SU + "SegmentUpdater::load_meta"}
        cs = calls_to(prog, body, {ADV})
        if rep.check(len(cs) == 1, R, "end_merge task reconciles deletes", "1 advance_deletes call", "the end_merge task no longer calls advance_deletes: deletes issued during the merge are lost", site=body.span):
            b, t = cs[0]
            tr = trace_through(body, op_local(t["args"][2]))
            rep.check(any(s[0] == "field" and s[2] == "opstamp" for s in tr) and any(s[0] == "call" and s[1] in LOAD for s in tr), R,
                      "reconciliation targets the committed opstamp", "advance_deletes(.., .., load_meta().opstamp)", "the reconciliation opstamp is not load_meta().opstamp", site=site(body, b))
            # an error of advance_deletes returns before the swap
            from ..model import try_continuations
            cont, brk, _ = try_continuations(body, b)
            if rep.check(bool(brk), R, "advance_deletes' error is inspected", "match on the result", "the result of advance_deletes is not inspected in the end_merge task", site=site(body, b)):
                after_err = set()
                for x in brk:
                    after_err |= body.reachable((x,))
                eb = [bb for bb, _ in calls_to(prog, body, ENDM)]
                rep.check(not any(x in after_err for x in eb), R, "a failed reconciliation discards the merge", "SegmentManager::end_merge unreachable from the Err arm", "SegmentManager::end_merge is reachable after advance_deletes failed", site=site(body, b))
        rule_precede(rep, prog, R, fid, ENDM, SAVE, "SegmentManager::end_merge", "save_metas")
        # committed branch re-saves previous opstamp/payload
        for b, t in calls_to(prog, body, SAVE):
            t1 = trace_through(body, op_local(t["args"][1]))
            t2 = trace_through(body, op_local(t["args"][2]))
            ok1 = any(s[0] == "field" and s[2] == "opstamp" for s in t1) and any(s[0] == "call" and s[1] in LOAD for s in t1)
            ok2 = any(s[0] == "field" and s[2] == "payload" for s in t2) and any(s[0] == "call" and s[1] in LOAD for s in t2)
            rep.check(ok1 and ok2, R, "a committed merge republishes the unchanged opstamp and payload", "save_metas(previous_metas.opstamp, previous_metas.payload.clone())",
                      "the end_merge task saves the meta with another opstamp/payload than load_meta()'s (opstamp ok: %s, payload ok: %s)" % (ok1, ok2), site=site(body, b))
        # save only on the Committed arm: the save call is control dependent on a comparison with SegmentsStatus::Committed
        sv = [b for b, _ in calls_to(prog, body, SAVE)]
        if sv:
            dom = body.dominators()
            cmpd = False
            for d in dom[sv[0]]:
                for bb, t in [(d, body.term(d))]:
                    if t["k"] == "call" and t.get("f", "").endswith("PartialEq::eq"):
                        cmpd = True
            rep.check(cmpd, R, "save_metas only when the merged segments were committed", "guarded by segments_status == Committed", "the re-save of the meta is not guarded by the segments' status", site=site(body, sv[0]))
    # SegmentManager::end_merge: one write guard, one register
    eb = get_body(rep, prog, R, SM + "end_merge")
    if eb is not None:
        guards = locals_of_type(eb, lambda row: row["k"] == "adt" and row.get("def", "").endswith("RwLockWriteGuard"))
        rm = [Ev(b, "term") for b, t in eb.calls() if t.get("f", "").endswith("SegmentRegister::remove_segment")]
        add = [Ev(b, "term") for b, t in eb.calls() if t.get("f", "").endswith("SegmentRegister::add_segment_entry")]
        if rep.check(len(guards) >= 1 and rm and add, R, "SegmentManager::end_merge: anchors", "write guard, remove_segment, add_segment_entry", "cannot establish: guard / remove / add missing in SegmentManager::end_merge", site=eb.span):
            ok, why = guard_live_at(eb, guards[0], rm + add)
            rep.check(ok, R, "the swap (remove sources, add result) happens under one write guard", why, "the register swap is not covered by one write guard: a reader of the registers can see the sources removed and the result not yet added (%s)" % why, site=eb.span)
            # both operate on the same register reference
            roots = set()
            for e in rm + add:
                t = eb.term(e.b)
                roots.add(option_root(eb, t["args"][0]))
            rep.check(len(roots) == 1, R, "remove and add use the same register", "%s" % roots, "sources are removed from one register and the result added to another (%s)" % roots, site=eb.span)
        rule_result_checked(rep, prog, R, eb.id, prog.names(r"Option::<T>::ok_or_else$"), "segments_status lookup")
    # SegmentManager::commit: clears both registers and adds under one write guard
    cb = get_body(rep, prog, R, SM + "commit")
    if cb is not None:
        guards = locals_of_type(cb, lambda row: row["k"] == "adt" and row.get("def", "").endswith("RwLockWriteGuard"))
        ops = [Ev(b, "term") for b, t in cb.calls() if t.get("f", "").endswith("SegmentRegister::clear") or t.get("f", "").endswith("SegmentRegister::add_segment_entry")]
        if rep.check(len(guards) >= 1 and len(ops) >= 3, R, "SegmentManager::commit: anchors", "write guard, 2 clears, add", "cannot establish the structure of SegmentManager::commit", site=cb.span):
            ok, why = guard_live_at(cb, guards[0], ops)
            rep.check(ok, R, "commit replaces the registers under one write guard", why, "SegmentManager::commit does not hold one write guard over clear+add: %s" % why, site=cb.span)


def r34(rep, prog):
    from .c17 import r1 as c17r1

    class Proxy:
        def __init__(self, rep):
            self.rep = rep

        def __getattr__(self, k):
            return getattr(self.rep, k)
    # re-run the IndexMerger::write part under this property's id
    mb = get_body(rep, prog, "C04-R3", I + "merger::IndexMerger::write")
    if mb is not None:
        roots = {}
        gone_writers = []
        for callee, ai in ((I + "merger::IndexMerger::write_fieldnorms", 2), (I + "merger::IndexMerger::write_postings", 3),
                           (I + "merger::IndexMerger::write_storable_fields", 2), (I + "merger::IndexMerger::write_fast_fields", 2)):
            cs = calls_to(prog, mb, {callee})
            if cs and callee in prog.bodies:
                roots[callee.split("::")[-1]] = option_root(mb, cs[0][1]["args"][ai])
            elif cs:
                gone_writers.append((callee.split("::")[-1], cs))
        for nm, cs in gone_writers:
            # the writer was written into IndexMerger::write: the mapping is then an argument of one of the calls it made
            common = set(roots.values())
            cand = {option_root(mb, a) for _, t in cs for a in t["args"]}
            if len(common) == 1 and common & cand:
                roots[nm] = list(common)[0]
        vals = set(roots.values())
        rep.check(len(roots) == 4 and len(vals) == 1 and list(vals)[0][0] == "local", "C04-R3", "the four merge writers receive the same doc_id_mapping", "%s" % roots,
                  "IndexMerger::write hands different mappings to its writers (%s)" % roots, site=mb.span)
    task = SU + "SegmentUpdater::start_merge::{closure#0}"
    rule_who_may_call(rep, prog, "C04-R4", {SU + "merge"}, "segment_updater::merge", {task + "::{closure#0}": "inside catch_unwind of the merge task"})
