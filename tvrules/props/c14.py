"""C14 — aggregations do not depend on partitioning: only the structural clauses of the merge of
intermediate results and of their serialisation (which parts of the two operands a merge function
combines, and that every part survives serde); no bucket arithmetic, no float sums, no sketches."""
import re
from ..model import provenance, op_local
from ..mergecov import Aliases, leaf_paths, flows, fmt_path, covered, compat
from ..rules import short, site

AGG = "tantivy::aggregation::"
ROOT = AGG + "intermediate_agg_result::IntermediateAggregationResults"
COLLECTIONS = ("std::collections::hash::map::HashMap<", "alloc::vec::Vec<", "alloc::collections::btree::map::BTreeMap<")

# (Self type short name, leaf path) -> why this part of `other` needs no merging.  Everything not
# listed must flow from `other` into the same part of `self`.  Confirmed by reading each site.
NOT_ACCUMULATED = {
    ("IntermediateHistogramBucketEntry", ".key"): "bucket identity: entries are paired by equal key before they are merged (merge_join_by on key)",
    ("IntermediateRangeBucketEntry", ".key"): "bucket identity: entries are paired by their map key, the range key is the same on both sides",
    ("IntermediateRangeBucketEntry", ".from"): "bucket identity: bounds of the range, fixed by the request",
    ("IntermediateRangeBucketEntry", ".to"): "bucket identity: bounds of the range, fixed by the request",
    # NOT tabled (both entries were in the first version of this table, with the reason "derived from the request, the same in
    # every partition" — a triage error): `::Histogram.is_date_agg` and `::Range.0.column_type` are derived from the column type
    # the SEGMENT reports, and a segment in which a JSON path has no value reports an empty U64 column (hunts/hunt5 F1).
    ("IntermediateCompositeBucketResult", ".target_size"): "request parameter",
    ("IntermediateCompositeBucketResult", ".orders"): "request parameter",
    ("CardinalityCollector", ".salt"): "insert-time salt derived from the column type; only the sketch carries data",
    ("TopHitsTopNComputer", ".req"): "the request itself",
}
# serde impls written by hand (not derived): not analysed, trusted
CUSTOM_SERDE = {
    AGG + "metric::cardinality::CardinalityCollector": "hand-written: serialises the HLL sketch bytes",
    AGG + "metric::top_hits::KeyOrder": "hand-written: `field:order` string form",
    "tantivy_common::datetime::DateTime": "common crate, newtype over i64",
}


def run(rep, prog, tier):
    rep.rule("C14-R1", "merge coverage: every merge_fruits(&mut self, other: Self) of an intermediate aggregation result reads every accumulator leaf of `other` and writes the same leaf of `self` (leaves = struct fields / enum variant fields, descending through aggregation types without a merge function of their own); collection leaves of `other` are consumed by value (so their remainder cannot be dropped); the leaves that are bucket identity or request parameters are tabled with a reason")
    rep.rule("C14-R2", "merge dataflow: for every accumulator leaf, data read from other.<leaf> reaches a write of self.<leaf> (forward taint through locals, `&mut` borrows and calls) — a merge that combines a field with a different field of the other side, or a variant with another variant, is reported")
    rep.rule("C14-R3", "container merges keep the remainder: merge_maps and IntermediateAggregationResults::merge_fruits pair equal keys through MergeFruits::merge_fruits and move every unpaired entry of `other` into `self` (an insert whose value flows from `other`)")
    rep.rule("C14-R4", "serialisation coverage: every type reachable from IntermediateAggregationResults with derived serde impls serialises every field (no #[serde(skip)]) and its deserialiser fills every field from the input (MapAccess::next_value / SeqAccess::next_element), so a distributed merge after serialisation sees what a local merge sees")
    rep.not_decided += ["bucket arithmetic, float sums, sketch accuracy, term truncation, ordering of buckets, equality with a direct computation (values)",
                        "segment collectors (per-document collection) and the final conversion into results"]
    merges = _merge_functions(prog)
    rep.floor("C14-R1", "merge_fruits functions over Self", len(merges), 17)
    own = {d for _, d in merges}
    nleaf = 0
    for n, d in merges:
        nleaf += _check_merge(rep, prog, n, d, own)
    rep.floor("C14-R1", "accumulator leaves examined", nleaf, 40)
    _r3(rep, prog)
    _r4(rep, prog)
    _r5(rep, prog)
    _r6(rep, prog)
    _r7(rep, prog)
    _r8(rep, prog)
    _r9(rep, prog)
    _r10(rep, prog)
    _r11(rep, prog)


def _r6(rep, prog):
    """bucket keys of different numeric types are ordered by value"""
    from ..model import provenance, op_local
    R = "C14-R6"
    rep.rule(R, "numeric bucket keys are ordered by value, not by type: the terms aggregation normalises the values of an f64 column into I64 / U64 / F64 keys (NumericalValue::normalize) and orders / cuts the buckets with Key::partial_cmp (`order: _key`, `size`). A derived PartialOrd compares the enum discriminants first — all negative integers, then all non-negative integers, then all fractional values. Rule: no result of <Key as PartialOrd>::partial_cmp is the comparison of the two discriminants")
    fid = "<tantivy::aggregation::Key as core::cmp::PartialOrd>::partial_cmp"
    b = prog.body(fid)
    if not rep.check(b is not None, R, "Key::partial_cmp present", "found", "cannot establish: <Key as PartialOrd>::partial_cmp not found"):
        return
    users = [x.id for x, bi, t in prog.who_calls({fid}) if x.id.startswith(("tantivy::aggregation::", "<tantivy::aggregation::"))]
    rep.floor(R, "aggregation functions that order buckets with Key::partial_cmp", len(set(users)), 2)
    bad = None
    for bi, t in b.calls():
        if t.get("dest") != 0:
            continue
        f = t.get("res") or t.get("f") or ""
        if not f.endswith("partial_cmp") or "isize" not in f:
            continue
        discr = 0
        for a in t["args"]:
            l = op_local(a)
            if l is None:
                continue
            # a value read by `discr`
            work, seen = [l], set()
            while work:
                x = work.pop()
                if x in seen:
                    continue
                seen.add(x)
                for d in b.defs().get(x, []):
                    if d[0] == "stmt":
                        st = d[3]
                        if st.get("r") == "discr":
                            discr += 1
                        if st.get("r") in ("ref", "rawptr") and "p" in st:
                            from ..model import place_local
                            work.append(place_local(st["p"]))
                        for o in st.get("o", []):
                            if op_local(o) is not None:
                                work.append(op_local(o))
        if discr >= 2:
            bad = bi
    # totality: the sort sites `.expect()` the result; a float comparison that can answer None (NaN) must not be a result
    partial_f = [bi for bi, t in b.calls() if (t.get("res") or t.get("f") or "").endswith("impl core::cmp::PartialOrd for f64>::partial_cmp")]
    rep.check(not partial_f, R, "Key::partial_cmp is total on float keys", "no f64::partial_cmp among its results (total_cmp)",
              "<Key as PartialOrd>::partial_cmp compares two F64 keys with f64::partial_cmp, which answers None for NaN: the terms aggregation sorts its buckets with `.partial_cmp(..).expect(..)`, so a NaN value in an f64 "
              "column makes `order: {_key: ..}` panic (and mixed-type pairs, compared with total_cmp, disagree with same-type pairs)", site=site(b, partial_f[0]) if partial_f else b.span)
    rep.check(bad is None, R, "Key::partial_cmp does not order numeric keys by their variant", "no result is the comparison of the two discriminants",
              "<Key as PartialOrd>::partial_cmp (derived) answers with the comparison of the two enum discriminants when the operands are of different variants: the keys -2.5, -1, 0.5, 2, 3.5, 4 of a terms aggregation on an "
              "f64 column, `order: {_key: asc}`, come out as -1, 2, 4, -2.5, 0.5, 3.5, and with `size: 2` the wrong SET of buckets (-1, 2) is returned", site=site(b, bad) if bad is not None else b.span)


def _r7(rep, prog):
    """the `missing` bucket of a terms aggregation is merged with a real bucket of the same key"""
    R = "C14-R7"
    rep.rule(R, "one map, two sources of keys: for a string column the per-segment result map of the terms aggregation is filled from the `missing` parameter of the request (extract_missing_value) and from the dictionary terms (the closure given to sorted_ords_to_term_cb, a plain HashMap::insert). The two can carry the same key (`missing: \"c3\"` on a segment that contains `c3`). Rule: the key that comes from extract_missing_value is never put into the map with a plain HashMap::insert from which the population by sorted_ords_to_term_cb is still reachable — it has to be added afterwards through the entry API (merging with an existing bucket); otherwise the later insert REPLACES the missing bucket and its documents vanish, depending on the partition")
    fid = None
    for n in prog.bodies:
        if n.endswith("::into_intermediate_bucket_result") and "term_agg::SegmentTermCollector" in n:
            fid = n
    b = prog.body(fid) if fid else None
    if not rep.check(b is not None, R, "SegmentTermCollector::into_intermediate_bucket_result present", "found", "cannot establish: SegmentTermCollector::into_intermediate_bucket_result not found"):
        return
    cbs = [bi for bi, t in b.calls() if (t.get("f") or "").endswith("sorted_ords_to_term_cb")]
    miss_plain, miss_entry = [], []
    for bi, t in b.calls():
        f = t.get("f") or ""
        if not re.search(r"hash::map::HashMap::<K, V, S, A>::(insert|entry)$", f) or len(t["args"]) < 2 or op_local(t["args"][1]) is None:
            continue
        lv = provenance(b, op_local(t["args"][1]))
        if any(x[0] == "call" and x[1].endswith("extract_missing_value") for x in lv):
            (miss_plain if f.endswith("::insert") else miss_entry).append(bi)
    if not rep.check(bool(cbs) and bool(miss_plain or miss_entry), R, "both populations found", "sorted_ords_to_term_cb at %s, missing bucket at %s" % (cbs, miss_plain + miss_entry),
                     "cannot establish: into_intermediate_bucket_result no longer shows the two populations of the string result map (sorted_ords_to_term_cb %s, missing %s)" % (cbs, miss_plain + miss_entry), site=b.span):
        return
    bad = [m for m in miss_plain if set(cbs) & set(b.reachable((m,)))]
    rep.check(not bad, R, "the missing bucket cannot be replaced by a real term of the same key", "added through HashMap::entry after the dictionary terms" if miss_entry else "no plain insert before the dictionary terms",
              "into_intermediate_bucket_result puts the `missing` bucket into the result map with a plain HashMap::insert and then fills the map with the dictionary terms, also by plain insert: when the segment contains a term equal "
              "to the `missing` value, the missing bucket is replaced — docs c3, c3, (none) x3, c1 with `missing: \"c3\"` give c3 -> 2 in one segment (3 documents vanished) and c3 -> 5 when the value-less documents are in "
              "another segment", site=site(b, bad[0]) if bad else b.span)


def _r8(rep, prog):
    """the ordinal set of the cardinality aggregation never drops an ordinal silently"""
    from ..model import Ev, must_pass
    R = "C14-R8"
    rep.rule(R, "a set's insert inserts: the cardinality aggregation on string columns collects term ordinals (and the `missing` sentinel, max ordinal + 1) in a PagedBitset; PagedBitset::insert reaches the bit-setting TinySet / word insert on every path to its return — an ordinal outside the allocated directory must be a loud failure (the index panic it is today), not an early return: a silently dropped sentinel makes the count one too low for exactly the segments whose term count fills the last page, i.e. dependent on the partition")
    fid = AGG + "metric::cardinality::PagedBitset::insert"
    b = prog.body(fid)
    if not rep.check(b is not None, R, "PagedBitset::insert present", "found", "cannot establish: %s not found" % fid):
        return
    sets = [Ev(bi, "term") for bi, t in b.calls() if re.search(r"::insert_mut$|TinySet::insert$|BitSet::insert$", t.get("f") or "")]
    if not rep.check(bool(sets), R, "the bit-setting call of PagedBitset::insert", "%d site(s)" % len(sets), "cannot establish: PagedBitset::insert has no insert_mut call", site=b.span):
        return
    bad = must_pass(b, sets, exits="all")
    rep.check(not bad, R, "every return of PagedBitset::insert has set the bit", "must-pass insert_mut",
              "PagedBitset::insert can return without having set the bit (an ordinal whose page is outside the directory is skipped silently): the cardinality of a string column with a `missing` value is one too low "
              "when the sentinel ordinal falls on an unallocated page (a segment with exactly 1024 distinct terms), and right for other partitions of the same documents", site=site(b, bad[0]) if bad else b.span)


def _r9(rep, prog):
    """a request parameter never cuts a result vector past its end"""
    R = "C14-R9"
    rep.rule(R, "request-sized cuts are clamped: in src/aggregation every Vec::drain / split_off / split_at whose bound is not a full range and derives from a value that is not the vector's own length (a request parameter such as top_hits' `from`) goes through a min / clamp with the length first — Vec::drain(..n) panics when n exceeds the length, so a `from` larger than the number of hits of a bucket turns the whole search into a panic instead of an empty hit list")
    CL = re.compile(r"::cmp::(min|Ord::min|Ord::clamp)$|::(min|clamp|saturating_sub)$")
    n = 0
    for fid, b in sorted(prog.bodies.items()):
        if "tantivy::aggregation" not in fid or "::tests::" in fid or b.kind in ("const", "static", "promoted"):
            continue
        for bi, t in b.calls():
            f = t.get("f") or ""
            if not re.search(r"Vec::<.*>::(drain|split_off)$|slice::<impl \[T\]>::(split_at|split_at_mut)$", f) or len(t["args"]) < 2:
                continue
            l = op_local(t["args"][1])
            lv = provenance(b, l) if l is not None else set()
            if any(x[0] == "agg" and str(x[1]).endswith("RangeFull::RangeFull") for x in lv) and not any(x[0] == "call" for x in lv):
                continue
            n += 1
            clamped = any(x[0] == "call" and CL.search(x[1]) for x in lv)
            own_len = all(x[0] != "call" or x[1].endswith("::len") or str(x[1]).endswith("RangeTo::RangeTo") for x in lv) and any(x[0] == "call" and x[1].endswith("::len") for x in lv)
            rep.check(clamped or own_len, R, "%s: the bound of %s is clamped to the length" % (short(fid), f.split("::")[-1]), "min(.., len)",
                      "`%s` cuts a vector with `%s` at a bound that comes from %s without a min / clamp against the vector's length: a request value larger than the number of elements panics "
                      "(top_hits with `from` beyond the hits of a bucket)" % (fid, f.split("::")[-1], sorted(short(x[1]) for x in lv if x[0] == "call")), site=site(b, bi))
    rep.floor(R, "request-sized cuts in the aggregation code", n, 1)


def _r10(rep, prog):
    """a collector is asked for the result of a parent bucket it may never have seen a document of"""
    from ..model import Ev, must_precede
    R = "C14-R10"
    rep.rule(R, "results of unseen parent buckets: a sub-aggregation collector keeps one slot per parent bucket and grows the vector when documents arrive (prepare_max_bucket); add_intermediate_aggregation_result(parent_bucket_id) is also called for parent buckets that received no document in THIS segment. Sibling agreement (8 of the 13 implementations): before the vector is indexed with the parent bucket id — in the function itself or in a method of self it hands the id to — prepare_max_bucket has run (or the access is a checked `.get()`); an implementation that indexes directly panics ('index out of bounds') as soon as the documents of two parent buckets sit in different segments")
    n = 0
    for fid, b in sorted(prog.bodies.items()):
        m = re.match(r"^<(.+) as tantivy::aggregation::segment_agg_result::SegmentAggregationCollector>::add_intermediate_aggregation_result$", fid)
        if not m:
            continue
        ty = m.group(1)
        tshort = ty.split("<")[0].split("::")[-1]
        # bodies to look at: the function, plus methods of the same type that receive the parent bucket id
        todo = [(b, 4, None)]     # (body, index of the parent_bucket_id parameter, call block in the entry function)
        for bi, t in b.calls():
            f = t.get("res") or t.get("f") or ""
            cb = prog.bodies.get(f)
            if cb is None or tshort not in f or f == fid or f.endswith("prepare_max_bucket"):
                continue
            for ai, o in enumerate(t.get("args", [])):
                l = op_local(o)
                if l is not None and ("param", 4) in provenance(b, l):
                    todo.append((cb, ai + 1, bi))
        for body, pidx, via in todo:
            sites_ = []
            for bi, t in body.calls():
                f = t.get("res") or t.get("f") or ""
                if re.search(r"core::ops::index::Index(Mut)?<.*>>::index(_mut)?$|Index(Mut)?::index(_mut)?$", f) and len(t.get("args", [])) > 1:
                    l = op_local(t["args"][1])
                    if l is not None and ("param", pidx) in provenance(body, l):
                        sites_.append(bi)
            for bi in body.normal_blocks():
                tt = body.term(bi)
                if tt["k"] == "assert" and "BoundsCheck" in str(tt.get("msg")):
                    cl = op_local(tt["cond"]) if isinstance(tt.get("cond"), dict) else None
                    if cl is not None and ("param", pidx) in provenance(body, cl):
                        sites_.append(bi)
            for sbi in sites_:
                n += 1
                prep_here = [Ev(x, "term") for x, t in body.calls() if (t.get("res") or t.get("f") or "").endswith("prepare_max_bucket")]
                ok = bool(prep_here) and not must_precede(body, prep_here, [Ev(sbi, "term")])
                if not ok:
                    # third idiom: an explicit `if parent_bucket_id >= self.buckets.len() { return .. }` guard
                    from ..rules import dominating_guards
                    for sb, through, gl in dominating_guards(body, sbi):
                        glv = provenance(body, gl)
                        if ("param", pidx) in glv and any(x[0] == "call" and x[1].endswith("::len") for x in glv):
                            ok = True
                if not ok and via is not None:
                    prep_entry = [Ev(x, "term") for x, t in b.calls() if (t.get("res") or t.get("f") or "").endswith("prepare_max_bucket")]
                    ok = bool(prep_entry) and not must_precede(b, prep_entry, [Ev(via, "term")])
                rep.check(ok, R, "%s: the slot of the parent bucket exists before it is indexed (%s)" % (tshort, short(body.id).split("::")[-1]), "prepare_max_bucket runs first",
                          "`%s` indexes its per-parent-bucket vector with the parent bucket id in `%s` without having grown it (prepare_max_bucket) — its siblings all do: a parent bucket that received no document in this segment "
                          "makes the search panic with `index out of bounds` (range(i) > composite(terms s) with one document per segment)" % (ty, body.id), site=site(body, sbi))
    rep.floor(R, "indexed accesses by parent bucket id in add_intermediate_aggregation_result", n, 8)


def _r11(rep, prog):
    """making room for a parent bucket never throws collected buckets away"""
    from ..rules import dominating_guards
    R = "C14-R11"
    rep.rule(R, "prepare_max_bucket only grows: the buffered sub-aggregation flushes call prepare_max_bucket(largest bucket id of the current BATCH) before every batch, so the id can be smaller than one seen before. Sibling agreement (11 of the 12 growth sites): every Vec::push / resize / resize_with in an implementation of SegmentAggregationCollector::prepare_max_bucket is dominated by a comparison with the vector's current len(); an unguarded resize(max_bucket + 1) truncates the buckets collected by earlier batches")
    n = 0
    for fid, b in sorted(prog.bodies.items()):
        m = re.match(r"^<(.+) as tantivy::aggregation::segment_agg_result::SegmentAggregationCollector>::prepare_max_bucket$", fid)
        if not m:
            continue
        for bi, t in b.calls():
            f = t.get("f") or ""
            if not re.search(r"Vec::<.*>::(resize|resize_with|truncate|push|set_len)$", f):
                continue
            n += 1
            guarded = any(any(x[0] == "call" and x[1].endswith("::len") for x in provenance(b, gl)) for sb, th, gl in dominating_guards(b, bi))
            rep.check(guarded, R, "%s::prepare_max_bucket grows its bucket vector only" % m.group(1).split("<")[0].split("::")[-1], "%s under a len() test" % f.split("::")[-1],
                      "`%s` calls %s without comparing with the vector's length first: a flush whose batch only touches low bucket ids shrinks the vector and drops what earlier batches collected for the higher ids — "
                      "terms(3000 distinct values) > top_hits followed by a long run of documents of the first term returns empty top_hits for 2999 of the 3000 buckets" % (fid, f.split("::")[-1]), site=site(b, bi))
    rep.floor(R, "growth sites in prepare_max_bucket implementations", n, 10)


def _merge_functions(prog):
    out = []
    for n in sorted(prog.bodies):
        if not n.startswith(("tantivy::aggregation", "<tantivy::aggregation")) or not n.endswith("::merge_fruits"):
            continue
        b = prog.bodies[n]
        if b.argc != 2:
            continue
        r1, r2 = b.local_ty(1), b.local_ty(2)
        if r1["k"] == "ref" and r2["k"] == "adt" and prog.crate_types[b.crate][r1["a"][0]].get("def") == r2.get("def"):
            out.append((n, r2["def"]))
    return out


def _exempt(tshort, path):
    s = fmt_path(path)
    for (t, pfx), why in NOT_ACCUMULATED.items():
        if t == tshort and (s == pfx or s.startswith(pfx + ".") or s.startswith(pfx + "::")):
            return why
    return None


def _check_merge(rep, prog, n, d, own):
    b = prog.bodies[n]
    tshort = d.split("::")[-1]
    al = Aliases(b, {1: "self", 2: "other"})
    us = al.uses()
    R = {u[2] for u in us if u[1] == "other" and u[0] in ("r", "rw", "mv")}
    MV = {u[2] for u in us if u[1] == "other" and u[0] == "mv"}
    W = {u[2] for u in us if u[1] == "self" and u[0] in ("w", "rw")}
    fl = flows(al)
    leaves = leaf_paths(prog, b.crate, b.locals[2], lambda x: x in own)
    cnt = 0
    for path, ty in leaves:
        why = _exempt(tshort, path)
        key = "%s%s" % (tshort, fmt_path(path))
        if why is not None:
            rep.ok("C14-R1", key + " (not accumulated)", why, site=b.span)
            continue
        cnt += 1
        rd, wr = covered(path, R), covered(path, W)
        mv = (not ty.startswith(COLLECTIONS)) or any(u == path[:len(u)] for u in MV)
        rep.check(rd and wr and mv, "C14-R1", key + " is merged",
                  "other%s is read%s and self%s is written" % (fmt_path(path), " by value" if ty.startswith(COLLECTIONS) else "", fmt_path(path)),
                  "%s::merge_fruits %s: the contribution of the other partition to `%s` is lost or the collection is only borrowed, so the merged result depends on how the documents were partitioned"
                  % (tshort, "never reads other%s" % fmt_path(path) if not rd else ("never writes self%s" % fmt_path(path) if not wr else "does not consume other%s by value" % fmt_path(path)), fmt_path(path)),
                  site=b.span)
        ok = any(compat(a, path) and compat(q, path) for a, q in fl)
        into = sorted({fmt_path(q) for a, q in fl if compat(a, path)})
        rep.check(ok, "C14-R2", key + " flows into the same leaf",
                  "other%s -> self%s" % (fmt_path(path), fmt_path(path)),
                  "%s::merge_fruits: data read from other%s never reaches self%s (it reaches: %s): the field is merged with a different field or variant"
                  % (tshort, fmt_path(path), fmt_path(path), ", ".join(into) or "nothing"), site=b.span)
    return cnt


def _r3(rep, prog):
    R = "C14-R3"
    IAR = AGG + "intermediate_agg_result::"
    for fid in (IAR + "merge_maps", IAR + "IntermediateAggregationResults::merge_fruits"):
        b = prog.bodies.get(fid)
        if b is None:
            rep.fail(R, short(fid), "cannot establish: %s not found" % fid)
            continue
        al = Aliases(b, {1: "self", 2: "other"})
        us = al.uses()
        calls = [(bi, t) for bi, t in b.calls()]
        rm = [(bi, t) for bi, t in calls if re.search(r"HashMap::<.*>::remove$", t.get("f") or "")]
        mf = [(bi, t) for bi, t in calls if (t.get("f") or "").endswith("::merge_fruits")]
        ins = [(bi, t) for bi, t in calls if re.search(r"HashMap::<.*>::(insert|entry)$|Entry::<.*>::or_insert$", t.get("f") or "")]
        other_removed = any(u[0] == "rw" and u[1] == "other" and "::remove" in u[4] for u in us)
        rep.check(bool(rm) and other_removed and bool(mf), R, "%s pairs equal keys" % short(fid),
                  "other.remove(key) then merge_fruits",
                  "%s no longer takes the entry with the same key out of `other` and merges it (remove: %d, merge_fruits: %d)" % (fid, len(rm), len(mf)), site=b.span)
        other_iter = [u for u in us if u[1] == "other" and u[0] == "mv" and "into_iter" in u[4]]
        fl = flows(al)
        self_ins = [u for u in us if u[1] == "self" and u[0] == "rw" and re.search(r"::(insert|entry)$", u[4])]
        rem_flow = any(True for a, q in fl)
        rep.check(bool(other_iter) and bool(self_ins) and bool(ins) and rem_flow, R, "%s moves the unpaired entries of other into self" % short(fid),
                  "other.into_iter() feeds self.insert/entry",
                  "%s does not move the remaining entries of `other` into `self` (into_iter of other: %d, insert/entry on self: %d): buckets or aggregations present only in the other partition are dropped"
                  % (fid, len(other_iter), len(self_ins)), site=b.span)


def _r5(rep, prog):
    """the column block accessor is shared by all collectors of a request: fetch before read"""
    from ..model import Ev, must_precede
    from ..rules import must_closure, site
    R = "C14-R5"
    rep.rule(R, "fetch before read: AggregationsSegmentCtx::column_block_accessor is one buffer shared by every collector of the request; a collector that reads it (iter_vals / iter_docid_vals) must first have fetched its own column for the current block of documents (fetch_block*, directly or through a helper that always fetches) in the same function — otherwise it aggregates the values the previous collector fetched")
    FETCH = set(prog.names(r"block_accessor::ColumnBlockAccessor::<T>::fetch_block\w*$"))
    READ = set(prog.names(r"block_accessor::ColumnBlockAccessor::<T>::(iter_vals|iter_docid_vals)$"))
    if not rep.check(bool(FETCH) and bool(READ), R, "ColumnBlockAccessor fetch / read methods", "%d / %d" % (len(FETCH), len(READ)), "cannot establish: ColumnBlockAccessor::fetch_block* / iter_vals not found"):
        return
    fetchers = FETCH | set(must_closure(prog, FETCH, depth=3))
    n = 0
    for fid in sorted(prog.bodies):
        if not fid.startswith(("tantivy::aggregation", "<tantivy::aggregation")) or "::tests::" in fid:
            continue
        b = prog.bodies[fid]
        reads = [bi for bi, t in b.calls() if (t.get("res") or t.get("f") or "") in READ]
        if not reads:
            continue
        n += 1
        fe = [Ev(bi, "term") for bi, t in b.calls() if (t.get("res") or t.get("f") or "") in fetchers]
        bad = must_precede(b, fe, [Ev(x, "term") for x in reads]) if fe else [Ev(reads[0], "term")]
        rep.check(not bad, R, "%s fetches before it reads the block accessor" % short(fid), "%d read(s) dominated by a fetch" % len(reads),
                  "`%s` reads the shared column block accessor on a path on which it has not fetched its own column for the current block: it aggregates the values another collector left there" % fid,
                  site=site(b, bad[0].b) if bad else b.span)
    rep.floor(R, "functions reading the shared block accessor", n, 7)


def _reachable_adts(prog):
    T = prog.crate_types["tantivy"]
    tids = [i for i, r in enumerate(T) if r.get("k") == "adt" and r.get("def") == ROOT]
    seen, adts = set(), []
    stack = [("tantivy", t) for t in tids[:1]]
    while stack:
        cr, ti = stack.pop()
        if (cr, ti) in seen:
            continue
        seen.add((cr, ti))
        row = prog.crate_types[cr][ti]
        for a in row.get("a", []):
            stack.append((cr, a))
        if row["k"] == "adt":
            adt = prog.adts.get(row.get("def"))
            if adt is not None:
                if adt["path"] not in adts:
                    adts.append(adt["path"])
                for v in adt["variants"]:
                    for f in v["fields"]:
                        stack.append((adt["_crate"], f["ty"]))
    return sorted(adts)


def _r4(rep, prog):
    R = "C14-R4"
    adts = _reachable_adts(prog)
    if not adts:
        rep.fail(R, "anchor", "cannot establish: %s not found in the type table" % ROOT)
        return
    nser = nde = 0
    for a in adts:
        adt = prog.adts[a]
        if a in CUSTOM_SERDE:
            rep.ok(R, "%s: custom serde impl (trusted)" % short(a), CUSTOM_SERDE[a], site=adt["span"])
            continue
        esc = re.escape(a)
        ser = [n for n in prog.bodies if re.search(r"::<impl serde_core::ser::Serialize for %s(<.*>)?>::serialize$" % esc, n)]
        des = [n for n in prog.bodies if re.search(r"::<impl serde_core::de::Deserialize<'de> for %s(<.*>)?>::deserialize::__Visitor<.*> as serde_core::de::Visitor<'de>>::visit_(map|seq)$" % esc, n)]
        hand = [n for n in prog.bodies if n.startswith("<%s" % a) and re.search(r" as serde_core::(ser::Serialize|de::Deserialize<'de>)>::(de)?serialize$", n)]
        if not ser and not des:
            if hand:
                rep.fail(R, "%s: serde impl not classified" % short(a), "cannot establish: %s has a hand-written serde impl that is not in the reviewed table" % a, site=adt["span"])
            continue        # not serialisable on its own (generic helper serialised through its owner) or external
        fields = [(v["name"], f["name"]) for v in adt["variants"] for f in v["fields"]]
        for n in ser:
            b = prog.bodies[n]
            al = Aliases(b, {1: "self"})
            used = {u[2] for u in al.uses() if u[1] == "self"}
            for vn, fn in fields:
                path = ((("v", vn),) if adt["kind"] == "enum" else ()) + (("f", fn),)
                nser += 1
                rep.check(covered(path, used), R, "%s%s is serialised" % (short(a), fmt_path(path)), "referenced by the derived Serialize impl",
                          "the Serialize impl of %s never reads field `%s` (a #[serde(skip)] / skip_serializing attribute?): intermediate results lose it when they are sent to another node, "
                          "the distributed merge differs from the local one" % (a, fmt_path(path)), site=adt["span"])
        if adt["kind"] != "struct":
            continue
        for n in des:
            b = prog.bodies[n]
            aggs = [(bi, st) for bi in b.normal_blocks() for st in b.stmts(bi) if st.get("r") == "agg" and st.get("adt") == a]
            if not aggs:
                rep.fail(R, "%s: %s builds the value" % (short(a), n.split("::")[-1]), "cannot establish: no construction of %s in %s" % (a, n), site=b.span)
                continue
            src = "next_value" if n.endswith("visit_map") else "next_element"
            for bi, st in aggs:
                for fname, o in zip(st.get("fields", []), st.get("o", [])):
                    l = op_local(o)
                    leaves = provenance(b, l) if l is not None else set()
                    okk = any(x[0] == "call" and src in x[1] for x in leaves)
                    nde += 1
                    rep.check(okk, R, "%s.%s is read back by %s" % (short(a), fname, n.split("::")[-1]), "filled from %s" % src,
                              "the Deserialize impl of %s fills field `%s` without reading it from the input (sources: %s): the field is reset when an intermediate result crosses a node boundary"
                              % (a, fname, sorted({x[1] if x[0] == "call" else x[0] for x in leaves})[:4]), site=adt["span"])
    rep.floor(R, "serialised fields examined", nser, 60)
    rep.floor(R, "deserialised fields examined", nde, 80)
