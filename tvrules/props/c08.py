"""C08 — fast fields return exactly the values indexed: only the code tables of the columnar format."""
from .. import codetab as ct
from ..rules import get_body, short, calls_to
from ..model import provenance, op_local

C = "tantivy_columnar::"
PAIRS = [
    # (enum, encoder, decoder, optional table of all variants)
    (C + "column_values::u64_based::CodecType", C + "column_values::u64_based::CodecType::to_code", C + "column_values::u64_based::CodecType::try_from_code", C + "column_values::u64_based::ALL_U64_CODEC_TYPES"),
    (C + "column_values::u128_based::U128FastFieldCodecType", C + "column_values::u128_based::U128FastFieldCodecType::to_code", C + "column_values::u128_based::U128FastFieldCodecType::from_code", None),
    (C + "Cardinality", C + "Cardinality::to_code", C + "Cardinality::try_from_code", None),
    (C + "value::NumericalType", C + "value::NumericalType::to_code", C + "value::NumericalType::try_from_code", None),
    (C + "columnar::writer::column_operation::ColumnTypeCategory", None, None, None),
]


def run(rep, prog, tier):
    R = "C08-R1"
    rep.rule(R, "every (to_code, try_from_code) pair of the columnar format is mutually inverse on all variants; COLUMN_TYPES[i] has discriminant i and covers the enum; ALL_U64_CODEC_TYPES is complete; the current format version is accepted by the reader")
    rep.not_decided += ["codec arithmetic, optional / multivalued indexes, merge (values)"]
    n = 0
    for enum, encf, decf, table in PAIRS:
        if encf is None:
            continue
        variants = ct.enum_variants(prog, enum)
        eb = get_body(rep, prog, R, encf)
        db = get_body(rep, prog, R, decf)
        if not rep.check(variants is not None, R, "enum %s" % short(enum), "found", "cannot establish: enum %s not found" % enum):
            continue
        if eb is None or db is None:
            continue
        enc, how = ct.encode_map(prog, eb, enum)
        dec, how2 = ct.decode_map(prog, db, enum)
        if rep.check(enc is not None and dec is not None, R, "%s code functions readable" % short(enum), "%s / %s" % (how, how2),
                     "cannot read the code tables of %s (%s / %s)" % (enum, how, how2), site=eb.span):
            ct.check_inverse(rep, R, short(enum), enc, dec, variants, site=db.span)
            n += 1
        if table:
            arr = ct.const_array_variants(prog, table, enum)
            rep.check(arr is not None and sorted(arr) == sorted(variants) and len(set(arr)) == len(arr), R, "%s lists every variant once" % short(table), "%s" % arr,
                      "%s %s does not list every variant of %s" % (table, arr, sorted(variants)))
    rep.floor(R, "inverse code pairs established", n, 4)
    # ColumnType: table lookup decoder
    CT = C + "columnar::column_type::ColumnType"
    variants = ct.enum_variants(prog, CT)
    arr = ct.const_array_variants(prog, C + "columnar::column_type::COLUMN_TYPES", CT)
    if rep.check(variants is not None and arr is not None, R, "ColumnType and COLUMN_TYPES readable", "%d variants / %d entries" % (len(variants or {}), len(arr or [])),
                 "cannot establish: ColumnType / COLUMN_TYPES not found"):
        bad = [(i, v, variants.get(v)) for i, v in enumerate(arr) if variants.get(v) != i]
        rep.check(not bad and len(arr) == len(variants), R, "COLUMN_TYPES[i] is the variant with discriminant i, for every variant",
                  ", ".join("%d=%s" % (i, v) for i, v in enumerate(arr)),
                  "COLUMN_TYPES does not match the enum order (%s; %d entries for %d variants): try_from_code(to_code(t)) != t for some column type" % (bad[:3], len(arr), len(variants)))
        eb = get_body(rep, prog, R, CT + "::to_code")
        db = get_body(rep, prog, R, CT + "::try_from_code")
        if eb is not None:
            enc, how = ct.encode_map(prog, eb, CT)
            rep.check(enc == variants, R, "ColumnType::to_code is the discriminant", how, "ColumnType::to_code is not `self as u8` (%s)" % how, site=eb.span)
        if db is not None:
            lv = set()
            for b, t in db.calls():
                if t.get("f", "").endswith("<impl [T]>::get"):
                    lv |= provenance(db, op_local(t["args"][0]))
            rep.check(any(l[0] in ("uneval", "static") and l[1].endswith("COLUMN_TYPES") for l in lv) or any(l[0] == "uneval" and "try_from_code" in l[1] for l in lv), R,
                      "ColumnType::try_from_code looks the code up in COLUMN_TYPES", "COLUMN_TYPES.get(code)", "ColumnType::try_from_code no longer indexes COLUMN_TYPES (%s)" % sorted(lv), site=db.span)
    # format version
    V = C + "columnar::format_version::Version"
    variants = ct.enum_variants(prog, V)
    cur = None
    cb = prog.body(C + "columnar::format_version::CURRENT_VERSION")
    if cb is not None:
        for st in cb.stmts(0):
            if st.get("r") == "agg" and st.get("adt") == V:
                cur = st["variant"]
    db = get_body(rep, prog, R, V + "::try_from_bytes")
    if db is not None and rep.check(variants is not None and cur is not None, R, "columnar CURRENT_VERSION readable", "CURRENT_VERSION = %s" % cur, "cannot establish the columnar CURRENT_VERSION"):
        # decoder switches on u32::from_le_bytes(bytes)
        dec = None
        for b in db.normal_blocks():
            t = db.term(b)
            if t["k"] == "switch":
                m = {}
                for v, tg in t["vals"]:
                    var = ct._first_variant(db, V, tg)
                    if var:
                        m[int(v)] = var
                if m:
                    dec = m
        rep.check(dec is not None and dec.get(variants[cur]) == cur, R, "the columnar reader accepts the version the writer stamps", "decode(%d) = %s" % (variants[cur], cur),
                  "Version::try_from_bytes does not map %d back to CURRENT_VERSION %s (%s)" % (variants[cur], cur, dec), site=db.span)
        if dec is not None:
            bad = [(c, v) for c, v in dec.items() if variants.get(v) != c]
            rep.check(not bad, R, "every accepted columnar version code is its variant's discriminant", "%s" % dec, "version decode table disagrees with the enum: %s" % bad, site=db.span)
