"""C08 — fast fields return exactly the values indexed: only the code tables of the columnar format."""
from .. import codetab as ct
from ..rules import get_body, short, calls_to, rule_who_may_call, site
from ..model import provenance, op_local, trace_back

C = "tantivy_columnar::"
PAIRS = [
    # (enum, encoder, decoder, optional table of all variants)
    (C + "column_values::u64_based::CodecType", C + "column_values::u64_based::CodecType::to_code", C + "column_values::u64_based::CodecType::try_from_code", C + "column_values::u64_based::ALL_U64_CODEC_TYPES"),
    (C + "column_values::u128_based::U128FastFieldCodecType", C + "column_values::u128_based::U128FastFieldCodecType::to_code", C + "column_values::u128_based::U128FastFieldCodecType::from_code", None),
    (C + "Cardinality", C + "Cardinality::to_code", C + "Cardinality::try_from_code", None),
    (C + "value::NumericalType", C + "value::NumericalType::to_code", C + "value::NumericalType::try_from_code", None),
    (C + "columnar::writer::column_operation::ColumnTypeCategory", None, None, None),
]


def _pred_sig(prog, body, local, depth=0):
    """signature of a boolean: ('Lt', 'x', 5120) for `x < 5120`, following one level of calls to
    small workspace predicates (is_sparse).  None when it is not a comparison with a constant."""
    src = trace_back(body, local)
    if not src:
        return None
    last = src[-1]
    if last[0] == "call" and depth < 2:
        cb = prog.bodies.get(last[1]) if hasattr(prog, 'bodies') else None
        if cb is None:
            return None
        sigs = set()
        return _pred_sig(prog, cb, 0, depth + 1)
    if last[0] == "bin":
        st = body.stmts(last[2])[last[3]]
        ops = st.get("o", [])
        if len(ops) != 2:
            return None
        consts = [(i, o.get("v")) for i, o in enumerate(ops) if op_local(o) is None and "v" in o]
        if len(consts) != 1:
            return None
        i, v = consts[0]
        return (st.get("op"), "const-right" if i == 1 else "const-left", str(v))
    return None


def r2(rep, prog):
    """the optional index picks sparse vs dense blocks with ONE predicate on both sides: the
    block bytes carry no tag, the reader re-derives the encoding from the number of values"""
    R = "C08-R2"
    rep.rule(R, "writer/reader agreement of the optional index: the serializer's choice between SparseBlockCodec::serialize and DenseBlockCodec::serialize and the deserializer's choice between BlockVariant::Sparse and BlockVariant::Dense are each controlled by one comparison of the block's value count with a constant, and the two comparisons are the same (same operator, same constant, through the shared helper is_sparse or inlined): the encoding is not stored, so a different predicate on one side makes some block undecodable")
    O = C + "column_index::optional_index::"

    def controlling_sig(body, ta, tb):
        """signature of a switch that puts blocks ta on its true side only and tb on its false side only"""
        for sb in body.normal_blocks():
            tt = body.term(sb)
            if tt["k"] != "switch" or op_local(tt["on"]) is None:
                continue
            arms = dict((v, tg) for v, tg in tt["vals"])
            f_t = arms.get("0")
            if f_t is None or len(tt["vals"]) != 1:
                continue
            from_true = body.reachable((tt["else"],), blocked=frozenset({sb}))
            from_false = body.reachable((f_t,), blocked=frozenset({sb}))
            if all(x in from_true and x not in from_false for x in ta) and all(x in from_false and x not in from_true for x in tb):
                return _pred_sig(prog, body, op_local(tt["on"])), sb
        return None, None
    sigs = {}
    wb = get_body(rep, prog, R, O + "serialize_optional_index_block")
    if wb is not None:
        sp = [b for b, t in wb.calls() if "SparseBlockCodec" in (t.get("res") or t.get("f") or "") and (t.get("f") or "").endswith("::serialize")]
        de = [b for b, t in wb.calls() if "DenseBlockCodec" in (t.get("res") or t.get("f") or "") and (t.get("f") or "").endswith("::serialize")]
        sig, sb = controlling_sig(wb, sp, de) if sp and de else (None, None)
        sigs["writer"] = sig
        rep.check(sig is not None, R, "the writer encodes sparse iff count <op> constant", "Sparse codec on the true arm, Dense codec on the false arm of %s" % (sig,),
                  "serialize_optional_index_block does not choose its block codec by one comparison of the count with a constant (sparse sites %d, dense sites %d)" % (len(sp), len(de)), site=wb.span)
    rb = get_body(rep, prog, R, O + "deserialize_optional_index_block_metadatas")
    if rb is not None:
        BV = O + "BlockVariant"
        sp = [bi for bi in rb.normal_blocks() for st in rb.stmts(bi) if st.get("r") == "agg" and st.get("adt") == BV and st.get("variant") == "Sparse"]
        de = [bi for bi in rb.normal_blocks() for st in rb.stmts(bi) if st.get("r") == "agg" and st.get("adt") == BV and st.get("variant") == "Dense"]
        sig, sb = controlling_sig(rb, sp, de) if sp and de else (None, None)
        sigs["reader"] = sig
        rep.check(sig is not None, R, "the reader decodes sparse iff count <op> constant", "BlockVariant::Sparse on the true arm, Dense on the false arm of %s" % (sig,),
                  "deserialize_optional_index_block_metadatas does not derive the block variant from one comparison of the count with a constant (sparse sites %d, dense sites %d)" % (len(sp), len(de)), site=rb.span)
    if sigs.get("writer") and sigs.get("reader"):
        rep.check(sigs["writer"] == sigs["reader"], R, "writer and reader use the same sparse/dense predicate", "both: %s" % (sigs["writer"],),
                  "the optional-index writer chooses the sparse codec when %s but the reader assumes sparse when %s: blocks whose count falls between the two are decoded with the wrong codec"
                  % (sigs["writer"], sigs["reader"]), site=wb.span)


def r3(rep, prog):
    """range bounds are turned into inclusive ranges with checked arithmetic"""
    R = "C08-R3"
    rep.rule(R, "checked bound arithmetic: the helpers that turn the Bound<T> of a fast-field range query into an inclusive value range (bound_to_value_range, bound_range_inclusive_ip, ...) step over an excluded bound with checked_add / checked_sub — no overflow-checked `+ 1` / `- 1` (an Overflow assert in MIR, a wrap-around in release builds) on a value taken from the query: `(ffff:..:ffff, *]` and `[*, ::)` are empty ranges, not panics or wrapped ranges that match documents")
    pre = "tantivy::query::range_query::range_query_fastfield::"
    n = 0
    for fid in sorted(prog.bodies):
        if not fid.startswith(pre) or "::tests::" in fid or "bound" not in fid.split("::")[-1]:
            continue
        b = prog.bodies[fid]
        if "{closure" in fid:
            continue
        n += 1
        ovf = [bi for bi in b.normal_blocks() if b.term(bi)["k"] == "assert" and "Overflow" in str(b.term(bi).get("msg", ""))]
        rep.check(not ovf, R, "%s steps over excluded bounds with checked arithmetic" % short(fid), "no overflow assert",
                  "`%s` computes an inclusive bound with unchecked `+ 1` / `- 1` (%d overflow check(s) in MIR): a range query with an excluded bound at the extreme value panics in builds with overflow checks and "
                  "wraps around — matching documents it must not — without them" % (fid, len(ovf)), site=site(b, ovf[0]) if ovf else b.span)
    rep.floor(R, "bound-to-range helpers of the fast-field range query", n, 2)


WIDTH = {"u8": 8, "i8": 8, "u16": 16, "i16": 16, "u32": 32, "i32": 32, "u64": 64, "i64": 64, "usize": 64, "isize": 64, "u128": 128, "i128": 128}


def r4(rep, prog):
    """a value-range bound is never narrowed blindly"""
    import re
    from ..rules import dominating_guards
    from ..model import op_place, place_local
    R = "C08-R4"
    rep.rule(R, "range bounds are narrowed only under a guard: the value-range lookups of the fast field codecs (functions named *value_range* in bitpacker and columnar) receive u64 / u128 bounds that may lie outside what the column can hold; wherever such a bound is cast to a narrower integer, either the operand went through a clamp (min / max / clamp) or the cast is dominated by a test of the same bound against a MAX constant (the `start > u32::MAX` early exit). A bare `as u32` keeps the low bits only: an upper bound above 2^32 turns into a small one and documents in range are dropped")
    CLAMP = re.compile(r"::cmp::(min|max|Ord::min|Ord::max|Ord::clamp)$|::(clamp|min|max)$")
    ACC = set(prog.names(r"^core::ops::range::RangeInclusive::<Idx>::(start|end)$|^core::ops::range::RangeBounds::(start_bound|end_bound)$"))
    n_fn = n_cast = 0
    for b in prog.bodies.values():
        if b.kind in ("const", "static", "promoted") or "::tests::" in b.id or "::test::" in b.id:
            continue
        if not (b.crate in ("tantivy_bitpacker", "tantivy_columnar") and re.search(r"value_range", b.id.split("::{closure")[0].rsplit("::", 1)[-1])):
            continue
        n_fn += 1
        for bi in b.normal_blocks():
            for st in b.stmts(bi):
                if st.get("r") != "cast" or st.get("ck") != "int2int":
                    continue
                pl = op_place(st["o"][0])
                if pl is None:
                    continue
                src = b.local_ty_str(place_local(pl)) if "*" not in str(pl) and isinstance(pl, int) else b.place_ty_str(pl)
                dst = b.types[st["ty"]]["s"]
                if WIDTH.get(dst, 0) >= WIDTH.get(src, 0) or dst not in WIDTH or src not in WIDTH:
                    continue
                lv = provenance(b, place_local(pl))
                thru = provenance(b, place_local(pl), extra_transparent=ACC | {x[1] for x in lv if x[0] == "call" and CLAMP.search(x[1])})
                params = {x for x in thru if x[0] == "param"}
                if not params:
                    continue
                # only bounds: the parameter is a range / bound of the wide type
                wide = [x for x in params if re.search(r"Range|Bound|u64|u128", b.local_ty_str(x[1]))]
                if not wide:
                    continue
                n_cast += 1
                clamped = any(x[0] == "call" and CLAMP.search(x[1]) for x in lv)
                guarded = False
                acc_of = lambda leaves: {x[1] for x in leaves if x[0] == "call" and x[1] in ACC}
                my_acc = acc_of(provenance(b, place_local(pl), extra_transparent={x[1] for x in lv if x[0] == "call" and CLAMP.search(x[1])}))
                for sb, through, gl in dominating_guards(b, bi):
                    glv = provenance(b, gl, extra_transparent=ACC)
                    g_acc = acc_of(provenance(b, gl))
                    if my_acc and g_acc and not (my_acc & g_acc):
                        continue   # the test is about the other end of the range
                    if ({x for x in glv if x[0] == "param"} & params) and any(x[0] in ("const", "uneval") and ("MAX" in str(x[1]) or str(x[1]) in ("4294967295", "65535", "255", "18446744073709551615")) for x in glv):
                        guarded = True
                rep.check(clamped or guarded, R, "narrowing %s -> %s of a bound in %s" % (src, dst, short(b.id)), "clamped" if clamped else "guarded by a MAX test",
                          "`%s` casts a range bound from %s to %s without a clamp and without a dominating test against the narrow type's MAX: a bound above %s::MAX keeps its low bits only, the lookup then "
                          "uses a range that is smaller than the one requested and silently drops documents whose value is in range" % (b.id, src, dst, dst), site=site(b, bi))
    rep.floor(R, "value-range lookup bodies", n_fn, 10)
    rep.floor(R, "narrowing casts of a bound", n_cast, 2)


def r5(rep, prog):
    """a term that is alive in one segment is kept by the merge"""
    from ..rules import bool_states_from
    from ..model import op_place
    R = "C08-R5"
    rep.rule(R, "alive anywhere means kept: when dictionary columns are merged with deletes, is_term_present decides whether a term enters the merged dictionary; it is an existential over the segments that hold the term. Two events witness it — a segment without a term bitset (no deletes there: every term is alive) and BitSet::contains(term) answering true. From each witness, on every path to the return the function's result is `true` (bool constant propagation with branch refinement over the MIR from the witness block): a later segment in which the term only occurs in deleted rows cannot take the answer back. A dropped term leaves its ordinal mapping at 0: live rows silently read another term")
    fid = "tantivy_columnar::columnar::merge::merge_dict_column::is_term_present"
    b = get_body(rep, prog, R, fid)
    if b is None:
        return
    wit = []
    for bi in b.normal_blocks():
        t = b.term(bi)
        if t["k"] != "switch":
            continue
        p = op_place(t["on"])
        if p is None:
            continue
        tr = trace_back(b, p)
        if not tr or tr[-1][0] != "call":
            continue
        callee = tr[-1][1]
        listed = {v: tg for v, tg in t["vals"]}
        if callee.endswith("Option::<T>::as_ref") and any(x[0] == "discr" for x in tr):
            # None arm: discriminant 0
            none_tg = listed.get("0", t.get("else") if "1" in listed else None)
            if none_tg is not None:
                wit.append(("segment without a term bitset (None arm)", none_tg, {}))
    for bi, t in b.calls():
        if (t.get("res") or t.get("f") or "").endswith("BitSet::contains") and t.get("to") is not None and t.get("dest") is not None:
            wit.append(("BitSet::contains(term) is true", t["to"], {t["dest"]: True}))
    if not rep.check(len(wit) >= 2, R, "witness events found in is_term_present", "%d" % len(wit),
                     "cannot establish: is_term_present no longer shows the two witnesses (a None term bitset, BitSet::contains true); found %s" % [w[0] for w in wit], site=b.span):
        return
    for name, blk, init in wit:
        res = bool_states_from(b, blk, init)
        bad = sorted(rb for rb, v in res.items() if v is not True)
        rep.check(bool(res) and not bad, R, "after `%s` the result is true" % name, "constant propagation from bb%d: %s" % (blk, {k: v for k, v in res.items()}),
                  "is_term_present can return something else than `true` after the witness `%s` (value of the result at the return reached from bb%d: %s): the term is alive in that segment but a later segment "
                  "in which it only occurs in deleted rows overrides the answer, the term is dropped from the merged dictionary and the rows that hold it read the term with merged ordinal 0" % (name, blk, {k: v for k, v in res.items()}),
                  site=site(b, blk) if "lib.rs:1 " not in site(b, blk) else b.span)


def r6(rep, prog):
    """an upper bound is not saturated into the domain"""
    import re
    from ..rules import dominating_guards
    R = "C08-R6"
    rep.rule(R, "an upper bound below the domain means an empty range: where the codecs shift a requested value range into their own domain (`bound - min_value`), saturating the LOWER bound at 0 is harmless, but an UPPER bound that saturates turns the empty range `end < min_value` into `0..=0`, i.e. 'value == min_value'. Rule: in bitpacker / columnar, a saturating_sub whose operand is the end() of a RangeInclusive and whose result becomes the end of a new RangeInclusive is dominated by a test that involves that end() (the `end < min_value => None` early exit); a difference that is only compared (a size) is not a bound")
    END = set(prog.names(r"^core::ops::range::RangeInclusive::<Idx>::end$"))
    ACC = set(prog.names(r"^core::ops::range::RangeInclusive::<Idx>::(start|end)$"))
    NEW = set(prog.names(r"^core::ops::range::RangeInclusive::<Idx>::new$"))
    SAT = re.compile(r"::saturating_sub$")
    n = n_scan = 0
    for b in prog.bodies.values():
        if b.kind in ("const", "static", "promoted") or "::tests::" in b.id or "::test::" in b.id or b.crate not in ("tantivy_bitpacker", "tantivy_columnar"):
            continue
        n_scan += 1
        sats = {}
        for bi, t in b.calls():
            f = t.get("res") or t.get("f") or ""
            if SAT.search(f) and op_local(t["args"][0]) is not None:
                lv = provenance(b, op_local(t["args"][0]))
                if any(x[0] == "call" and x[1] in END for x in lv):
                    sats[bi] = f
        if not sats:
            continue
        for bi, t in b.calls():
            f = t.get("res") or t.get("f") or ""
            if f not in NEW or len(t["args"]) < 2 or op_local(t["args"][1]) is None:
                continue
            lv = provenance(b, op_local(t["args"][1]))
            for x in lv:
                if x[0] == "call" and len(x) > 2 and x[2] in sats and SAT.search(x[1]):
                    n += 1
                    sb_ = x[2]
                    guarded = False
                    for gb, through, gl in dominating_guards(b, sb_):
                        glv = provenance(b, gl)
                        if any(y[0] == "call" and y[1] in END for y in glv):
                            guarded = True
                    rep.check(guarded, R, "upper bound shifted by saturating_sub in %s" % short(b.id), "dominated by a test of the range's end()",
                              "`%s` computes the end of the range it looks up as `range.end().saturating_sub(..)` without first testing end() against the subtrahend: a requested range that lies entirely below the "
                              "column's minimum becomes `0..=0` and matches every row that holds the minimum (get_docids_for_value_range(0..=5) on a column [10, 11, 12] returns the row of 10)" % b.id, site=site(b, sb_))
    rep.floor(R, "codec bodies scanned", n_scan, 400)
    rep.floor(R, "upper bounds shifted with saturating_sub", n, 1)


def r7(rep, prog):
    """every arm of Column::first_vals fills every slot it is asked for"""
    from ..rules import natural_loop
    from ..model import place_local, is_bare
    R = "C08-R7"
    rep.rule(R, "'none when absent' also for batched reads: Column::first_vals(docids, output) dispatches on the column index (Empty / Full / Optional / Multivalued, read from the enum). In the arm of every variant each requested slot of `output` is written: either `output` is handed to a callee, or the arm loops over the docids and every iteration stores into output[i] before the next one — an arm that leaves a slot untouched for a row without value returns whatever the caller's buffer held (a stale Some from the previous batch) where `first()` says None")
    fid = "tantivy_columnar::column::Column::<T>::first_vals"
    b = get_body(rep, prog, R, fid)
    ad = prog.adts.get("tantivy_columnar::column_index::ColumnIndex")
    if b is None or not rep.check(ad is not None, R, "enum ColumnIndex", "found", "cannot establish: ColumnIndex not found"):
        return
    variants = [v["name"] for v in ad["variants"]]
    t0 = b.term(0)
    if not rep.check(t0["k"] == "switch" and len(t0["vals"]) >= len(variants) - 1, R, "first_vals dispatches on the column index", "%d arms" % len(t0.get("vals", [])),
                     "cannot establish: Column::first_vals does not start with a switch over the ColumnIndex variants", site=b.span):
        return
    arms = {int(v): tg for v, tg in t0["vals"]}
    ITER = tuple(prog.names(r"(slice::<impl \[T\]>::iter_mut|Iterator::(take|next|enumerate|by_ref)|IntoIterator>?::into_iter)$"))

    def writes_output(bi):
        for st in b.stmts(bi):
            d = st["d"]
            if not is_bare(d) and place_local(d) == 3:
                return True
            if not is_bare(d) and "*" in str(d):
                # a store through an item of an iterator over `output`
                lv = provenance(b, place_local(d), extra_transparent=ITER)
                if ("param", 3) in lv:
                    return True
        t = b.term(bi)
        if t["k"] in ("call", "tailcall"):
            for o in t.get("args", []):
                l = op_local(o)
                if l is not None and any(x == ("param", 3) for x in provenance(b, l)):
                    return True
        return False
    for i, name in enumerate(variants):
        tg = arms.get(i)
        if tg is None:
            continue
        others = frozenset(x for j, x in arms.items() if j != i) | {0}
        region = set(b.reachable((tg,), blocked=others)) | {tg}
        wr = {x for x in region if writes_output(x)}
        heads = [x for x in region if b.term(x)["k"] in ("call",) and (b.term(x).get("f") or "").endswith("Iterator::next") and natural_loop(b, x)]
        if heads:
            h = heads[0]
            # from the Some arm of the iteration back to the header without a write?
            nxt = b.term(h).get("to")
            skip = h in b.reachable((nxt,), blocked=frozenset(wr)) if nxt is not None else True
            # the first hop is the switch on next()'s result: the None arm leaves the loop (fine)
            ok = bool(wr) and not _loops_back_without(b, h, wr)
        else:
            ok = bool(wr)
        rep.check(ok, R, "the %s arm of first_vals writes every requested slot" % name, "output is written on every iteration" if heads else "output handed to a callee",
                  "the ColumnIndex::%s arm of Column::first_vals %s: for a row without a value the slot keeps what the caller's buffer held — with a reused buffer first_vals reports [Some(10), Some(12)] where "
                  "first() gives [None, Some(12)]" % (name, "can go to the next docid without storing into output[i]" if heads else "never writes `output`"), site=site(b, tg))


def _loops_back_without(b, h, wr):
    """can the loop headed by block h complete one more iteration (reach h again through its body) without passing a block of wr"""
    from ..rules import natural_loop
    lp = natural_loop(b, h)
    nxt = b.term(h).get("to")
    if nxt is None:
        return True
    starts = [x for x in b.succ(nxt) if x in lp] if b.term(nxt)["k"] == "switch" else [nxt]
    for s0 in starts:
        if s0 in wr:
            continue
        if h in b.reachable((s0,), blocked=frozenset(wr)):
            return True
    return False


def r8(rep, prog):
    """every codec clamps the requested rows to the rows it has"""
    import re
    R = "C08-R8"
    rep.rule(R, "row ranges are clamped by every codec: ColumnValues::get_row_ids_for_value_range(value range, row range, out) is handed row ranges that may extend past the column (Column::get_docids_for_value_range(.., 0..u32::MAX, ..)). Sibling agreement: every implementation that does the lookup itself (does not delegate to another get_row_ids_for_value_range) bounds the row range by its own number of values — a `min` fed by num_vals() / the stats' row count; one that forwards the range untouched reads past its data (BitUnpacker: 'Requested index is out of bounds')")
    n = 0
    for fid, b in sorted(prog.bodies.items()):
        if not re.search(r" as tantivy_columnar::column_values::ColumnValues(<[^>]*>)?>::get_row_ids_for_value_range$|^tantivy_columnar::column_values::ColumnValues::get_row_ids_for_value_range$", fid):
            continue
        calls = [(bi, t.get("res") or t.get("f") or "") for bi, t in b.calls()]
        if any(c.endswith("get_row_ids_for_value_range") for _, c in calls):
            rep.ok(R, "%s delegates" % short(fid), "forwards to another implementation", site=b.span)
            continue
        n += 1
        mins = [bi for bi, c in calls if re.search(r"::cmp::Ord::min$|::min$", c)]
        ok = False
        for bi in mins:
            t = b.term(bi)
            lv = set()
            for o in t.get("args", []):
                if op_local(o) is not None:
                    lv |= provenance(b, op_local(o))
            if any(x[0] == "call" and x[1].endswith("::num_vals") for x in lv) or _reads_field(b, t, ("num_rows", "num_vals")):
                ok = True
        rep.check(ok, R, "%s bounds the row range by its number of values" % short(fid), "min(.., num_vals)",
                  "`%s` looks the value range up over the row range it was given without bounding it by the number of values of the column — its siblings all do: a row range that extends past the column "
                  "(0..u32::MAX) makes the bit-packed codec read past its data and panic (`Requested index is out of bounds`)" % fid, site=b.span)
    rep.floor(R, "implementations of get_row_ids_for_value_range that do the lookup themselves", n, 3)


def _reads_field(b, t, names):
    from ..model import proj_fields, op_place
    work, seen = [op_local(o) for o in t.get("args", []) if op_local(o) is not None], set()
    while work:
        l = work.pop()
        if l in seen:
            continue
        seen.add(l)
        for d in b.defs().get(l, []):
            if d[0] != "stmt":
                continue
            st = d[3]
            for pl in [st.get("p")] + [op_place(o) for o in st.get("o", [])]:
                if pl is None:
                    continue
                if not isinstance(pl, int) and any(f[1] in names for f in proj_fields(pl)):
                    return True
                from ..model import place_local
                work.append(place_local(pl))
    return False


def run(rep, prog, tier):
    r8(rep, prog)
    r7(rep, prog)
    r2(rep, prog)
    r3(rep, prog)
    r4(rep, prog)
    r5(rep, prog)
    r6(rep, prog)
    R = "C08-R1"
    rep.rule(R, "every (to_code, try_from_code) pair of the columnar format is mutually inverse on all variants; COLUMN_TYPES[i] has discriminant i and covers the enum; ALL_U64_CODEC_TYPES is complete; the current format version is accepted by the reader")
    rep.not_decided += ["codec arithmetic, optional / multivalued indexes, merge (values)"]
    n = 0
    for enum, encf, decf, table in PAIRS:
        if encf is None:
            continue
        variants = ct.enum_variants(prog, enum)
        eb = get_body(rep, prog, R, encf)
        db = get_body(rep, prog, R, decf)
        if not rep.check(variants is not None, R, "enum %s" % short(enum), "found", "cannot establish: enum %s not found" % enum):
            continue
        if eb is None or db is None:
            continue
        enc, how = ct.encode_map(prog, eb, enum)
        dec, how2 = ct.decode_map(prog, db, enum)
        if rep.check(enc is not None and dec is not None, R, "%s code functions readable" % short(enum), "%s / %s" % (how, how2),
                     "cannot read the code tables of %s (%s / %s)" % (enum, how, how2), site=eb.span):
            ct.check_inverse(rep, R, short(enum), enc, dec, variants, site=db.span)
            n += 1
        if table:
            arr = ct.const_array_variants(prog, table, enum)
            rep.check(arr is not None and sorted(arr) == sorted(variants) and len(set(arr)) == len(arr), R, "%s lists every variant once" % short(table), "%s" % arr,
                      "%s %s does not list every variant of %s" % (table, arr, sorted(variants)))
    rep.floor(R, "inverse code pairs established", n, 4)
    # ColumnType: table lookup decoder
    CT = C + "columnar::column_type::ColumnType"
    variants = ct.enum_variants(prog, CT)
    arr = ct.const_array_variants(prog, C + "columnar::column_type::COLUMN_TYPES", CT)
    if rep.check(variants is not None and arr is not None, R, "ColumnType and COLUMN_TYPES readable", "%d variants / %d entries" % (len(variants or {}), len(arr or [])),
                 "cannot establish: ColumnType / COLUMN_TYPES not found"):
        bad = [(i, v, variants.get(v)) for i, v in enumerate(arr) if variants.get(v) != i]
        rep.check(not bad and len(arr) == len(variants), R, "COLUMN_TYPES[i] is the variant with discriminant i, for every variant",
                  ", ".join("%d=%s" % (i, v) for i, v in enumerate(arr)),
                  "COLUMN_TYPES does not match the enum order (%s; %d entries for %d variants): try_from_code(to_code(t)) != t for some column type" % (bad[:3], len(arr), len(variants)))
        eb = get_body(rep, prog, R, CT + "::to_code")
        db = get_body(rep, prog, R, CT + "::try_from_code")
        if eb is not None:
            enc, how = ct.encode_map(prog, eb, CT)
            rep.check(enc == variants, R, "ColumnType::to_code is the discriminant", how, "ColumnType::to_code is not `self as u8` (%s)" % how, site=eb.span)
        if db is not None:
            lv = set()
            for b, t in db.calls():
                if t.get("f", "").endswith("<impl [T]>::get"):
                    lv |= provenance(db, op_local(t["args"][0]))
            rep.check(any(l[0] in ("uneval", "static") and l[1].endswith("COLUMN_TYPES") for l in lv) or any(l[0] == "uneval" and "try_from_code" in l[1] for l in lv), R,
                      "ColumnType::try_from_code looks the code up in COLUMN_TYPES", "COLUMN_TYPES.get(code)", "ColumnType::try_from_code no longer indexes COLUMN_TYPES (%s)" % sorted(lv), site=db.span)
    # format version
    V = C + "columnar::format_version::Version"
    variants = ct.enum_variants(prog, V)
    cur = None
    cb = prog.body(C + "columnar::format_version::CURRENT_VERSION")
    if cb is not None:
        for st in cb.stmts(0):
            if st.get("r") == "agg" and st.get("adt") == V:
                cur = st["variant"]
    db = get_body(rep, prog, R, V + "::try_from_bytes")
    if db is not None and rep.check(variants is not None and cur is not None, R, "columnar CURRENT_VERSION readable", "CURRENT_VERSION = %s" % cur, "cannot establish the columnar CURRENT_VERSION"):
        # decoder switches on u32::from_le_bytes(bytes)
        dec = None
        for b in db.normal_blocks():
            t = db.term(b)
            if t["k"] == "switch":
                m = {}
                for v, tg in t["vals"]:
                    var = ct._first_variant(db, V, tg)
                    if var:
                        m[int(v)] = var
                if m:
                    dec = m
        rep.check(dec is not None and dec.get(variants[cur]) == cur, R, "the columnar reader accepts the version the writer stamps", "decode(%d) = %s" % (variants[cur], cur),
                  "Version::try_from_bytes does not map %d back to CURRENT_VERSION %s (%s)" % (variants[cur], cur, dec), site=db.span)
        if dec is not None:
            bad = [(c, v) for c, v in dec.items() if variants.get(v) != c]
            rep.check(not bad, R, "every accepted columnar version code is its variant's discriminant", "%s" % dec, "version decode table disagrees with the enum: %s" % bad, site=db.span)
