"""Obligation bookkeeping, known-findings handling and evidence writing."""
import json
import os
import sys
import time

VERIF = os.path.dirname(os.path.dirname(os.path.abspath(__file__)))
EVID = os.environ.get("VERIF_EVIDENCE_DIR") or os.path.join(VERIF, "evidence")
KNOWN = os.path.join(VERIF, "known_findings.json")


def load_known():
    if not os.path.exists(KNOWN):
        return {"findings": [], "fixed": []}
    with open(KNOWN) as fh:
        return json.load(fh)


class Report:
    def __init__(self, pid, tier="quick", seed=0):
        self.pid = pid
        self.tier = tier
        self.seed = seed
        self.t0 = time.time()
        self.obligations = []     # dicts
        self.violations = []      # dicts with key
        self.notes = []
        self.samples = []
        self.stats = {}
        self.rules = {}           # rule id -> description
        self.not_decided = []
        self.assumptions = []
        self.trusted = []
        self.extra = {}

    # ---- rule registration
    def rule(self, rid, text):
        self.rules[rid] = text

    def ok(self, rule, instance, detail="", site=""):
        self.obligations.append({"rule": rule, "instance": instance, "ok": True, "detail": detail, "site": site})

    def fail(self, rule, key, msg, site="", path=None):
        """a violated obligation.  `key` identifies it without line numbers."""
        self.obligations.append({"rule": rule, "instance": key, "ok": False, "detail": msg, "site": site})
        v = {"property": self.pid, "rule": rule, "key": key, "message": msg, "site": site}
        if path:
            v["path"] = path
        self.violations.append(v)

    def check(self, cond, rule, key, ok_detail="", fail_msg="", site="", path=None):
        if cond:
            self.ok(rule, key, ok_detail, site)
        else:
            self.fail(rule, key, fail_msg or ("obligation failed: " + ok_detail), site, path)
        return cond

    def floor(self, rule, what, count, floor):
        """fail closed when a rule matches fewer instances than were confirmed by hand"""
        if count < floor:
            self.fail(rule, "floor:" + what, "cannot establish %s: rule %s matched %d instance(s), "
                      "%d were confirmed by reading (anchor missing or renamed?)" % (what, rule, count, floor))
        else:
            self.ok(rule, "floor:" + what, "%d instance(s) >= floor %d" % (count, floor))

    def stale(self, rule, key, what):
        """An entry of a table of *permitted exceptions* whose site is no longer there.  A permission nobody uses cannot hide
        a violation, and code that stopped needing it (an unwrap replaced by `?`, a swallowed error now propagated, a helper
        whose body moved) is not a violation of anything: recorded, counted, not an alarm.  `stale_floor` keeps the table
        from rotting silently: most of it must still match."""
        self.obligations.append({"rule": rule, "instance": "unused table entry: " + key, "ok": True,
                                 "detail": "%s — the permitted site is not present in this tree (entry unused)" % what, "site": ""})
        self._stale = getattr(self, "_stale", {})
        self._stale[rule] = self._stale.get(rule, 0) + 1

    def stale_floor(self, rule, what, table_size):
        n = getattr(self, "_stale", {}).get(rule, 0)
        if table_size and n * 2 > table_size:
            self.fail(rule, "floor:" + what, "cannot establish %s: %d of the %d tabled sites are not found any more "
                      "(anchors renamed or call resolution broken?): the table must be re-confirmed" % (what, n, table_size))
        else:
            self.ok(rule, "floor:" + what, "%d of %d tabled sites present" % (table_size - n, table_size))

    def sample(self, s):
        if len(self.samples) < 40:
            self.samples.append(s)

    # ---- finish
    def finish(self):
        known = load_known()
        kf = {(f["property"], f["rule"], f["key"]): f for f in known.get("findings", [])}
        unknown = []
        known_hit = []
        for v in self.violations:
            k = (v["property"], v["rule"], v["key"])
            if k in kf:
                known_hit.append((v, kf[k]))
            else:
                unknown.append(v)
        os.makedirs(EVID, exist_ok=True)
        nob = len(self.obligations)
        ndis = sum(1 for o in self.obligations if o["ok"])
        distinct = len({(o["rule"], o["instance"]) for o in self.obligations if o["site"] or o["ok"]})
        samples = list(self.samples)
        for o in self.obligations:
            if len(samples) >= 60:
                break
            samples.append({k: o[k] for k in ("rule", "instance", "ok", "detail", "site")})
        ev = {
            "property_id": self.pid,
            "tier": self.tier,
            "seed": self.seed,
            "level": "other",
            "coverage": {
                "explanation": "static analysis of /repo's current working tree: facts from a rustc "
                               "MIR driver (type-checked, drop-elaborated MIR, resolved callees), rules: "
                               + "; ".join("%s: %s" % (k, v) for k, v in sorted(self.rules.items())),
                "evaluations": nob,
                "distinct_nontrivial": distinct,
                "rule": "one obligation per (rule, instance); an instance is a concrete construct of the "
                        "source (function, call site, path, table row) found in the fact base; "
                        "distinct_nontrivial counts distinct (rule, instance) pairs that matched a real construct",
                "obligations": nob,
                "discharged": ndis,
                "known_findings_reported": len(known_hit),
                "exhaustive": True,
                "samples": samples,
                "not_decided": self.not_decided,
                "analysed": self.stats,
                "trusted_base": self.trusted,
                "checker_cmd": "./check %s --tier %s" % (self.pid, self.tier),
            },
            "assumptions": self.assumptions,
            "wall_s": round(time.time() - self.t0, 2),
            "violations": len(unknown),
        }
        ev["coverage"].update(self.extra)
        tmp = os.path.join(EVID, self.pid + ".json.tmp")
        with open(tmp, "w") as fh:
            json.dump(ev, fh, indent=1)
        os.replace(tmp, os.path.join(EVID, self.pid + ".json"))
        vf = os.path.join(EVID, self.pid + ".violations.json")
        if os.path.exists(vf):
            os.remove(vf)
        for v, f in known_hit:
            print("KNOWN-FINDING: property=%s %s [%s %s] %s" % (self.pid, f.get("what", v["message"]), v["rule"], v["key"], v["site"]))
        print("[%s] %s tier: %d obligations, %d discharged, %d known finding(s), %d violation(s); %.1fs"
              % (self.pid, self.tier, nob, ndis, len(known_hit), len(unknown), time.time() - self.t0))
        if unknown:
            with open(vf, "w") as fh:
                json.dump(unknown, fh, indent=1)
            for v in unknown:
                print("  violation %s %s @ %s: %s" % (v["rule"], v["key"], v["site"], v["message"]))
                if v.get("path"):
                    print("     path: " + " -> ".join(v["path"]))
            print("VIOLATION property=%s replay=%s" % (self.pid, vf))
            return 1
        return 0


class Retag:
    """view of a Report that files every obligation under another rule id (used when one
    property shares a rule of another property)"""
    def __init__(self, rep, rule):
        self._r = rep
        self._rule = rule

    def __getattr__(self, k):
        return getattr(self._r, k)

    def rule(self, *a, **kw):
        pass

    def ok(self, rule, *a, **kw):
        return self._r.ok(self._rule, *a, **kw)

    def fail(self, rule, *a, **kw):
        return self._r.fail(self._rule, *a, **kw)

    def check(self, cond, rule, *a, **kw):
        return self._r.check(cond, self._rule, *a, **kw)

    def floor(self, rule, *a, **kw):
        return self._r.floor(self._rule, *a, **kw)

    def stale(self, rule, *a, **kw):
        return self._r.stale(self._rule, *a, **kw)

    def stale_floor(self, rule, *a, **kw):
        return self._r.stale_floor(self._rule, *a, **kw)
