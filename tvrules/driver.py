"""Dispatch: property id -> rule module."""
import importlib
import os
import sys

from .model import Program
from .report import Report

PROPS = ["C01", "C02", "C03", "C04", "C05", "C06", "C07", "C08", "C09", "C10", "C11", "C12", "C13",
         "C14", "C15", "C16", "C17", "C18", "C19", "C20"]

_PROGS = {}


def program(config="default"):
    if config not in _PROGS:
        _PROGS[config] = Program(config)
    return _PROGS[config]


def run(pid, tier="quick", seed=0):
    if pid == "ALL":
        rc = 0
        for p in PROPS:
            rc = max(rc, run(p, tier, seed))
        return rc
    try:
        mod = importlib.import_module("tvrules.props.%s" % pid.lower())
    except ModuleNotFoundError:
        print("CHECK-ERROR property=%s no rule module (not claimed / not applicable)" % pid)
        return 2
    rep = Report(pid, tier, seed)
    prog = program(os.environ.get("VERIF_CONFIG", "default"))
    rep.stats = prog.stats()
    rep.trusted = ["rustc nightly front end + MIR construction (facts)", "std and external crates (not analysed)",
                   "mirfacts driver (fact extraction)", "tvrules rule engine"]
    mod.run(rep, prog, tier)
    if tier == "thorough" and not os.environ.get("VERIF_CONFIG"):
        thorough(rep, mod, pid)
    return rep.finish()


EXTRA_CONFIGS = ("quickwit", "zstd", "failpoints")
WITNESSES = {"C05": ("C05OwnedBytesImmutable", "C05SearcherImmutable"), "C18": ("C18LockNotClone", "C18NewIsPrivate", "C18LockFieldPrivate"), "C20": ("C20AntiCallToken",)}


class ConfigView:
    """report the obligations of a run under another build configuration into the main report:
    discharged obligations are prefixed with the configuration, violations keep their key (so a
    known finding stays the same finding in every configuration, and duplicates are dropped)."""
    def __init__(self, rep, cfg):
        self._r = rep
        self._c = cfg
        self.extra = {}
        self.not_decided = []
        self.stats = {}

    def __getattr__(self, k):
        return getattr(self._r, k)

    def rule(self, *a, **kw):
        pass

    def ok(self, rule, instance, detail="", site=""):
        self._r.ok(rule, "[%s] %s" % (self._c, instance), detail, site)

    def fail(self, rule, key, msg, site="", path=None):
        if any(v["rule"] == rule and v["key"] == key for v in self._r.violations):
            return
        self._r.fail(rule, key, "[config %s] %s" % (self._c, msg), site, path)

    def check(self, cond, rule, key, ok_detail="", fail_msg="", site="", path=None):
        if cond:
            self.ok(rule, key, ok_detail, site)
        else:
            self.fail(rule, key, fail_msg or ("obligation failed: " + ok_detail), site, path)
        return cond

    def floor(self, rule, what, count, floor):
        if count < floor:
            self.fail(rule, "floor:" + what, "cannot establish %s: matched %d, %d confirmed" % (what, count, floor))
        else:
            self.ok(rule, "floor:" + what, "%d >= %d" % (count, floor))

    def sample(self, s_):
        pass


def thorough(rep, mod, pid):
    import json
    import subprocess
    import concurrent.futures as cf
    verif = os.path.dirname(os.path.dirname(os.path.abspath(__file__)))
    # 1. every extra build configuration that the repository builds offline
    cfgs = []
    for cfg in EXTRA_CONFIGS:
        try:
            p2 = program(cfg)
        except Exception as e:  # a feature set that does not build is reported, not ignored
            rep.fail(pid + "-CFG", "configuration %s builds" % cfg, "cannot build the fact base for feature set `%s`: %s" % (cfg, str(e)[:300]))
            continue
        cfgs.append(cfg)
        mod.run(ConfigView(rep, cfg), p2, "quick")
    rep.extra["configurations"] = ["default"] + cfgs + (["nodebug"] if pid == "C15" else [])
    # 2. both-ways self-test: the seeded variants of this property must be caught, the benign refactors must stay silent
    exp = json.load(open(os.path.join(verif, "selftest", "expect.json")))
    names = sorted(n for n, e in exp.items() if e["property"] == pid or pid in e.get("also", []))

    def one(name):
        e = exp[name]
        import tempfile
        evd = tempfile.mkdtemp(prefix="tvself-ev-")
        env = dict(os.environ, VERIF_EVIDENCE_DIR=evd, VERIF_TIER="quick")
        env.pop("VERIF_CONFIG", None)
        for attempt in (0, 1):
            r = subprocess.run([os.path.join(verif, "tools", "with_patch.sh"), os.path.join(verif, "selftest", name), os.path.join(verif, "check"), pid, "--tier", "quick"],
                               cwd=verif, env=env, stdout=subprocess.PIPE, stderr=subprocess.STDOUT, text=True)
            if r.returncode in (0, 1):
                break           # rc 2/3 = the machinery itself failed on the scratch copy: retry once
        subprocess.run(["rm", "-rf", evd])
        lines = [l.strip() for l in r.stdout.splitlines() if l.strip().startswith("violation")]
        if e.get("benign"):
            return name, r.returncode == 0, "silent" if r.returncode == 0 else "false alarm: " + " | ".join(lines)[:300]
        hit = [l for l in lines if all(x in l for x in e["expect"])]
        return name, r.returncode == 1 and bool(hit), (hit[0][:160] if hit else "rc=%d %s" % (r.returncode, r.stdout[-300:]))
    caught = 0
    with cf.ThreadPoolExecutor(6) as ex:
        for name, ok, info in ex.map(one, names):
            e = exp[name]
            if e.get("benign"):
                rep.check(ok, pid + "-SELFTEST", "benign refactor %s stays silent" % name, info, "the check raises an alarm on a behaviour-preserving change: %s" % info)
            else:
                rep.check(ok, pid + "-SELFTEST", "seeded variant %s is caught" % name, info, "the check misses the seeded variant %s: %s" % (name, info))
            caught += 1 if ok else 0
    rep.extra["selftest_variants"] = len(names)
    rep.rules[pid + "-SELFTEST"] = "both-ways self-test: each seeded one-instance-broken variant of this property (scratch copy of /repo, still compiles) must make this check fire naming the instance; benign refactors must not"
    # 3. compile-fail witnesses
    if pid in WITNESSES:
        r = subprocess.run([os.path.join(verif, "tools", "run_witness.py")], stdout=subprocess.PIPE, stderr=subprocess.STDOUT, text=True)
        res = {}
        for l in r.stdout.splitlines():
            if l.startswith("WITNESS "):
                _, nm, st = l.split()
                res[nm] = st
        rep.rules[pid + "-WITNESS"] = "compile_fail witnesses (rustdoc, nightly, with error code) paired with compiling twins: the violating program does not type-check"
        for w in WITNESSES[pid]:
            for kind in ("compile_fail", "twin"):
                k = "%s:%s" % (w, kind)
                rep.check(res.get(k) == "ok", pid + "-WITNESS", "witness %s" % k, "as expected (%s)" % ("rejected by the compiler with the expected error code" if kind == "compile_fail" else "the twin without the offending line compiles and runs"),
                          "witness %s: %s — %s" % (k, res.get(k, "did not run"), "the violating program now compiles" if kind == "compile_fail" else "the twin no longer compiles: the witness is vacuous"))
