"""Dispatch: property id -> rule module."""
import importlib
import sys

from .model import Program
from .report import Report

PROPS = ["C01", "C02", "C03", "C04", "C05", "C06", "C07", "C08", "C09", "C10", "C11", "C12",
         "C15", "C16", "C17", "C18", "C19", "C20"]

_PROGS = {}


def program(config="default"):
    if config not in _PROGS:
        _PROGS[config] = Program(config)
    return _PROGS[config]


def run(pid, tier="quick", seed=0):
    if pid == "ALL":
        rc = 0
        for p in PROPS:
            rc = max(rc, run(p, tier, seed))
        return rc
    try:
        mod = importlib.import_module("tvrules.props.%s" % pid.lower())
    except ModuleNotFoundError:
        print("CHECK-ERROR property=%s no rule module (not claimed / not applicable)" % pid)
        return 2
    rep = Report(pid, tier, seed)
    import os
    prog = program(os.environ.get("VERIF_CONFIG", "default"))
    rep.stats = prog.stats()
    rep.trusted = ["rustc nightly front end + MIR construction (facts)", "std and external crates (not analysed)",
                   "mirfacts driver (fact extraction)", "tvrules rule engine"]
    mod.run(rep, prog, tier)
    return rep.finish()
