"""Merge coverage (C14): which parts of `other` a `merge(&mut self, other: Self)` function reads
and which parts of `self` it writes, by a flow-insensitive alias analysis over MIR places.

A path is a tuple of ('v', Variant) / ('f', field) / ('i',) steps below the value of type Self.
`leaf_paths` enumerates the accumulator leaves of Self from the type table: struct fields and enum
variant fields, descending through workspace ADTs that have no merge function of their own.
"""
from .model import place_local, place_proj, op_place, is_bare

ALIAS_R = ("use", "cast", "ref", "rawptr")


def _steps(proj):
    out = []
    for e in proj:
        if e == "*":
            continue
        if e.startswith("f:"):
            _, idx, name, owner = e.split(":", 3)
            out.append(("f", name or idx))
        elif e.startswith("d:"):
            out.append(("v", e.split(":", 2)[2]))
        else:
            out.append(("i",))
    return tuple(out)


class Aliases:
    def __init__(self, body, roots):
        """roots: {local: rootname} (e.g. {1: 'self', 2: 'other'})"""
        self.body = body
        self.alias = {l: (r, ()) for l, r in roots.items()}
        self.tup = {}
        defs = body.defs()
        self.alias_stmts = set()
        changed = True
        rounds = 0
        while changed and rounds < 20:
            changed = False
            rounds += 1
            for b in body.normal_blocks():
                for i, st in enumerate(body.stmts(b)):
                    d = st["d"]
                    if not is_bare(d) or d in roots or len(defs.get(d, [])) != 1:
                        continue
                    r = st.get("r")
                    if r in ("use", "cast"):
                        pl = op_place(st["o"][0]) if st.get("o") else None
                        res = self.resolve(pl) if pl is not None else None
                    elif r in ("ref", "rawptr"):
                        res = self.resolve(st["p"])
                    elif r == "agg" and st.get("ak") == "tuple":
                        m = {}
                        for k, o in enumerate(st.get("o", [])):
                            pl = op_place(o)
                            rr = self.resolve(pl) if pl is not None else None
                            if rr is not None:
                                m[k] = rr
                        if m and self.tup.get(d) != m:
                            self.tup[d] = m
                            changed = True
                        if m:
                            self.alias_stmts.add((b, i))
                        continue
                    else:
                        continue
                    if res is not None:
                        self.alias_stmts.add((b, i))
                        if self.alias.get(d) != res:
                            self.alias[d] = res
                            changed = True

    def resolve(self, pl):
        """(root, path) of a place, or None"""
        if pl is None:
            return None
        L = place_local(pl)
        proj = list(place_proj(pl))
        if L in self.alias:
            root, path = self.alias[L]
        elif L in self.tup:
            k = 0
            while k < len(proj) and proj[k] == "*":
                k += 1
            if k < len(proj) and proj[k].startswith("f:"):
                idx = int(proj[k].split(":")[1])
                if idx in self.tup[L]:
                    root, path = self.tup[L][idx]
                    proj = proj[k + 1:]
                else:
                    return None
            else:
                return None
        else:
            return None
        return (root, path + _steps(proj))

    def uses(self):
        """terminal reads / writes: list of (kind 'r'|'w'|'rw'|'mv', root, path, block, what)"""
        body = self.body
        out = []
        for b in body.normal_blocks():
            for i, st in enumerate(body.stmts(b)):
                r = st.get("r")
                if (b, i) not in self.alias_stmts and r != "discr":
                    for o in st.get("o", []):
                        res = self.resolve(op_place(o))
                        if res:
                            out.append(("r", res[0], res[1], b, r))
                    if "p" in st and r not in ("ref", "rawptr"):
                        res = self.resolve(st["p"])
                        if res:
                            out.append(("r", res[0], res[1], b, r))
                    if "p" in st and r in ("ref", "rawptr"):
                        res = self.resolve(st["p"])
                        if res:      # a reference stored somewhere we do not follow: read and possibly write
                            out.append(("rw", res[0], res[1], b, "escaping ref"))
                d = st["d"]
                if not is_bare(d):
                    res = self.resolve(d)
                    if res:
                        out.append(("w", res[0], res[1], b, "store"))
            t = body.term(b)
            if t["k"] in ("call", "tailcall"):
                callee = t.get("res") or t.get("f") or "fnptr"
                for a in t.get("args", []):
                    pl = op_place(a)
                    res = self.resolve(pl)
                    if res:
                        l = place_local(pl)
                        ty = body.local_ty_str(l) if is_bare(pl) else ""
                        kind = "rw" if ty.startswith("&mut") or ty.startswith("*mut") else "r"
                        if "m" in a and not ty.startswith(("&", "*")):
                            kind = "mv"      # moved by value into the callee
                        out.append((kind, res[0], res[1], b, "arg of " + callee))
                d = t.get("dest")
                if d is not None and not is_bare(d):
                    res = self.resolve(d)
                    if res:
                        out.append(("w", res[0], res[1], b, "result of " + callee))
        return out


def leaf_paths(prog, crate, tid, has_own_merge, depth=3, _path=()):
    """accumulator leaves of a type: list of (path, type string)"""
    row = prog.crate_types[crate][tid]
    if row["k"] == "adt":
        adt = prog.adts.get(row.get("def"))
        own = has_own_merge(row.get("def")) and _path != ()
        if adt is not None and not own and depth > 0 and adt["kind"] in ("struct", "enum") and adt.get("_crate") == crate:
            out = []
            for v in adt["variants"]:
                for f in v["fields"]:
                    step = (("v", v["name"]),) if adt["kind"] == "enum" else ()
                    out.extend(leaf_paths(prog, adt["_crate"], f["ty"], has_own_merge, depth - 1, _path + step + (("f", f["name"]),)))
                if adt["kind"] == "enum" and not v["fields"]:
                    pass
            return out
    return [(_path, row["s"])]


def fmt_path(path):
    s = ""
    for st in path:
        if st[0] == "v":
            s += "::" + st[1]
        elif st[0] == "f":
            s += "." + st[1]
        else:
            s += "[]"
    return s or "<whole>"


def covered(path, used):
    """some used path is a prefix of `path` or extends it"""
    for u in used:
        n = min(len(u), len(path))
        if u[:n] == path[:n]:
            return True
    return False


def flows(al):
    """forward taint: set of (other_path, self_path) pairs such that data read from other_path
    may reach a write of self_path (flow-insensitive, through locals, `&mut` borrows of locals and
    calls: a call's result and every `&mut` argument depend on all its arguments)."""
    body = al.body
    taint = {}
    refmap = {}
    for b in body.normal_blocks():
        for st in body.stmts(b):
            if st.get("r") in ("ref", "rawptr") and is_bare(st["d"]) and al.resolve(st["p"]) is None:
                refmap.setdefault(st["d"], set()).add(place_local(st["p"]))
    out = set()

    def srcs_of_place(pl):
        s = set()
        if pl is None:
            return s
        res = al.resolve(pl)
        if res and res[0] == "other":
            s.add(res[1])
        l = place_local(pl)
        s |= taint.get(l, set())
        for u in refmap.get(l, ()):
            s |= taint.get(u, set())
        return s

    def add(l, s):
        if not s:
            return False
        cur = taint.setdefault(l, set())
        n = len(cur)
        cur |= s
        return len(cur) != n
    changed = True
    rounds = 0
    while changed and rounds < 30:
        changed = False
        rounds += 1
        for b in body.normal_blocks():
            for st in body.stmts(b):
                s = set()
                for o in st.get("o", []):
                    s |= srcs_of_place(op_place(o))
                if "p" in st:
                    s |= srcs_of_place(st["p"])
                if not s:
                    continue
                d = st["d"]
                res = al.resolve(d) if not is_bare(d) or place_local(d) in al.alias else None
                if res and res[0] == "self" and not is_bare(d):
                    for p in s:
                        if (p, res[1]) not in out:
                            out.add((p, res[1]))
                            changed = True
                else:
                    changed |= add(place_local(d), s)
            t = body.term(b)
            if t["k"] in ("call", "tailcall"):
                s = set()
                for a in t.get("args", []):
                    s |= srcs_of_place(op_place(a))
                if not s:
                    continue
                d = t.get("dest")
                if d is not None:
                    res = al.resolve(d) if not is_bare(d) else None
                    if res and res[0] == "self":
                        for p in s:
                            if (p, res[1]) not in out:
                                out.add((p, res[1]))
                                changed = True
                    else:
                        changed |= add(place_local(d), s)
                for a in t.get("args", []):
                    pl = op_place(a)
                    if pl is None:
                        continue
                    l = place_local(pl)
                    ty = body.local_ty_str(l) if is_bare(pl) else ""
                    if not (ty.startswith("&mut") or ty.startswith("*mut")):
                        continue
                    res = al.resolve(pl)
                    if res and res[0] == "self":
                        for p in s:
                            if (p, res[1]) not in out:
                                out.add((p, res[1]))
                                changed = True
                    for u in refmap.get(l, ()):
                        changed |= add(u, s)
    return out


def compat(a, b):
    n = min(len(a), len(b))
    return a[:n] == b[:n]
