"""Fact base: build (via the mirfacts rustc driver) + cache + load.

Facts are always derived from /repo's *current working tree*: the cache key is a content hash of
every *.rs / Cargo.toml / Cargo.lock under /repo (target/ excluded).
"""
import fcntl
import glob
import hashlib
import json
import os
import pickle
import shutil
import subprocess
import sys
import tempfile
import time

VERIF = os.path.dirname(os.path.dirname(os.path.abspath(__file__)))
REPO = os.environ.get("VERIF_REPO", "/repo")
CACHE = os.path.join(VERIF, ".cache")
DRIVER_DIR = os.path.join(VERIF, "mirfacts")
DRIVER = os.path.join(DRIVER_DIR, "target", "release", "mirfacts")

CRATES = [
    "tantivy", "ownedbytes", "tantivy_common", "tantivy_bitpacker", "tantivy_stacker",
    "tantivy_sstable", "tantivy_columnar", "tantivy_query_grammar", "tantivy_tokenizer_api",
]

# configuration name -> (cargo args, extra rustflags)
CONFIGS = {
    "default": (["--workspace", "--lib"], ""),
    # release-like: debug assertions off (C15-R1), overflow checks off
    "nodebug": (["--workspace", "--lib"], "-C debug-assertions=off"),
    "quickwit": (["-p", "tantivy", "--lib", "--features", "quickwit"], ""),
    "zstd": (["-p", "tantivy", "--lib", "--features", "zstd-compression"], ""),
    "failpoints": (["-p", "tantivy", "--lib", "--features", "failpoints"], ""),
}


class FactError(Exception):
    pass


def repo_hash(repo=REPO):
    h = hashlib.sha256()
    files = []
    for root, dirs, fs in os.walk(repo):
        dirs[:] = [d for d in dirs if d not in ("target", ".git", "node_modules")]
        for f in fs:
            if f.endswith(".rs") or f in ("Cargo.toml", "Cargo.lock"):
                files.append(os.path.join(root, f))
    files.sort()
    for p in files:
        h.update(os.path.relpath(p, repo).encode())
        h.update(b"\0")
        with open(p, "rb") as fh:
            h.update(fh.read())
        h.update(b"\0")
    # the driver itself is part of the key
    with open(os.path.join(DRIVER_DIR, "src", "main.rs"), "rb") as fh:
        h.update(fh.read())
    return h.hexdigest()[:20], len(files)


def sysroot():
    return subprocess.check_output(["rustc", "+nightly", "--print", "sysroot"], text=True).strip()


def ensure_driver():
    src = os.path.join(DRIVER_DIR, "src", "main.rs")
    if os.path.exists(DRIVER) and os.path.getmtime(DRIVER) >= os.path.getmtime(src):
        return
    env = dict(os.environ, CARGO_NET_OFFLINE="true")
    r = subprocess.run(["cargo", "build", "--release", "--offline"], cwd=DRIVER_DIR, env=env,
                       stdout=subprocess.PIPE, stderr=subprocess.STDOUT, text=True)
    if r.returncode != 0 or not os.path.exists(DRIVER):
        raise FactError("driver build failed:\n" + r.stdout[-4000:])


def build_facts(config="default", repo=REPO, quiet=False):
    """Return the directory holding one JSON fact file per crate for the current tree."""
    ensure_driver()
    os.makedirs(CACHE, exist_ok=True)
    hsh, nfiles = repo_hash(repo)
    d = os.path.join(CACHE, "facts-%s-%s" % (hsh, config))
    lockf = open(os.path.join(CACHE, "lock-%s-%s" % (hsh, config)), "w")
    fcntl.flock(lockf, fcntl.LOCK_EX)
    try:
        if os.path.exists(os.path.join(d, "OK")):
            try:
                os.utime(d)
            except OSError:
                pass
            return d, hsh, nfiles
        # drop stale fact dirs of this config (keep disk small)
        olds = sorted((x for x in glob.glob(os.path.join(CACHE, "facts-*-%s" % config)) if os.path.isdir(x)), key=os.path.getmtime)
        now = time.time()
        for junk in glob.glob(os.path.join(CACHE, "facts-*.tmp")) + glob.glob(os.path.join(CACHE, "lock-*")):
            try:
                if now - os.path.getmtime(junk) > 7200 and junk != lockf.name:
                    if os.path.isdir(junk):
                        shutil.rmtree(junk, ignore_errors=True)
                    else:
                        os.remove(junk)
            except OSError:
                pass
        for old in olds[:-5] if len(olds) > 5 else []:
            # never remove a directory another process may still be loading
            if now - os.path.getmtime(old) > 600:
                shutil.rmtree(old, ignore_errors=True)
        tmpd = d + ".tmp"
        shutil.rmtree(tmpd, ignore_errors=True)
        os.makedirs(tmpd)
        cargo_args, extra_flags = CONFIGS[config]
        tgt = tempfile.mkdtemp(prefix="tvfacts-tgt-")
        try:
            env = dict(os.environ)
            env.update({
                "LD_LIBRARY_PATH": sysroot() + "/lib",
                "RUSTFLAGS": ("-Zmir-opt-level=0 -Awarnings " + extra_flags).strip(),
                "RUSTC_WORKSPACE_WRAPPER": DRIVER,
                "MIRFACTS_OUT": tmpd,
                "CARGO_TARGET_DIR": tgt,
                "CARGO_NET_OFFLINE": "true",
            })
            env.pop("RUSTC_WRAPPER", None)
            t0 = time.time()
            r = subprocess.run(["cargo", "+nightly", "check", "--offline"] + cargo_args, cwd=repo,
                               env=env, stdout=subprocess.PIPE, stderr=subprocess.STDOUT, text=True)
            if r.returncode != 0:
                lines = r.stdout.splitlines()
                idx = next((i for i, l in enumerate(lines) if l.startswith("error")), max(0, len(lines) - 30))
                raise FactError("cargo check under the fact driver failed (config %s):\n%s"
                                % (config, "\n".join(lines[idx:idx + 40])))
            if not quiet:
                print("[facts] built %s in %.1fs" % (config, time.time() - t0), file=sys.stderr)
        finally:
            shutil.rmtree(tgt, ignore_errors=True)
        # one file per crate; rename to <crate>.json; assert presence
        for f in glob.glob(os.path.join(tmpd, "*.json")):
            base = os.path.basename(f).rsplit("-", 1)[0]
            dst = os.path.join(tmpd, base + ".json")
            if os.path.exists(dst):
                # same crate compiled twice (should not happen for lib-only checks): keep the larger
                if os.path.getsize(dst) >= os.path.getsize(f):
                    os.remove(f)
                    continue
            os.replace(f, dst)
        present = {os.path.basename(f)[:-5] for f in glob.glob(os.path.join(tmpd, "*.json"))}
        need = set(CRATES) if "--workspace" in cargo_args else {"tantivy"}
        missing = need - present
        if missing:
            raise FactError("fact files missing for crates: %s" % sorted(missing))
        for c in need:
            if os.path.getsize(os.path.join(tmpd, c + ".json")) < 1000:
                raise FactError("fact file for %s is empty" % c)
        open(os.path.join(tmpd, "OK"), "w").write(hsh)
        shutil.rmtree(d, ignore_errors=True)
        os.replace(tmpd, d)
        return d, hsh, nfiles
    finally:
        fcntl.flock(lockf, fcntl.LOCK_UN)
        lockf.close()


def load_raw(config="default", repo=REPO):
    for attempt in (0, 1):
        try:
            return _load_raw(config, repo)
        except (FileNotFoundError, KeyError, json.JSONDecodeError, EOFError):
            # the cache directory vanished or was incomplete under our feet: rebuild once
            if attempt:
                raise
            time.sleep(1.0)


def _load_raw(config="default", repo=REPO):
    d, hsh, nfiles = build_facts(config, repo)
    pk = os.path.join(d, "all.pickle")
    if os.path.exists(pk):
        try:
            with open(pk, "rb") as fh:
                return pickle.load(fh), hsh, nfiles
        except Exception:
            pass
    crates = {}
    for f in sorted(glob.glob(os.path.join(d, "*.json"))):
        with open(f) as fh:
            c = json.load(fh)
        crates[c["crate"]] = c
    if "tantivy" not in crates:
        raise FileNotFoundError("fact directory %s lost its files" % d)
    try:
        tmp = pk + ".%d" % os.getpid()
        with open(tmp, "wb") as fh:
            pickle.dump(crates, fh, protocol=pickle.HIGHEST_PROTOCOL)
        os.replace(tmp, pk)
    except Exception:
        pass
    return crates, hsh, nfiles
