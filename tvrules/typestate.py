"""seek_danger typestate (C13-R1).

Contract (src/docset.rs): after `x.seek_danger(t)` answered `SeekLowerBound`, `x` may be in an
invalid state and "should then only receive calls to seek_danger(..) until it returns Found".

Per function, a forward may-analysis over the CFG tracks for every receiver path P (a field path of
a parameter, elements of collections collapsed to `P[]`) one of
    VALID < PENDING_V < PENDING_I < INVALID
* a probe `P.seek_danger(..)` makes P pending (remembering whether it was valid before);
* a branch on the probe's result (discriminant switch, `==`/`!=` with `Found`) resolves it: the
  miss edge gives INVALID, the Found edge gives VALID for a singular P and the prior state for an
  element of a collection (another element may have missed);
* a *restore pass* — the collection handed, together with a closure or function that calls nothing
  but seek_danger on the element and returns from a Found arm, to a visiting call — gives VALID;
* a *valid-only use* (doc, advance, seek, score, fill_buffer, ..., directly, through a closure or
  function item given together with P to a call, through a callee that receives P, or through a
  method of `self` whose summary uses P) while P is not VALID is a violation.
"""
import re
from .model import op_place, op_local, place_local, place_proj, is_bare, trace_back
from .mergecov import Aliases, fmt_path

DS = "tantivy::docset::DocSet::"
VALID_ONLY = {DS + m for m in ("doc", "advance", "seek", "fill_buffer", "fill_bitset_block", "count", "count_including_deleted")} | {
    "tantivy::query::scorer::Scorer::score", "tantivy::postings::postings::Postings::term_freq",
    "tantivy::postings::postings::Postings::positions", "tantivy::postings::postings::Postings::append_positions_with_offset",
    "tantivy::postings::postings::Postings::positions_with_offset"}
PROBE = DS + "seek_danger"
SDR = "tantivy::docset::SeekDangerResult"

# calls whose result aliases (part of) their first argument; True = yields an element
TRANSPARENT = [
    (re.compile(r"::(deref|deref_mut|as_mut|as_ref|borrow|borrow_mut|as_mut_slice|as_slice)$"), False),
    (re.compile(r"::(iter|iter_mut|into_iter|by_ref|enumerate|skip|take|rev)$"), False),
    (re.compile(r"Iterator::next$"), True),
    (re.compile(r"::(index|index_mut|get_mut|get|first_mut|last_mut|get_unchecked_mut)$"), True),
    (re.compile(r"Option::<.*>::(unwrap|expect|as_mut|as_ref|as_deref_mut)$"), False),
]
VALID, PEND_V, PEND_I, INVALID = 0, 1, 2, 3
SNAME = {0: "valid", 1: "pending", 2: "pending", 3: "maybe-invalid"}


def _norm(path):
    out = []
    for st in path:
        if st == ("v", "Some"):
            continue
        if st == ("f", "0") and out and out[-1] == ("i",):
            continue
        if st == ("i",) and out and out[-1] == ("i",):
            continue
        out.append(st)
    return tuple(out)


class PathAliases(Aliases):
    """Aliases + transparent calls (iterators, deref, index): which parameter path a local denotes"""
    def __init__(self, body, roots):
        Aliases.__init__(self, body, roots)
        defs = body.defs()
        changed = True
        rounds = 0
        while changed and rounds < 12:
            changed = False
            rounds += 1
            for b, t in body.calls():
                d = t.get("dest")
                if d is None or not is_bare(d) or len(defs.get(d, [])) != 1 or not t.get("args"):
                    continue
                f = t.get("res") or t.get("f") or ""
                f2 = t.get("f") or ""
                for rx, elem in TRANSPARENT:
                    if rx.search(f) or rx.search(f2):
                        res = self.resolve(op_place(t["args"][0]))
                        if res is not None:
                            new = (res[0], _norm(res[1] + ((("i",),) if elem else ())))
                            if self.alias.get(d) != new:
                                self.alias[d] = new
                                changed = True
                        break
            if changed:
                # re-run the statement closure of the base class with the new seeds
                self._stmt_closure()

    def _stmt_closure(self):
        body = self.body
        defs = body.defs()
        changed = True
        rounds = 0
        while changed and rounds < 20:
            changed = False
            rounds += 1
            for b in body.normal_blocks():
                for i, st in enumerate(body.stmts(b)):
                    d = st["d"]
                    if not is_bare(d) or len(defs.get(d, [])) != 1:
                        continue
                    r = st.get("r")
                    if r in ("use", "cast"):
                        pl = op_place(st["o"][0]) if st.get("o") else None
                        res = self.resolve(pl) if pl is not None else None
                    elif r in ("ref", "rawptr"):
                        res = self.resolve(st["p"])
                    else:
                        continue
                    if res is not None and self.alias.get(d) != res and d not in (1,):
                        self.alias[d] = res
                        self.alias_stmts.add((b, i))
                        changed = True

    def rpath(self, pl):
        res = self.resolve(pl)
        if res is None:
            return None
        return (res[0], _norm(res[1]))


def field_of(path):
    """collapse a path to its leading field steps up to (and including) the first element marker"""
    out = []
    for st in path:
        out.append(st)
        if st == ("i",):
            break
    return tuple(out)


def is_collection(path):
    return ("i",) in path


def _fn_operands(t):
    """function items / closures passed as arguments of a call: list of body ids"""
    out = []
    for a in t.get("args", []):
        if "fn" in a:
            out.append(("fn", a["fn"]))
    return out


class Summaries:
    """per function: which parameter paths it uses valid-only (transitively), and whether it is a
    restorer of a parameter (only seek_danger on it, returns from a Found arm)"""
    def __init__(self, prog):
        self.prog = prog
        self._uses = {}
        self._busy = set()
        self._pa = {}

    def pa(self, fid):
        if fid not in self._pa:
            b = self.prog.bodies[fid]
            self._pa[fid] = PathAliases(b, {i: "p%d" % i for i in range(1, b.argc + 1)})
        return self._pa[fid]

    def closures_in(self, body, t):
        """closure bodies whose aggregate is passed to call t (directly or by reference)"""
        out = []
        for a in t.get("args", []):
            pl = op_place(a)
            if pl is None:
                if "fn" in a and a["fn"] in VALID_ONLY:
                    out.append(("fnitem", a["fn"]))
                continue
            tr = trace_back(body, place_local(pl))
            for s in tr:
                if s[0] == "agg" and isinstance(s[1], str) and "{closure#" in s[1]:
                    out.append(("closure", s[1]))
            ty = body.local_ty(place_local(pl))
            if ty.get("k") == "fndef" and ty.get("def") in VALID_ONLY:
                out.append(("fnitem", ty.get("def")))
        return out

    def uses(self, fid, depth=0):
        """set of (param root, field path) that fid uses valid-only; ('elem',) for a closure's
        non-environment parameters is reported as root 'p2'.."""
        if fid in self._uses:
            return self._uses[fid]
        if fid in self._busy or depth > 5 or fid not in self.prog.bodies:
            return set()
        self._busy.add(fid)
        body = self.prog.bodies[fid]
        pa = self.pa(fid)
        out = set()
        for bi, t in body.calls():
            f = t.get("f") or ""
            res_name = t.get("res") or f
            args = t.get("args", [])
            if f in VALID_ONLY and args:
                r = pa.rpath(op_place(args[0]))
                if r and not (r[1] == () and res_name in self.prog.bodies and res_name != fid):
                    out.add((r[0], field_of(r[1])))
                    continue
                if not r:
                    continue
            if f == PROBE:
                continue
            # argument paths handed to another workspace function
            callee = res_name if res_name in self.prog.bodies else None
            arg_paths = []
            for k, a in enumerate(args):
                r = pa.rpath(op_place(a))
                if r:
                    arg_paths.append((k + 1, r))
            if callee and arg_paths:
                cu = self.uses(callee, depth + 1)
                for k, r in arg_paths:
                    for (root, fpath) in cu:
                        if root == "p%d" % k:
                            out.add((r[0], field_of(_norm(r[1] + fpath))))
            # closures / function items given together with a path: they may visit its elements
            if arg_paths:
                for kind, cid in self.closures_in(body, t):
                    if kind == "fnitem":
                        for k, r in arg_paths:
                            out.add((r[0], field_of(_norm(r[1] + (("i",),)))))
                    elif cid in self.prog.bodies:
                        cu = self.uses(cid, depth + 1)
                        if any(root != "p1" for root, _ in cu):
                            for k, r in arg_paths:
                                out.add((r[0], field_of(_norm(r[1] + (("i",),)))))
            # closures capturing a path in their environment
            for kind, cid in self.closures_in(body, t):
                if kind != "closure" or cid not in self.prog.bodies:
                    continue
                cu = self.uses(cid, depth + 1)
                envuses = [fp for root, fp in cu if root == "p1"]
                if envuses:
                    # map environment fields back to the captured places
                    for a in args:
                        pl = op_place(a)
                        if pl is None:
                            continue
                        for s in trace_back(body, place_local(pl)):
                            if s[0] == "agg" and s[1] == cid:
                                st = body.stmts(s[2])[s[3]]
                                for idx, o in enumerate(st.get("o", [])):
                                    r = pa.rpath(op_place(o))
                                    if r and any(fp and fp[0][0] == "f" for fp in envuses):
                                        out.add((r[0], field_of(r[1])))
        self._busy.discard(fid)
        self._uses[fid] = out
        return out

    def is_restorer(self, fid, param_root):
        """fid calls seek_danger on param_root (elements), never uses it valid-only, and returns from a Found arm"""
        if fid not in self.prog.bodies:
            return False
        body = self.prog.bodies[fid]
        pa = self.pa(fid)
        if any(root == param_root for root, _ in self.uses(fid)):
            return False
        probes = []
        delegated = []
        for bi, t in body.calls():
            f = t.get("f") or ""
            args = t.get("args", [])
            if f == PROBE and args:
                r = pa.rpath(op_place(args[0]))
                # the probe must be repeated (inside a loop): one seek_danger alone restores nothing
                in_loop = bi in body.reachable(tuple(body.succ(bi)))
                if r and r[0] == param_root and in_loop:
                    tests = result_tests(self.prog, body, [bi])
                    # ... and the function leaves the loop through the Found arm of that probe
                    if any(tt[0] == bi and tt[1] for tt in tests.values()):
                        probes.append(bi)
            elif (t.get("res") or f) in self.prog.bodies and args:
                callee = t.get("res") or f
                for k, a in enumerate(args):
                    r = pa.rpath(op_place(a))
                    if r and r[0] == param_root and self.is_restorer(callee, "p%d" % (k + 1)):
                        delegated.append(bi)
        if delegated:
            # a function that hands the value to a restorer restores it only if it does so on every path
            # (`ord > n || restore(x)` restores some elements, not all)
            from .model import Ev, must_pass
            if not must_pass(body, [Ev(bi, "term") for bi in delegated], exits="all"):
                return True
        return bool(probes)


def result_tests(prog, body, probe_blocks):
    """for each switch that tests the result of a probe: {switch block: (probe block, found_targets, miss_targets)}"""
    out = {}
    dest_of = {}
    for pb in probe_blocks:
        d = body.term(pb).get("dest")
        if d is not None and is_bare(d):
            dest_of[d] = pb

    def root_local(l):
        tr = trace_back(body, l)
        cur = l
        # follow copies / refs back to a probe destination
        seen = 0
        while seen < 12:
            seen += 1
            if cur in dest_of:
                return cur
            ds = body.defs().get(cur, [])
            if len(ds) != 1 or ds[0][0] != "stmt":
                return None
            st = ds[0][3]
            if st.get("r") in ("use", "cast"):
                pl = op_place(st["o"][0])
                if pl is None:
                    return None
                cur = place_local(pl)
            elif st.get("r") in ("ref", "rawptr", "discr"):
                cur = place_local(st["p"])
            else:
                return None
        return None

    def is_found_const(l):
        tr = trace_back(body, l)
        if not tr:
            return None
        last = tr[-1]
        if last[0] == "agg" and isinstance(last[1], str) and last[1].startswith(SDR):
            return last[1].endswith("::Found")
        if last[0] == "uneval":
            ds = body.defs()
            # find the promoted index from the defining statement
            cur = l
            for _ in range(6):
                d = ds.get(cur, [])
                if len(d) != 1 or d[0][0] != "stmt":
                    break
                st = d[0][3]
                o = (st.get("o") or [None])[0]
                if o is not None and "promoted" in o:
                    pb = prog.bodies.get("%s::{promoted#%d}" % (o["uneval"], o["promoted"]))
                    if pb is not None:
                        for bi in pb.normal_blocks():
                            for s2 in pb.stmts(bi):
                                if s2.get("r") == "agg" and (s2.get("adt") or "") == SDR:
                                    return s2.get("variant") == "Found"
                    return None
                pl = op_place(o) if o is not None else st.get("p")
                if pl is None:
                    break
                cur = place_local(pl)
        return None
    for sb in body.normal_blocks():
        t = body.term(sb)
        if t["k"] != "switch":
            continue
        pl = op_place(t["on"])
        if pl is None:
            continue
        l = place_local(pl)
        ds = body.defs().get(l, [])
        if len(ds) != 1:
            continue
        d = ds[0]
        arms = [(v, tg) for v, tg in t["vals"]]
        if d[0] == "stmt" and d[3].get("r") == "discr":
            r = root_local(place_local(d[3]["p"]))
            if r is None:
                continue
            ty = body.local_ty_str(r)
            if not ty.startswith(SDR):
                continue
            found = [tg for v, tg in arms if v == "0"]
            miss = [tg for v, tg in arms if v != "0"]
            if not any(v == "0" for v, tg in arms):
                found = [t["else"]]
            else:
                miss.append(t["else"])
            out[sb] = (dest_of[r], found, miss)
        elif d[0] == "call":
            f = d[2].get("f") or ""
            if not (f.endswith("PartialEq::eq") or f.endswith("PartialEq::ne")) or len(d[2].get("args", [])) != 2:
                continue
            a0, a1 = [place_local(op_place(a)) if op_place(a) is not None else None for a in d[2]["args"]]
            if a0 is None or a1 is None:
                continue
            r0, r1 = root_local(a0), root_local(a1)
            if r0 is not None and r1 is None:
                r, other = r0, a1
            elif r1 is not None and r0 is None:
                r, other = r1, a0
            else:
                continue
            isf = is_found_const(other)
            if isf is None:
                continue
            # bool switch: value '0' = false
            false_t = [tg for v, tg in arms if v == "0"]
            true_t = [t["else"]] if false_t else []
            eq = f.endswith("::eq")
            equal_targets, differ_targets = (true_t, false_t) if eq else (false_t, true_t)
            if isf:
                out[sb] = (dest_of[r], equal_targets, differ_targets)
            else:
                out[sb] = (dest_of[r], differ_targets, equal_targets)
    return out


def analyse(prog, summ, fid, entry_state=None, want_exit=False):
    """returns (probes, violations): probes = list of (block, path); violations = list of dicts.
    `entry_state` (path -> state) replaces VALID at the entry; with `want_exit` a third value is returned:
    the join of the states at the return blocks."""
    body = prog.bodies[fid]
    pa = summ.pa(fid)
    probes = {}
    for bi, t in body.calls():
        if (t.get("f") or "") == PROBE and t.get("args"):
            r = pa.rpath(op_place(t["args"][0]))
            if r and r[1]:
                probes[bi] = (r[0], field_of(r[1]))
    if not probes:
        return ([], [], {}) if want_exit else ([], [])
    tests = result_tests(prog, body, list(probes))
    paths = sorted(set(probes.values()))
    # events per block (in order: all happen at the terminator; statements carry none)
    uses_at = {}      # block -> set of paths used valid-only by the terminator
    restore_at = {}   # block -> set of paths restored
    for bi, t in body.calls():
        f = t.get("f") or ""
        args = t.get("args", [])
        if f == PROBE:
            continue
        used = set()
        restored = set()
        r0 = pa.rpath(op_place(args[0])) if args else None
        if f in VALID_ONLY and args and not (r0 and r0[1] == () and (t.get("res") or f) in prog.bodies and (t.get("res") or f) != fid):
            if r0:
                used.add((r0[0], field_of(r0[1])))
        else:
            callee = (t.get("res") or f)
            arg_paths = [(k + 1, pa.rpath(op_place(a))) for k, a in enumerate(args)]
            arg_paths = [(k, r) for k, r in arg_paths if r]
            if callee in prog.bodies:
                cu = summ.uses(callee)
                for k, r in arg_paths:
                    for root, fpath in cu:
                        if root == "p%d" % k:
                            used.add((r[0], field_of(_norm(r[1] + fpath))))
                    if summ.is_restorer(callee, "p%d" % k):
                        restored.add((r[0], field_of(r[1])))
            cls = summ.closures_in(body, t)
            for kind, cid in cls:
                if kind == "fnitem":
                    for k, r in arg_paths:
                        used.add((r[0], field_of(_norm(r[1] + (("i",),)))))
                elif cid in prog.bodies:
                    cu = summ.uses(cid)
                    if any(root != "p1" for root, _ in cu):
                        for k, r in arg_paths:
                            used.add((r[0], field_of(_norm(r[1] + (("i",),)))))
                    elif arg_paths and any(summ.is_restorer(cid, "p%d" % j) for j in range(2, prog.bodies[cid].argc + 1)):
                        for k, r in arg_paths:
                            restored.add((r[0], field_of(_norm(r[1] + (("i",),)))))
        if used:
            uses_at[bi] = used
        if restored:
            restore_at[bi] = restored - used
    # complete passes: a `for` loop over the collection in which every miss leaves the loop; at the
    # exhaustion edge every element was probed and answered Found in this pass
    from .rules import natural_loop
    complete_edges = {}
    for q in paths:
        if not is_collection(q[1]):
            continue
        for hb, ht in body.calls():
            if not (ht.get("f") or "").endswith("Iterator::next"):
                continue
            d = ht.get("dest")
            if d is None or not is_bare(d):
                continue
            r = pa.alias.get(d)
            if r is None or (r[0], field_of(r[1])) != q:
                continue
            h = hb
            lp = natural_loop(body, h)
            k = 0
            while not lp and k < 4 and len(body.pred(h)) == 1:
                h = body.pred(h)[0]
                lp = natural_loop(body, h)
                k += 1
            if not lp:
                continue
            sw = ht["to"]
            st_ = body.term(sw)
            none_t = dict((v, tg) for v, tg in st_["vals"]).get("0") if st_["k"] == "switch" else None
            if none_t is None or none_t in lp:
                continue
            inside = [pb for pb in probes if probes[pb] == q and pb in lp]
            if not inside:
                continue
            ok = True
            for pb in inside:
                tsts = [(sb, tt) for sb, tt in tests.items() if tt[0] == pb]
                if not tsts:
                    ok = False
                for sb, (pb_, found_t, miss_t) in tsts:
                    if any(m in lp for m in miss_t):
                        ok = False
            # no other probe of q outside of tests, and no path keeps a pending result across the back edge
            if ok:
                complete_edges[(sw, none_t)] = q
    # restore loops: the body of a restorer (`seek_with_seek_danger`: probe the SAME docset again and again, leave through the
    # Found arm, or because the lower bound reached the end) written in place.  Same approximation as Summaries.is_restorer:
    # the probe sits in a loop, its receiver does not change inside that loop, a Found arm leaves the loop and no miss arm
    # does — then every edge out of the loop leaves the docset restored (found, or exhausted).
    restore_edges = {}
    for pb, q in probes.items():
        lp = natural_loop(body, pb)
        h, k = pb, 0
        while not lp and k < 6 and len(body.pred(h)) == 1:
            h = body.pred(h)[0]
            lp = natural_loop(body, h)
            k += 1
        if not lp or pb not in lp:
            continue
        tsts = [tt for sb, tt in tests.items() if tt[0] == pb]
        live = lambda x: body.term(x)["k"] != "unreachable"      # the `otherwise` arm of an exhaustive match
        if not tsts or not any(f_ not in lp for tt in tsts for f_ in tt[1]) or any(m not in lp and live(m) for tt in tsts for m in tt[2]):
            continue
        # loop-invariant receiver: following the receiver back through reborrows and moves, no definition inside the loop
        # comes from a call (Iterator::next, IndexMut::index_mut with a changing index ...)
        cur = op_local(body.term(pb)["args"][0])
        invariant, hops = True, 0
        defs_ = body.defs()
        while cur is not None and hops < 10:
            hops += 1
            ds = defs_.get(cur, [])
            inside = [d_ for d_ in ds if d_[1] in lp]
            if not inside:
                break
            if len(ds) != 1 or ds[0][0] != "stmt" or ds[0][3].get("r") not in ("ref", "use", "rawptr"):
                invariant = False
                break
            st_ = ds[0][3]
            pl_ = st_.get("p") if st_.get("r") in ("ref", "rawptr") else op_place(st_["o"][0])
            if pl_ is None or any(e.startswith("i:") for e in place_proj(pl_)):
                invariant = False
                break
            cur = place_local(pl_)
        if not invariant:
            continue
        for u in lp:
            for v in body.succ(u):
                if v not in lp:
                    restore_edges[(u, v)] = q
    # forward dataflow: state[block-entry][path]
    nb = body.normal_blocks()
    entry = {b: None for b in nb}
    entry[0] = {p: (entry_state or {}).get(p, VALID) for p in paths}
    work = [0]
    viol = {}
    while work:
        b = work.pop()
        st = dict(entry[b])
        t = body.term(b)
        # uses
        for p in uses_at.get(b, ()):
            for q in paths:
                if _overlaps(p, q) and st[q] != VALID:
                    viol.setdefault((b, q), (p, st[q]))
        for p in restore_at.get(b, ()):
            for q in paths:
                if _overlaps(p, q):
                    st[q] = VALID
        if b in probes:
            q = probes[b]
            st[q] = PEND_V if st[q] == VALID else PEND_I
        succs = body.succ(b)
        for s in succs:
            out = dict(st)
            if b in tests:
                pb, found_t, miss_t = tests[b]
                q = probes[pb]
                if out[q] in (PEND_V, PEND_I):
                    if s in miss_t and s not in found_t:
                        out[q] = INVALID
                    elif s in found_t and s not in miss_t:
                        if is_collection(q[1]):
                            out[q] = VALID if out[q] == PEND_V else INVALID
                        else:
                            out[q] = VALID
            if (b, s) in complete_edges:
                out[complete_edges[(b, s)]] = VALID
            if (b, s) in restore_edges:
                out[restore_edges[(b, s)]] = VALID
            cur = entry.get(s)
            if cur is None:
                entry[s] = out
                work.append(s)
            else:
                ch = False
                for k in paths:
                    if out[k] > cur[k]:
                        cur[k] = out[k]
                        ch = True
                if ch:
                    work.append(s)
    violations = []
    for (b, q), (p, s) in sorted(viol.items()):
        t = body.term(b)
        violations.append({"block": b, "path": q, "used_as": p, "state": SNAME[s], "callee": t.get("res") or t.get("f") or "?"})
    if want_exit:
        ex = {}
        for rb in body.return_blocks():
            if entry.get(rb) is None:
                continue
            for q in paths:
                ex[q] = max(ex.get(q, VALID), entry[rb][q])
        return [(b, probes[b]) for b in sorted(probes)], violations, ex
    return [(b, probes[b]) for b in sorted(probes)], violations


def _overlaps(p, q):
    if p[0] != q[0]:
        return False
    a, b = p[1], q[1]
    n = min(len(a), len(b))
    return a[:n] == b[:n]


def show(path):
    root, p = path
    return ("self" if root == "p1" else root) + fmt_path(p)
