"""Program model over the mirfacts fact base + CFG / dataflow primitives used by the rules."""
import os
import re
from collections import defaultdict, deque

from . import facts as _facts


# --------------------------------------------------------------------------------------------
# places / operands helpers (raw JSON shapes, see mirfacts/src/main.rs)

def place_local(p):
    """local number of a place (int or {"l":..,"p":[..]})"""
    return p if isinstance(p, int) else p["l"]


def place_proj(p):
    return [] if isinstance(p, int) else p["p"]


def is_bare(p):
    return isinstance(p, int)


def op_place(o):
    """place of a copy/move operand, else None"""
    if "c" in o:
        return o["c"]
    if "m" in o:
        return o["m"]
    return None


def op_local(o):
    p = op_place(o)
    return None if p is None else place_local(p)


def op_is_const(o):
    return "k" in o


def proj_fields(p):
    """list of (idx, name, owner) for field projections in order"""
    out = []
    for e in place_proj(p):
        if e.startswith("f:"):
            _, idx, name, owner = e.split(":", 3)
            out.append((int(idx), name, owner))
    return out


def place_str(p):
    if isinstance(p, int):
        return "_%d" % p
    s = "_%d" % p["l"]
    for e in p["p"]:
        if e == "*":
            s = "(*%s)" % s
        elif e.startswith("f:"):
            _, idx, name, owner = e.split(":", 3)
            s += "." + (name or idx)
        elif e.startswith("d:"):
            s += " as " + e.split(":", 2)[2]
        else:
            s += "[" + e + "]"
    return s


class Body:
    __slots__ = ("raw", "crate", "id", "kind", "span", "blocks", "locals", "argc", "types",
                 "_succ", "_pred", "_defs", "_uses", "prog", "_wrapped")

    def __init__(self, raw, crate, types, prog):
        self.raw = raw
        self.crate = crate
        self.id = raw["id"]
        self.kind = raw["kind"]
        self.span = raw["span"]
        self.blocks = raw["blocks"]
        self.locals = raw["locals"]
        self.argc = raw["argc"]
        self.types = types
        self._succ = None
        self._pred = None
        self._defs = None
        self._uses = None
        self._wrapped = None
        self.prog = prog

    # ---- types
    def ty(self, tid):
        return self.types[tid]

    def local_ty(self, l):
        return self.types[self.locals[l]]

    def local_ty_str(self, l):
        return self.types[self.locals[l]]["s"]

    def ret_ty(self):
        return self.local_ty(0)

    def returns_result(self):
        t = self.ret_ty()
        return t["k"] == "adt" and t.get("def") == "core::result::Result"

    def place_ty_str(self, p):
        return self.local_ty_str(place_local(p))

    def var_names(self):
        """local -> source variable name (bare places only)"""
        out = {}
        for k, v in self.raw.get("names", {}).items():
            if isinstance(v, int):
                out.setdefault(v, k.split("@")[0])
        return out

    def local_by_name(self, name):
        return [l for l, n in self.var_names().items() if n == name]

    # ---- cfg (normal edges only; cleanup blocks are never entered through normal edges)
    def succ(self, b):
        if self._succ is None:
            self._build_cfg()
        return self._succ[b]

    def pred(self, b):
        if self._pred is None:
            self._build_cfg()
        return self._pred[b]

    def _build_cfg(self):
        n = len(self.blocks)
        succ = [[] for _ in range(n)]
        pred = [[] for _ in range(n)]
        for i, bl in enumerate(self.blocks):
            t = bl["t"]
            k = t["k"]
            outs = []
            if k == "switch":
                outs = [x[1] for x in t["vals"]] + [t["else"]]
            elif "to" in t:
                outs = [t["to"]]
            seen = set()
            for o in outs:
                if o not in seen:
                    seen.add(o)
                    succ[i].append(o)
                    pred[o].append(i)
        self._succ = succ
        self._pred = pred

    def is_cleanup(self, b):
        return bool(self.blocks[b].get("cl"))

    def term(self, b):
        return self.blocks[b]["t"]

    def stmts(self, b):
        return self.blocks[b]["st"]

    def normal_blocks(self):
        return [i for i in range(len(self.blocks)) if not self.is_cleanup(i)]

    def reachable(self, starts=(0,), blocked=frozenset(), blocked_edges=frozenset()):
        """blocks reachable from `starts` along normal edges; blocks in `blocked` are never
        entered; edges (a,b) in blocked_edges are not taken."""
        seen = set()
        dq = deque()
        for s in starts:
            if s not in blocked and s not in seen:
                seen.add(s)
                dq.append(s)
        while dq:
            b = dq.popleft()
            for s in self.succ(b):
                if s in seen or s in blocked or (b, s) in blocked_edges:
                    continue
                seen.add(s)
                dq.append(s)
        return seen

    def calls(self):
        """yield (block index, terminator) for every call terminator on normal blocks"""
        for i, bl in enumerate(self.blocks):
            if bl.get("cl"):
                continue
            t = bl["t"]
            if t["k"] in ("call", "tailcall"):
                yield i, t

    def all_calls(self):
        for i, bl in enumerate(self.blocks):
            t = bl["t"]
            if t["k"] in ("call", "tailcall"):
                yield i, t

    # ---- def/use over locals
    def defs(self):
        """local -> list of ('stmt', b, i, stmt) / ('call', b, term) writing the *bare* local"""
        if self._defs is None:
            d = defaultdict(list)
            for b, bl in enumerate(self.blocks):
                for i, st in enumerate(bl["st"]):
                    if is_bare(st["d"]):
                        d[st["d"]].append(("stmt", b, i, st))
                t = bl["t"]
                if t["k"] == "call" and is_bare(t["dest"]):
                    d[t["dest"]].append(("call", b, t))
            self._defs = d
        return self._defs

    def span_of_block(self, b):
        return self.blocks[b]["t"]["sp"]

    def return_blocks(self):
        return [i for i in self.normal_blocks() if self.term(i)["k"] == "return"]

    # ---- error structure
    def error_blocks(self):
        """blocks that mark an error exit: from_residual call, `_0 = Err(..)`, or divergence"""
        out = set()
        for i in self.normal_blocks():
            bl = self.blocks[i]
            t = bl["t"]
            if bl.get("inl_err"):
                out.add(i)
                continue
            if t["k"] == "call":
                f = t.get("f", "")
                if f.endswith("FromResidual::from_residual"):
                    out.add(i)
                    continue
                if "to" not in t:  # diverging call (panic etc.)
                    out.add(i)
                    continue
            if t["k"] == "unreachable":
                out.add(i)
                continue
            for st in bl["st"]:
                if st.get("r") == "agg" and st.get("ak") == "adt" and place_local(st["d"]) == 0 \
                        and st.get("adt") == "core::result::Result" and st.get("variant") == "Err" \
                        and is_bare(st["d"]):
                    out.add(i)
                    break
                # `Some(Err(e))` returned by the closure of a filter_map / map_while that is collected into a Result:
                # the Err aggregate is wrapped once and the wrapper is the return value
                if st.get("r") == "agg" and st.get("ak") == "adt" and st.get("adt") == "core::result::Result" \
                        and st.get("variant") == "Err" and is_bare(st["d"]) and st["d"] in self._wrapped_into_ret():
                    out.add(i)
                    break
        return out

    def _wrapped_into_ret(self):
        """locals that are the single operand of an `Option::Some` aggregate assigned to the return place"""
        w = getattr(self, "_wrapped", None)
        if w is None:
            w = set()
            for bl in self.blocks:
                if bl.get("cl"):
                    continue
                for st in bl["st"]:
                    if st.get("r") == "agg" and st.get("ak") == "adt" and st.get("adt") == "core::option::Option" \
                            and st.get("variant") == "Some" and is_bare(st["d"]) and st["d"] == 0 and len(st.get("o", [])) == 1:
                        l = op_local(st["o"][0])
                        if l is not None:
                            w.add(l)
            self._wrapped = w
        return w

    def ok_exits(self):
        """return blocks reachable from entry without crossing an error block"""
        eb = self.error_blocks()
        r = self.reachable((0,), blocked=eb)
        return [b for b in self.return_blocks() if b in r]

    # ---- dominators (simple iterative; bodies are small)
    def dominators(self):
        nb = self.normal_blocks()
        reach = self.reachable((0,))
        nodes = [b for b in nb if b in reach]
        dom = {b: set(nodes) for b in nodes}
        dom[0] = {0}
        changed = True
        order = nodes
        while changed:
            changed = False
            for b in order:
                if b == 0:
                    continue
                ps = [p for p in self.pred(b) if p in dom]
                if not ps:
                    continue
                new = set.intersection(*[dom[p] for p in ps]) | {b}
                if new != dom[b]:
                    dom[b] = new
                    changed = True
        return dom


class Program:
    def __init__(self, config="default", repo=None):
        raw, hsh, nfiles = _facts.load_raw(config, repo or _facts.REPO)
        # undo behaviour-preserving renames / helper extractions relative to the reference tree (normalize.py)
        self.normalised = []
        self.gone = {}
        self.ref = {}
        if not os.environ.get("VERIF_NO_NORMALIZE"):
            from . import normalize as _normalize
            self.normalised = _normalize.normalize(raw, config)
            self.ref = _normalize.load_ref() or {}
            self.gone = _normalize.gone_functions(raw, self.ref, config)
            for h, cs in sorted(self.gone.items()):
                self.normalised.append("function %s of the reference tree is gone; what the rules say about it is looked for in its former caller(s) %s" % (h, ", ".join(cs)))
        self.config = config
        self.hash = hsh
        self.nfiles = nfiles
        self.raw = raw
        self.bodies = {}
        self.dups = defaultdict(list)
        self.adts = {}
        self.traits = {}
        self.impls = []
        self.trait_impl_methods = defaultdict(list)   # trait method path -> [impl method path]
        self.impl_method_of = {}                       # impl method path -> trait method path
        self.crate_types = {}
        for cname, c in raw.items():
            types = c["types"]
            self.crate_types[cname] = types
            for rb in c["bodies"]:
                b = Body(rb, cname, types, self)
                if b.id in self.bodies:
                    self.dups[b.id].append(b)
                else:
                    self.bodies[b.id] = b
            for a in c["adts"]:
                a["_crate"] = cname
                self.adts[a["path"]] = a
            for t in c["traits"]:
                t["_crate"] = cname
                self.traits[t["path"]] = t
            for im in c["impls"]:
                im["_crate"] = cname
                self.impls.append(im)
                for it in im["items"]:
                    if "of" in it:
                        self.trait_impl_methods[it["of"]].append(it["path"])
                        self.impl_method_of[it["path"]] = it["of"]
        self._callers = None
        self._callgraph = None

    # ---- stats
    def stats(self):
        ncalls = 0
        for b in self.bodies.values():
            for _ in b.all_calls():
                ncalls += 1
        return {"crates": len(self.raw), "bodies": len(self.bodies) + sum(len(v) for v in self.dups.values()),
                "call_sites": ncalls, "adts": len(self.adts), "traits": len(self.traits),
                "impls": len(self.impls), "source_files_hashed": self.nfiles, "tree_hash": self.hash,
                "config": self.config}

    def body(self, bid):
        b = self.bodies.get(bid)
        if b is None and bid in self.gone and len(self.gone[bid]) == 1:
            # a helper of the reference tree that was inlined into its only caller: that caller stands in for it
            b = self.bodies.get(self.gone[bid][0])
        return b

    def ref_callees(self, fid):
        r = (self.ref.get("fns") or {}).get(fid) or (self.ref.get("closures") or {}).get(fid)
        return set(r["callees"]) if r else set()

    def inlined_events_of(self, gone_fid, body_id):
        """callee names that stand for "the body of `gone_fid`" inside `body_id`, one of the callers it was inlined into:
        what the gone function called in the reference tree and this caller did not"""
        if gone_fid in self.bodies or gone_fid not in self.gone:
            return set()
        import re as _re
        root = _re.sub(r"(::\{closure#\d+\})+$", "", body_id)
        if body_id not in self.gone[gone_fid] and root not in self.gone[gone_fid]:
            return set()
        mine = self.ref_callees(body_id) | self.ref_callees(root)
        return {c for c in self.ref_callees(gone_fid) if c not in mine and not c.startswith(("core::ops::", "core::convert::", "core::fmt::", "log::", "core::result::", "core::option::", "alloc::"))}

    def find_bodies(self, regex):
        r = re.compile(regex)
        return [b for i, b in self.bodies.items() if r.search(i)]

    def trait_methods(self, trait_path):
        t = self.traits.get(trait_path)
        return {m["name"]: m for m in t["methods"]} if t else {}

    def impls_of_method(self, trait_method_path):
        """impl method bodies (paths) of a workspace trait method, plus the provided default"""
        return list(self.trait_impl_methods.get(trait_method_path, []))

    def impl_self_ty(self, impl):
        return self.crate_types[impl["_crate"]][impl["self"]]

    # ---- callee matching
    def call_targets(self, t):
        """set of names a call terminator may refer to: the syntactic callee, its static
        resolution, and (for unresolved trait-method calls) the trait method itself."""
        out = set()
        if "f" in t:
            out.add(t["f"])
        if "res" in t:
            out.add(t["res"])
        return out

    def call_may_reach(self, t):
        """bodies (ids) that a call may transfer control to, over-approximated:
        resolved item -> that; unresolved trait method -> every workspace impl + default."""
        out = set()
        f = t.get("f")
        res = t.get("res")
        if res and res in self.bodies:
            out.add(res)
            # a resolved *default* trait method stays itself
        if f:
            if f in self.bodies and (res is None or res == f):
                out.add(f)
            if "tr" in t and (res is None or res == f):
                # unresolved (dyn / generic) trait method call
                for im in self.trait_impl_methods.get(f, []):
                    if im in self.bodies:
                        out.add(im)
                if f in self.bodies:
                    out.add(f)
        return out

    def is_unresolved_trait_call(self, t):
        return "tr" in t and ("res" not in t or t["res"] == t.get("f"))

    def callers_index(self):
        """callee name (f and res) -> list of (body, block, term)"""
        if self._callers is None:
            idx = defaultdict(list)
            for b in self.bodies.values():
                for bi, t in b.all_calls():
                    for name in self.call_targets(t):
                        idx[name].append((b, bi, t))
            self._callers = idx
        return self._callers

    def who_calls(self, names, include_cleanup=False):
        """all call sites whose callee / resolution is one of `names`"""
        idx = self.callers_index()
        seen = set()
        out = []
        for n in names:
            for (b, bi, t) in idx.get(n, []):
                if not include_cleanup and b.is_cleanup(bi):
                    continue
                key = (b.id, bi)
                if key in seen:
                    continue
                seen.add(key)
                out.append((b, bi, t))
        return out

    def names(self, regex):
        """all callee names (syntactic or resolved) in the program matching the regex"""
        r = re.compile(regex)
        return {n for n in self.callers_index().keys() if r.search(n)}

    def method_family(self, trait_method_path):
        """the trait method + every impl of it (names usable with who_calls)"""
        return [trait_method_path] + self.impls_of_method(trait_method_path)

    # ---- references (fn items / closures mentioned as values)
    def body_refs(self, b):
        """paths of fn items and closures referenced as values inside body b"""
        out = set()

        def scan_op(o):
            if "fn" in o:
                out.add(o["fn"])

        for bl in b.blocks:
            for st in bl["st"]:
                for o in st.get("o", []):
                    scan_op(o)
                if st.get("r") == "agg" and st.get("ak") in ("closure", "coroutine"):
                    out.add(st["def"])
            t = bl["t"]
            if t["k"] in ("call", "tailcall"):
                for o in t["args"]:
                    scan_op(o)
                if "fp" in t:
                    scan_op(t["fp"])
        return out

    def callgraph(self):
        """body id -> set of body ids (calls, over-approximated through impl maps, + references)"""
        if self._callgraph is None:
            g = {}
            for b in self.bodies.values():
                s = set()
                for bi, t in b.all_calls():
                    s |= self.call_may_reach(t)
                    # generic-arg fn items: closures passed by type (FnDef generic args)
                for r in self.body_refs(b):
                    if r in self.bodies:
                        s.add(r)
                    # a referenced trait method (e.g. passed as fn item) -> all impls
                    for im in self.trait_impl_methods.get(r, []):
                        if im in self.bodies:
                            s.add(im)
                g[b.id] = s
            self._callgraph = g
        return self._callgraph

    def reachable_bodies(self, entries, scope=None):
        g = self.callgraph()
        seen = set()
        dq = deque()
        for e in entries:
            if e in g and e not in seen:
                seen.add(e)
                dq.append(e)
        while dq:
            x = dq.popleft()
            for y in g.get(x, ()):
                if y in seen:
                    continue
                if scope is not None and not scope(y):
                    continue
                seen.add(y)
                dq.append(y)
        return seen

    # ---- type walks
    def type_mentions(self, crate, tid, pred, seen=None, through_adts=True, depth=0, path=None):
        """walk a type structurally (args, and fields of workspace ADTs); return a list of
        (path-of-fields, type row) for which pred(row) holds."""
        types = self.crate_types[crate]
        out = []
        if seen is None:
            seen = set()
        if path is None:
            path = []
        stack = [(crate, tid, path)]
        while stack:
            cr, ti, pth = stack.pop()
            key = (cr, ti)
            if key in seen:
                continue
            seen.add(key)
            row = self.crate_types[cr][ti]
            if pred(row):
                out.append((pth, row))
            for a in row.get("a", []):
                stack.append((cr, a, pth))
            if through_adts and row["k"] == "adt":
                adt = self.adts.get(row.get("def"))
                if adt is not None:
                    for v in adt["variants"]:
                        for f in v["fields"]:
                            stack.append((adt["_crate"], f["ty"], pth + [adt["path"].split("::")[-1] + "." + f["name"]]))
        return out


# --------------------------------------------------------------------------------------------
# events and path rules

class Ev:
    """An event inside a body: kind 'term' (happens when the block's terminator executes and
    control continues normally), 'stmt' (statement index i), or 'enter' (entering block b)."""
    __slots__ = ("b", "i", "kind", "what")

    def __init__(self, b, kind="term", i=None, what=""):
        self.b = b
        self.kind = kind
        self.i = i
        self.what = what

    def pos(self, body):
        if self.kind == "enter":
            return -1
        if self.kind == "stmt":
            return self.i
        return len(body.stmts(self.b))

    def __repr__(self):
        return "Ev(%s b%d%s %s)" % (self.kind, self.b, "" if self.i is None else ":%d" % self.i, self.what)


def call_events(body, pred, what=""):
    """events for every normal-block call whose terminator satisfies pred(term)"""
    return [Ev(b, "term", what=what or t.get("f", "?")) for b, t in body.calls() if pred(t)]


def callee_is(prog, names):
    names = set(names)

    def p(t):
        return bool(prog.call_targets(t) & names)
    return p


def reach_positions(body, avoid, starts=(0,), edges=None):
    """Forward reachability from block entries in `starts` that stops *at* avoid events.
    Returns dict block -> max position reached in that block (position = statement index,
    len(stmts) = the terminator executed and successors entered).  A block with an avoid event
    at position p is explored only up to (excluding) p."""
    first_avoid = {}
    for e in avoid:
        p = e.pos(body)
        if e.b not in first_avoid or p < first_avoid[e.b]:
            first_avoid[e.b] = p
    reached = {}
    dq = deque()
    for s in starts:
        dq.append(s)
    while dq:
        b = dq.popleft()
        if b in reached:
            continue
        n = len(body.stmts(b))
        if b in first_avoid:
            lim = first_avoid[b]
            reached[b] = lim - 1          # positions < lim reached; -1 => only entry edge, nothing
            if lim == -1:
                reached[b] = -2           # not even entered
            continue
        reached[b] = n + 1                # fully executed
        for s in body.succ(b):
            if edges is not None and (b, s) not in edges:
                continue
            if s not in reached:
                dq.append(s)
    return reached


def event_reached(body, reached, e):
    if e.b not in reached:
        return False
    return reached[e.b] >= e.pos(body)


def must_precede(body, A, B, edges=None):
    """every path entry -> (each event in B) crosses an A event first.
    Returns list of B events that are reachable without A (violations).
    `edges`: optional set of feasible CFG edges (others are ignored)."""
    reached = reach_positions(body, A, edges=edges)
    bad = []
    for e in B:
        # B itself is "reached" if control can arrive at its position
        if e.b in reached:
            p = e.pos(body)
            r = reached[e.b]
            if r >= p or (r == len(body.stmts(e.b)) + 1):
                bad.append(e)
    return bad


def must_pass(body, A, exits="ok", starts=(0,)):
    """every path from entry to an exit crosses an A event.  exits: 'ok' (returns not through an
    error block) or 'all' (every return).  Returns list of exit blocks reachable without A."""
    avoid = list(A)
    if exits == "ok":
        avoid = avoid + [Ev(b, "enter") for b in body.error_blocks()]
    reached = reach_positions(body, avoid, starts=starts)
    bad = []
    for rb in body.return_blocks():
        if rb in reached and reached[rb] >= len(body.stmts(rb)):
            bad.append(rb)
    return bad


def witness_path(body, target_block, avoid, starts=(0,)):
    """one path (list of blocks) from entry to target avoiding the avoid events' blocks"""
    first_avoid = {}
    for e in avoid:
        first_avoid.setdefault(e.b, e)
    prev = {}
    dq = deque()
    for s in starts:
        prev[s] = None
        dq.append(s)
    while dq:
        b = dq.popleft()
        if b == target_block:
            break
        if b in first_avoid:
            continue
        for s in body.succ(b):
            if s not in prev:
                prev[s] = b
                dq.append(s)
    if target_block not in prev:
        return []
    path = []
    x = target_block
    while x is not None:
        path.append(x)
        x = prev[x]
    return list(reversed(path))


def path_spans(body, path, limit=12):
    out = []
    last = None
    for b in path:
        sp = body.span_of_block(b)
        if sp != last:
            out.append(sp)
            last = sp
    if len(out) > limit:
        out = out[:limit // 2] + ["..."] + out[-limit // 2:]
    return out


# --------------------------------------------------------------------------------------------
# value flow: follow a call's destination through moves to find its `?` / match continuation

RESULT_ADAPTERS = (
    "core::result::Result::<T, E>::map_err", "core::result::Result::<T, E>::map",
    "core::result::Result::<T, E>::and_then", "core::result::Result::<T, E>::or_else",
    "core::convert::Into::into", "core::convert::From::from",
    "anyhow::Context::context", "anyhow::Context::with_context",
)


def moves_from(body, local):
    """locals that receive (a move/copy of) `local` via plain `use` statements or casts."""
    out = []
    for b, bl in enumerate(body.blocks):
        for i, st in enumerate(bl["st"]):
            if st.get("r") in ("use", "cast") and is_bare(st["d"]):
                for o in st.get("o", []):
                    p = op_place(o)
                    if p is not None and is_bare(p) and p == local:
                        out.append((b, i, st["d"]))
    return out


def flows_to(body, src_local, max_steps=64, through_calls=()):
    """set of locals that (may) hold the value first stored in src_local, following bare
    move/copy chains, and calls in `through_calls` (callee names: arg0 -> dest)."""
    seen = {src_local}
    work = [src_local]
    steps = 0
    while work and steps < max_steps:
        steps += 1
        l = work.pop()
        for (_b, _i, d) in moves_from(body, l):
            if d not in seen:
                seen.add(d)
                work.append(d)
        if through_calls:
            for b, t in body.calls():
                if t.get("f") in through_calls or t.get("res") in through_calls:
                    for o in t["args"][:1]:
                        if op_local(o) == l and is_bare(op_place(o)) and is_bare(t["dest"]):
                            if t["dest"] not in seen:
                                seen.add(t["dest"])
                                work.append(t["dest"])
    return seen


def try_continuations(body, call_block):
    """For the call in `call_block` returning a Result (or any Try type): find the `Try::branch`
    applied to (a move-chain/adapter image of) its destination and return
    (continue_blocks, break_blocks, branch_blocks).  Also recognises `match` directly on the
    result (discriminant switch: 0 = Ok, 1 = Err)."""
    t = body.term(call_block)
    dest = t["dest"]
    if not is_bare(dest):
        return set(), set(), set()
    locs = flows_to(body, dest, through_calls=RESULT_ADAPTERS)
    cont, brk, brs = set(), set(), set()
    for b, ct in body.calls():
        if ct.get("f", "").endswith("ops::Try::branch") or ct.get("f", "").endswith("try_trait::Try::branch"):
            if ct["args"] and op_local(ct["args"][0]) in locs:
                brs.add(b)
                # the target block switches on discriminant of dest
                tb = ct.get("to")
                if tb is None:
                    continue
                bd = ct["dest"]
                sw = _find_discr_switch(body, tb, bd)
                if sw is not None:
                    sb, st = sw
                    for v, tgt in st["vals"]:
                        if v == "0":
                            cont.add(tgt)
                        elif v == "1":
                            brk.add(tgt)
    # direct match on the result
    def drop_ladder(b0):
        """the open-coded drop of a partially moved enum: a switch on its discriminant from which only drops, gotos, drop-flag
        updates and the return are reachable — not an inspection by the program"""
        seen, work = set(), list(body.succ(b0))
        while work:
            x = work.pop()
            if x in seen:
                continue
            seen.add(x)
            tx = body.term(x)
            if tx["k"] not in ("drop", "goto", "return", "switch", "unreachable"):
                return False
            for sx in body.stmts(x):
                if sx.get("r") == "discr":
                    continue
                if not (sx.get("r") == "use" and sx.get("o") and op_is_const(sx["o"][0]) and is_bare(sx["d"])):
                    return False
            work.extend(body.succ(x))
        return bool(seen)
    for b in body.normal_blocks():
        for st in body.stmts(b):
            if st.get("r") == "discr" and place_local(st["p"]) in locs and is_bare(st["p"]):
                tt = body.term(b)
                if tt["k"] == "switch" and op_local(tt["on"]) == place_local(st["d"]) and not drop_ladder(b):
                    vals = dict((v, tg) for v, tg in tt["vals"])
                    if "0" in vals:
                        cont.add(vals["0"])
                        if "1" in vals:
                            brk.add(vals["1"])
                        else:
                            brk.add(tt["else"])
                    elif "1" in vals:
                        brk.add(vals["1"])
                        cont.add(tt["else"])
                    brs.add(b)
    return cont, brk, brs


def _find_discr_switch(body, start_block, local, max_hops=3):
    b = start_block
    for _ in range(max_hops):
        for st in body.stmts(b):
            if st.get("r") == "discr" and place_local(st["p"]) == local:
                tt = body.term(b)
                if tt["k"] == "switch":
                    return b, tt
        tt = body.term(b)
        if tt["k"] == "goto":
            b = tt["to"]
        else:
            break
    return None


def ok_continuation_events(body, call_block):
    """events marking "the call returned Ok and `?`/match took the success arm".  If the call's
    value is not inspected with `?`/match, the event is the call's normal continuation."""
    cont, brk, brs = try_continuations(body, call_block)
    if cont:
        return [Ev(c, "enter", what="Ok-continuation of call in b%d" % call_block) for c in cont], True
    return [Ev(call_block, "term", what="return of call in b%d" % call_block)], False


# --------------------------------------------------------------------------------------------
# provenance (backward slice over locals, flow-insensitive, conservative)

TRANSPARENT_CALLS = (
    "core::ops::deref::Deref::deref", "core::ops::deref::DerefMut::deref_mut",
    "core::convert::AsRef::as_ref", "core::borrow::Borrow::borrow", "core::borrow::BorrowMut::borrow_mut",
    "core::convert::Into::into", "core::convert::From::from", "core::clone::Clone::clone",
    "core::ops::try_trait::Try::branch",
)


def provenance(body, local, transparent=TRANSPARENT_CALLS, extra_transparent=(), max_nodes=400):
    """Leaves that may flow into `local`: set of tuples
       ('param', i) | ('static', path) | ('const', value-or-type) | ('fn', path) |
       ('call', callee, block) | ('agg', name, block) | ('uneval', path) | ('unknown', what)"""
    tr = set(transparent) | set(extra_transparent)
    leaves = set()
    seen = set()
    work = [local]
    defs = body.defs()
    # writes through projections of a local also define (part of) it
    proj_defs = defaultdict(list)
    for b, bl in enumerate(body.blocks):
        for i, st in enumerate(bl["st"]):
            if not is_bare(st["d"]) and "*" not in place_proj(st["d"]):
                proj_defs[place_local(st["d"])].append(st)
    while work:
        l = work.pop()
        if l in seen:
            continue
        seen.add(l)
        if len(seen) > max_nodes:
            leaves.add(("unknown", "slice too large"))
            break
        if 1 <= l <= body.argc:
            leaves.add(("param", l))
        ds = defs.get(l, [])
        sts = [d[3] for d in ds if d[0] == "stmt"] + proj_defs.get(l, [])
        for st in sts:
            r = st.get("r")
            if r in ("ref", "rawptr", "discr"):
                work.append(place_local(st["p"]))
                continue
            if r == "agg" and st.get("ak") in ("adt", "closure", "coroutine"):
                nm = st.get("adt", st.get("def", "?"))
                if st.get("variant"):
                    nm += "::" + st["variant"]
                # Option::Some / Ok wrappers are transparent
                if nm in ("core::option::Option::Some", "core::result::Result::Ok"):
                    pass
                else:
                    leaves.add(("agg", nm, 0))
            for o in st.get("o", []):
                _leaf_or_follow(o, leaves, work)
        for d in ds:
            if d[0] == "call":
                t = d[2]
                f = t.get("f", "fnptr")
                if f in tr or t.get("res") in tr:
                    for o in t["args"]:
                        _leaf_or_follow(o, leaves, work)
                else:
                    leaves.add(("call", t.get("res") or f, d[1]))
    return leaves


def _leaf_or_follow(o, leaves, work):
    p = op_place(o)
    if p is not None:
        work.append(place_local(p))
        return
    if "static" in o:
        leaves.add(("static", o["static"]))
    elif "fn" in o:
        leaves.add(("fn", o["fn"]))
    elif "uneval" in o:
        leaves.add(("uneval", o["uneval"]))
    elif "str" in o:
        leaves.add(("const", o["str"]))
    elif "v" in o:
        leaves.add(("const", o["v"]))
    else:
        leaves.add(("const", "?"))


# --------------------------------------------------------------------------------------------
# drop-flag aware feasibility: constant propagation of bool locals that only ever receive
# constants (drop flags and `cfg!`-style constants), used to prune infeasible switch edges.

def const_bool_locals(body):
    """locals of type bool whose every definition is `use const 0|1`"""
    cand = {}
    for l, tid in enumerate(body.locals):
        if body.types[tid]["s"] == "bool" and l > body.argc:
            cand[l] = True
    for bl in body.blocks:
        for st in bl["st"]:
            d = st["d"]
            l = place_local(d)
            if l in cand:
                ok = is_bare(d) and st.get("r") == "use" and len(st.get("o", [])) == 1 and "v" in st["o"][0] and "k" in st["o"][0]
                if not ok:
                    cand.pop(l, None)
        t = bl["t"]
        if t["k"] == "call" and place_local(t["dest"]) in cand:
            cand.pop(place_local(t["dest"]), None)
    # taking a reference to the flag would defeat the analysis
    for bl in body.blocks:
        for st in bl["st"]:
            if st.get("r") in ("ref", "rawptr") and place_local(st["p"]) in cand:
                cand.pop(place_local(st["p"]), None)
    return set(cand)


def feasible_edges(body, starts=(0,), blocked=frozenset(), known=None):
    """Forward constant propagation of drop flags; returns (reached_blocks, feasible_edge_set).
    State = frozenset of (flag, value) known facts; joined by intersection per block, iterated
    to a fixpoint (monotone: facts only disappear)."""
    flags = const_bool_locals(body)
    known = dict(known or {})
    flags = set(flags) | set(known)
    state = {}
    edges = set()
    work = deque()
    for s in starts:
        state[s] = dict(known)
        work.append(s)
    iters = 0
    while work:
        iters += 1
        if iters > 20000:
            break
        b = work.popleft()
        if b in blocked:
            continue
        st = dict(state[b])
        for s in body.stmts(b):
            l = place_local(s["d"])
            if not is_bare(s["d"]):
                continue
            if l in flags and s.get("r") == "use" and s.get("o") and "v" in s["o"][0]:
                st[l] = s["o"][0]["v"]
            elif s.get("r") == "use" and s.get("o") and op_place(s["o"][0]) is not None and is_bare(op_place(s["o"][0])) \
                    and op_local(s["o"][0]) in st and body.types[body.locals[l]]["s"] == "bool":
                # copy of a tracked boolean
                st[l] = st[op_local(s["o"][0])]
                flags.add(l)
            elif l in st:
                st.pop(l, None)
        tt = body.term(b)
        if tt["k"] == "call" and is_bare(tt["dest"]) and tt["dest"] in st:
            st.pop(tt["dest"], None)
        t = body.term(b)
        outs = []
        if t["k"] == "switch":
            on = op_local(t["on"])
            val = st.get(on) if (on in flags and is_bare(op_place(t["on"]))) else None
            # a switch on a copy of the flag: `_x = use _flag` is not followed (rustc switches on the flag itself)
            if val is not None:
                tgt = None
                for v, tg in t["vals"]:
                    if v == val:
                        tgt = tg
                if tgt is None:
                    tgt = t["else"]
                outs = [tgt]
            else:
                outs = list(body.succ(b))
        else:
            outs = list(body.succ(b))
        for o in outs:
            if o in blocked:
                continue
            edges.add((b, o))
            if o not in state:
                state[o] = dict(st)
                work.append(o)
            else:
                old = state[o]
                new = {k: v for k, v in old.items() if st.get(k) == v}
                if new != old:
                    state[o] = new
                    work.append(o)
    return set(state.keys()), edges


# --------------------------------------------------------------------------------------------
# single-definition back-trace (field sensitive)

def trace_back(body, local, max_steps=40, ok_only=False):
    """Follow `local` backwards while each local has exactly one definition.  Returns a list of
    steps, oldest last:  ('field', idx, name) / ('downcast', variant) / ('deref',) for projections
    applied on the source place, ('use',), ('ref',), ('cast', kind), ('agg', name, operand-index),
    and terminal ('call', callee, block) | ('param', i) | ('const', v) | ('static', p) |
    ('multi', n_defs) | ('bin', op)"""
    steps = []
    defs = body.defs()
    cur = local
    for _ in range(max_steps):
        if 1 <= cur <= body.argc and not defs.get(cur):
            steps.append(("param", cur))
            return steps
        ds = defs.get(cur, [])
        if len(ds) > 1 and (ok_only or (steps and steps[-1] in (("downcast", "Continue"), ("downcast", "Ok"), ("downcast", "Some")))):
            # the chain just took the Ok / Continue / Some payload out of this value: of its definitions only the ones that
            # can hold that variant matter (a Result-returning helper written into this body has `_0 = Ok(..)` next to the
            # `_0 = from_residual(..)` / `_0 = Err(..)` of its error exits)
            live = [d_ for d_ in ds if not ((d_[0] == "call" and (d_[2].get("f") or "").endswith("FromResidual::from_residual"))
                                            or (d_[0] == "stmt" and d_[3].get("r") == "agg" and d_[3].get("variant") in ("Err", "Break", "None")))]
            if len(live) == 1:
                ds = live
        if len(ds) != 1:
            if 1 <= cur <= body.argc:
                steps.append(("param", cur))
            else:
                steps.append(("multi", len(ds)))
            return steps
        d = ds[0]
        if d[0] == "call":
            t = d[2]
            steps.append(("call", t.get("res") or t.get("f", "fnptr"), d[1]))
            return steps
        st = d[3]
        r = st.get("r")
        if r in ("use", "cast"):
            o = st["o"][0]
            p = op_place(o)
            if p is None:
                if "static" in o:
                    steps.append(("static", o["static"]))
                elif "fn" in o:
                    steps.append(("fn", o["fn"]))
                elif "uneval" in o and "v" not in o:
                    steps.append(("uneval", o["uneval"]))
                else:
                    steps.append(("const", o.get("v", o.get("str", "?"))))
                return steps
            if r == "cast":
                steps.append(("cast", st.get("ck")))
            for e in reversed(place_proj(p)):
                steps.append(_proj_step(e))
            cur = place_local(p)
            continue
        if r in ("ref", "rawptr"):
            p = st["p"]
            steps.append(("ref",))
            for e in reversed(place_proj(p)):
                steps.append(_proj_step(e))
            cur = place_local(p)
            continue
        if r == "agg":
            nm = st.get("adt", st.get("def", st.get("ak")))
            if st.get("variant"):
                nm = "%s::%s" % (nm, st["variant"])
            steps.append(("agg", nm, d[1], d[2]))
            return steps
        if r in ("bin", "un"):
            steps.append(("bin", st.get("op"), d[1], d[2]))
            return steps
        if r == "discr":
            steps.append(("discr",))
            cur = place_local(st["p"])
            continue
        steps.append(("other", r))
        return steps
    steps.append(("multi", -1))
    return steps


def _proj_step(e):
    if e == "*":
        return ("deref",)
    if e.startswith("f:"):
        _, idx, name, owner = e.split(":", 3)
        return ("field", int(idx), name)
    if e.startswith("d:"):
        return ("downcast", e.split(":", 2)[2])
    return ("index", e)


def trace_through(body, local, transparent=TRANSPARENT_CALLS + RESULT_ADAPTERS, max_hops=8):
    """trace_back, continuing through transparent calls (first argument)."""
    allsteps = []
    cur = local
    for _ in range(max_hops):
        # past a `?` whose Continue payload the chain has taken, only the Ok definitions of the tested value matter
        okctx = any(x in (("downcast", "Continue"), ("downcast", "Ok")) for x in allsteps) and not any(x[0] == "agg" for x in allsteps)
        st = trace_back(body, cur, ok_only=okctx)
        allsteps.extend(st)
        last = st[-1]
        if last[0] == "agg" and okctx and len(last) >= 4 and str(last[1]).endswith(("Result::Ok", "Option::Some")):
            # `Ok(x)` built by a helper written into this body and taken apart again by the `?` above: go on from x
            ag = body.stmts(last[2])[last[3]]
            if len(ag.get("o", [])) == 1 and op_local(ag["o"][0]) is not None:
                allsteps.pop()
                cur = op_local(ag["o"][0])
                continue
        if last[0] == "call":
            t = body.term(last[2])
            names = {t.get("f"), t.get("res")}
            if names & set(transparent) and t["args"]:
                p = op_place(t["args"][0])
                if p is not None:
                    for e in reversed(place_proj(p)):
                        allsteps.append(_proj_step(e))
                    cur = place_local(p)
                    continue
        break
    return allsteps


def sccs(graph, nodes):
    """Tarjan SCCs (iterative) of the sub-graph induced by `nodes`; returns list of lists;
    only components that contain a cycle (size > 1 or a self loop)."""
    nodes = set(nodes)
    index = {}
    low = {}
    onstack = set()
    stack = []
    out = []
    counter = [0]
    for root in sorted(nodes):
        if root in index:
            continue
        work = [(root, iter(sorted(x for x in graph.get(root, ()) if x in nodes)))]
        index[root] = low[root] = counter[0]
        counter[0] += 1
        stack.append(root)
        onstack.add(root)
        while work:
            v, it = work[-1]
            adv = False
            for w in it:
                if w not in index:
                    index[w] = low[w] = counter[0]
                    counter[0] += 1
                    stack.append(w)
                    onstack.add(w)
                    work.append((w, iter(sorted(x for x in graph.get(w, ()) if x in nodes))))
                    adv = True
                    break
                elif w in onstack:
                    low[v] = min(low[v], index[w])
            if adv:
                continue
            work.pop()
            if work:
                u = work[-1][0]
                low[u] = min(low[u], low[v])
            if low[v] == index[v]:
                comp = []
                while True:
                    w = stack.pop()
                    onstack.discard(w)
                    comp.append(w)
                    if w == v:
                        break
                if len(comp) > 1 or v in graph.get(v, ()):
                    out.append(sorted(comp))
    return out
