"""C01-R7 ack-after-durable (interprocedural, bottom-up over the call graph).

Base publish event: a call to Directory::atomic_write (any impl) whose path argument flows from the
META_FILEPATH static.  A function g that contains a publish event e (or a call to a *non-durable
publisher*) is a **durable publisher** iff every path from the Ok-continuation of e to an Ok exit of
g crosses a later sync_directory call.  Otherwise the obligation moves to g's callers.  A
non-durable publisher without callers in the workspace (an API entry point or a task closure whose
result is what `commit()` waits for) is a violation: it acknowledges a commit whose rename is not
durable.
"""
from .model import Ev, must_pass, ok_continuation_events, witness_path, path_spans
from .rules import family, calls_to, site, short, arg_provenance

D = "tantivy::directory::directory::Directory::"
META = "tantivy::core::META_FILEPATH"


def rule_ack_after_durable(rep, prog, rule, max_depth=8):
    aw = family(prog, D + "atomic_write")
    from .props.c01 import sync_events
    sync = sync_events(prog)
    # base publishers
    base = {}
    for (b, bi, t) in prog.who_calls(aw):
        leaves = arg_provenance(b, t, 1)
        if ("static", META) in leaves:
            base.setdefault(b.id, []).append(bi)
    if not base:
        rep.fail(rule, "anchor:publish", "cannot establish: no call to Directory::atomic_write with META_FILEPATH found")
        return
    status = {}          # fid -> (durable?, chain)
    frontier = {fid: ("atomic_write(meta.json)", blocks) for fid, blocks in base.items()}
    chains = {fid: [fid] for fid in base}
    depth = 0
    n_checked = 0
    while frontier and depth < max_depth:
        depth += 1
        nxt = {}
        for fid, (what, blocks) in sorted(frontier.items()):
            body = prog.body(fid)
            S = [Ev(b, "term") for b, _ in calls_to(prog, body, sync)]
            durable = True
            bad_exit = None
            for eb in blocks:
                evs, checked = ok_continuation_events(body, eb)
                starts = []
                for e in evs:
                    if e.kind == "enter":
                        starts.append(e.b)
                    else:
                        starts.extend(body.succ(e.b))
                bad = must_pass(body, S, exits="ok", starts=tuple(starts))
                if bad:
                    durable = False
                    bad_exit = (eb, bad[0], starts)
            n_checked += 1
            status[fid] = durable
            key = "%s: sync_directory after %s" % (short(fid), what)
            if durable:
                rep.ok(rule, key, "every path from the publish event to an Ok exit crosses sync_directory (chain: %s)"
                       % " <- ".join(short(c) for c in chains[fid]), site=site(body, blocks[0]))
                continue
            # non-durable: obligation moves to callers (calls and closure creation sites)
            callers = {}
            for (cb, cbi, ct) in prog.who_calls({fid}):
                callers.setdefault(cb.id, []).append(cbi)
            if not callers:
                eb, rb, starts = bad_exit
                avoid = S + [Ev(x, "enter") for x in body.error_blocks()]
                p = witness_path(body, rb, avoid, starts=tuple(starts))
                rep.fail(rule, "%s acknowledges a non-durable meta.json replace" % short(fid),
                         "an Ok return of `%s` is reachable after %s without any later sync_directory: the rename of "
                         "meta.json is not durable when the caller is told the commit succeeded (chain: %s)"
                         % (fid, what, " <- ".join(short(c) for c in chains[fid])),
                         site=site(body, eb), path=path_spans(body, p))
                continue
            rep.ok(rule, key + " (deferred to callers)", "not synced here; obligation moves to %d caller(s): %s"
                   % (len(callers), ", ".join(short(c) for c in sorted(callers))), site=site(body, blocks[0]))
            for c, blks in callers.items():
                if c in status:
                    continue
                if c in nxt:
                    nxt[c][1].extend(blks)
                else:
                    nxt[c] = ("call to " + short(fid), list(blks))
                    chains[c] = [c] + chains[fid]
        frontier = nxt
    if frontier:
        for fid in frontier:
            rep.fail(rule, "%s: depth" % short(fid), "not established: publisher chain deeper than %d" % max_depth)
    rep.floor(rule, "publisher functions examined", n_checked, 1)
