"""Code-table agreement: read the variant->code map of an encoder and the code->variant map of a
decoder off their MIR, and compare them with each other and with the enum definition."""
from .model import op_local, op_place, place_local, is_bare, trace_back, proj_fields


def enum_variants(prog, adt_path):
    adt = prog.adts.get(adt_path)
    if adt is None or adt["kind"] != "enum":
        return None
    return {v["name"]: int(v["discr"]) for v in adt["variants"]}


def _first_ret_const(body, start, limit=6):
    """follow straight-line blocks from `start`: the constant assigned to _0"""
    b = start
    for _ in range(limit):
        for st in body.stmts(b):
            if is_bare(st["d"]) and st["d"] == 0 and st.get("r") == "use" and "v" in st["o"][0]:
                return int(st["o"][0]["v"])
        t = body.term(b)
        if t["k"] == "goto":
            b = t["to"]
        else:
            return None
    return None


def _first_variant(body, adt_path, start, limit=6):
    b = start
    for _ in range(limit):
        for st in body.stmts(b):
            if st.get("r") == "agg" and st.get("ak") == "adt" and st.get("adt") == adt_path:
                return st["variant"]
        t = body.term(b)
        if t["k"] in ("goto",) or (t["k"] == "call" and "to" in t):
            b = t["to"]
        else:
            return None
    return None


def encode_map(prog, body, adt_path):
    """variant name -> code for `fn to_code(self) -> u8` shapes: `self as u8` or a match"""
    variants = enum_variants(prog, adt_path)
    if variants is None:
        return None, "enum %s not found" % adt_path
    by_discr = {d: n for n, d in variants.items()}
    # shape 1: cast of the discriminant
    for b in body.normal_blocks():
        sts = body.stmts(b)
        for st in sts:
            if st.get("r") == "cast" and is_bare(st["d"]) and st["d"] == 0 and st.get("ck") == "int2int":
                src = trace_back(body, op_local(st["o"][0]))
                if any(s[0] == "discr" for s in src):
                    return dict(variants), "discriminant cast"
    # shape 2: switch on the discriminant
    for b in body.normal_blocks():
        t = body.term(b)
        if t["k"] == "switch":
            src = trace_back(body, op_local(t["on"])) if op_local(t["on"]) is not None else []
            if any(s[0] == "discr" for s in src):
                m = {}
                arms = list(t["vals"])
                for v, tg in arms:
                    c = _first_ret_const(body, tg)
                    if c is None or int(v) not in by_discr:
                        return None, "arm for discriminant %s does not assign a constant" % v
                    m[by_discr[int(v)]] = c
                # otherwise arm: a single remaining variant may be handled by `else`
                rest = [n for n in variants if n not in m]
                if rest:
                    c = _first_ret_const(body, t["else"])
                    if c is not None and len(rest) == 1:
                        m[rest[0]] = c
                return m, "match on self"
    return None, "unrecognised encoder shape"


def decode_map(prog, body, adt_path, param=1):
    """code -> variant name for `fn from_code(code: u8)` shapes: a match on the code"""
    for b in body.normal_blocks():
        t = body.term(b)
        if t["k"] == "switch":
            l = op_local(t["on"])
            if l is None:
                continue
            src = trace_back(body, l)
            if l == param or (src and src[-1] == ("param", param)):
                m = {}
                for v, tg in t["vals"]:
                    var = _first_variant(body, adt_path, tg)
                    if var is None:
                        return None, "arm for code %s does not build a %s variant" % (v, adt_path.split("::")[-1])
                    m[int(v)] = var
                # the default arm must not build a variant
                dv = _first_variant(body, adt_path, t["else"])
                return m, ("match on code" + ("; default arm builds %s" % dv if dv else ""))
    return None, "unrecognised decoder shape"


def const_array_variants(prog, const_path, adt_path):
    """variant names listed by a `const X: [Enum; N] = [..]` / static array, in order"""
    b = prog.body(const_path)
    if b is None:
        return None
    tmp = {}
    arr = None
    for bi in b.normal_blocks():
        for st in b.stmts(bi):
            if st.get("r") == "agg" and st.get("ak") == "adt" and st.get("adt") == adt_path and is_bare(st["d"]):
                tmp[st["d"]] = st["variant"]
            if st.get("r") == "agg" and st.get("ak") == "array" and is_bare(st["d"]) and st["d"] == 0:
                arr = [tmp.get(op_local(o)) for o in st["o"]]
    return arr


def check_inverse(rep, rule, name, enc, dec, variants, site=""):
    """enc: variant->code, dec: code->variant; both total and mutually inverse"""
    ok = True
    missing = [v for v in variants if v not in enc]
    if missing:
        rep.fail(rule, "%s: encoder covers every variant" % name, "variants without a code: %s" % missing, site=site)
        ok = False
    codes = list(enc.values())
    if len(set(codes)) != len(codes):
        rep.fail(rule, "%s: codes are distinct" % name, "two variants share a code: %s" % enc, site=site)
        ok = False
    for v, c in enc.items():
        if dec.get(c) != v:
            rep.fail(rule, "%s: decode(encode(%s)) == %s" % (name, v, v), "code %d of %s decodes to %s: a value written with this type is read back as another (or refused)" % (c, v, dec.get(c)), site=site)
            ok = False
    for c, v in dec.items():
        if enc.get(v) != c:
            rep.fail(rule, "%s: encode(decode(%d)) == %d" % (name, c, c), "code %d decodes to %s whose code is %s" % (c, v, enc.get(v)), site=site)
            ok = False
    if ok:
        rep.ok(rule, "%s: encoder and decoder are mutually inverse on all %d variants" % (name, len(variants)),
               ", ".join("%s=%d" % (v, c) for v, c in sorted(enc.items(), key=lambda x: x[1])), site=site)
    return ok


def const_scalar(prog, path):
    b = prog.body(path)
    if b is None:
        return None
    for st in b.stmts(0):
        if is_bare(st["d"]) and st["d"] == 0 and st.get("r") == "use" and "v" in st["o"][0]:
            return int(st["o"][0]["v"])
    return None


def const_int_array(prog, path):
    b = prog.body(path)
    if b is None:
        return None
    for bi in b.normal_blocks():
        for st in b.stmts(bi):
            if st.get("r") == "agg" and st.get("ak") == "array" and is_bare(st["d"]) and st["d"] == 0:
                vals = []
                for o in st["o"]:
                    if "v" not in o:
                        return None
                    vals.append(int(o["v"]))
                return vals
    return None
