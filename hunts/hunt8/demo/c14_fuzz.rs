// Differential fuzzing for property C14: one segment vs. random partition vs. distributed+postcard.
use rand::rngs::StdRng;
use rand::{Rng, SeedableRng};
use serde_json::{json, Value};
use tantivy::aggregation::agg_req::Aggregations;
use tantivy::aggregation::agg_result::AggregationResults;
use tantivy::aggregation::intermediate_agg_result::IntermediateAggregationResults;
use tantivy::aggregation::{AggregationCollector, DistributedAggregationCollector};
use tantivy::indexer::NoMergePolicy;
use tantivy::query::{AllQuery, Query, QueryParser};
use tantivy::schema::{Schema, FAST, INDEXED, STRING};
use tantivy::{Index, IndexWriter, TantivyDocument};

pub fn schema() -> Schema {
    let mut sb = Schema::builder();
    sb.add_u64_field("id", FAST | INDEXED);
    sb.add_text_field("cat", STRING | FAST);
    sb.add_i64_field("n", FAST);
    sb.add_f64_field("fv", FAST);
    sb.add_u64_field("small", FAST);
    sb.add_i64_field("i", FAST);
    sb.add_u64_field("u", FAST);
    sb.add_f64_field("f", FAST);
    sb.add_bool_field("b", FAST);
    sb.add_date_field("d", FAST);
    sb.add_ip_addr_field("ip", FAST);
    sb.add_text_field("s", STRING | FAST);
    sb.add_text_field("hs", STRING | FAST);
    sb.add_json_field("j", FAST);
    sb.build()
}

pub fn build(partition: &[Vec<Value>]) -> Index {
    let schema = schema();
    let index = Index::create_in_ram(schema.clone());
    let mut w: IndexWriter = index.writer_with_num_threads(1, 20_000_000).unwrap();
    w.set_merge_policy(Box::new(NoMergePolicy));
    for group in partition {
        if group.is_empty() {
            continue;
        }
        for doc in group {
            let d = TantivyDocument::parse_json(&schema, &doc.to_string()).unwrap();
            w.add_document(d).unwrap();
        }
        w.commit().unwrap();
    }
    index
}

fn query(index: &Index, q: &Option<String>) -> Box<dyn Query> {
    match q {
        None => Box::new(AllQuery),
        Some(q) => QueryParser::for_index(index, vec![]).parse_query(q).unwrap(),
    }
}

pub fn run(index: &Index, req: &Value, q: &Option<String>) -> Result<Value, String> {
    let aggs: Aggregations = serde_json::from_value(req.clone()).map_err(|e| format!("REQ {e}"))?;
    let collector = AggregationCollector::from_aggs(aggs, Default::default());
    let searcher = index.reader().unwrap().searcher();
    let q = query(index, q);
    let res = std::panic::catch_unwind(std::panic::AssertUnwindSafe(|| {
        searcher.search(&*q, &collector)
    }));
    match res {
        Ok(Ok(res)) => {
            let res: AggregationResults = res;
            Ok(serde_json::to_value(&res).unwrap())
        }
        Ok(Err(e)) => Err(format!("ERR {e:?}")),
        Err(_) => Err("PANIC".to_string()),
    }
}

pub fn run_distributed(indexes: &[Index], req: &Value, q: &Option<String>) -> Result<Value, String> {
    let aggs: Aggregations = serde_json::from_value(req.clone()).map_err(|e| format!("REQ {e}"))?;
    let res = std::panic::catch_unwind(std::panic::AssertUnwindSafe(|| -> tantivy::Result<Value> {
        let mut acc: Option<IntermediateAggregationResults> = None;
        for index in indexes {
            let collector =
                DistributedAggregationCollector::from_aggs(aggs.clone(), Default::default());
            let searcher = index.reader()?.searcher();
            let q = query(index, q);
            let res: IntermediateAggregationResults = searcher.search(&*q, &collector)?;
            let bytes = postcard::to_allocvec(&res).unwrap();
            let res: IntermediateAggregationResults = postcard::from_bytes(&bytes).unwrap();
            match acc.as_mut() {
                None => acc = Some(res),
                Some(a) => a.merge_fruits(res)?,
            }
        }
        let res = acc.unwrap().into_final_result(aggs.clone(), Default::default())?;
        Ok(serde_json::to_value(&res).unwrap())
    }));
    match res {
        Ok(Ok(v)) => Ok(v),
        Ok(Err(e)) => Err(format!("ERR {e:?}")),
        Err(_) => Err("PANIC".to_string()),
    }
}

fn approx(a: &Value, b: &Value, tol: f64) -> bool {
    match (a, b) {
        (Value::Number(x), Value::Number(y)) => {
            let (x, y) = (x.as_f64().unwrap(), y.as_f64().unwrap());
            if x == y {
                return true;
            }
            let d = (x - y).abs();
            d <= tol * x.abs().max(y.abs()).max(1.0)
        }
        (Value::Array(x), Value::Array(y)) => {
            x.len() == y.len() && x.iter().zip(y).all(|(a, b)| approx(a, b, tol))
        }
        (Value::Object(x), Value::Object(y)) => {
            x.len() == y.len()
                && x.iter()
                    .all(|(k, v)| y.get(k).map(|w| approx(v, w, tol)).unwrap_or(false))
        }
        _ => a == b,
    }
}

fn first_diff(a: &Value, b: &Value, path: String) -> Option<String> {
    match (a, b) {
        (Value::Array(x), Value::Array(y)) => {
            if x.len() != y.len() {
                return Some(format!("{path}: len {} vs {} :: {} VS {}", x.len(), y.len(), a, b));
            }
            for (i, (p, q)) in x.iter().zip(y).enumerate() {
                if let Some(d) = first_diff(p, q, format!("{path}[{i}]")) {
                    return Some(d);
                }
            }
            None
        }
        (Value::Object(x), Value::Object(y)) => {
            for (k, v) in x {
                match y.get(k) {
                    None => return Some(format!("{path}.{k}: missing on right")),
                    Some(w) => {
                        if let Some(d) = first_diff(v, w, format!("{path}.{k}")) {
                            return Some(d);
                        }
                    }
                }
            }
            for k in y.keys() {
                if !x.contains_key(k) {
                    return Some(format!("{path}.{k}: missing on left"));
                }
            }
            None
        }
        _ => {
            if approx(a, b, 1e-9) {
                None
            } else {
                Some(format!("{path}: {a} vs {b}"))
            }
        }
    }
}

fn canon(v: &Value) -> Value {
    match v {
        Value::Array(xs) => {
            let mut ys: Vec<Value> = xs.iter().map(canon).collect();
            if ys.iter().all(|y| y.get("key").is_some()) {
                ys.sort_by_key(|y| y["key"].to_string());
            }
            Value::Array(ys)
        }
        Value::Object(m) => Value::Object(m.iter().map(|(k, v)| (k.clone(), canon(v))).collect()),
        _ => v.clone(),
    }
}

fn pick<'a, T>(rng: &mut StdRng, xs: &'a [T]) -> &'a T {
    &xs[rng.random_range(0..xs.len())]
}

fn gen_doc(rng: &mut StdRng, id: u64) -> Value {
    let mut d = serde_json::Map::new();
    d.insert("id".into(), json!(id));
    d.insert("cat".into(), json!(*pick(rng, &["red", "green", "blue", "grey"])));
    d.insert("n".into(), json!(rng.random_range(-3i64..12)));
    d.insert("fv".into(), json!(rng.random_range(-4i64..12) as f64 * 0.5));
    d.insert("small".into(), json!(rng.random_range(0u64..5)));
    if rng.random_bool(0.7) {
        d.insert("i".into(), json!(rng.random_range(-5i64..6)));
    }
    if rng.random_bool(0.7) {
        d.insert("u".into(), json!(rng.random_range(0u64..7)));
    }
    if rng.random_bool(0.7) {
        d.insert("f".into(), json!(*pick(rng, &[-1.5, 0.0, 0.5, 1.0, 2.5, 10.0, 7.25])));
    }
    if rng.random_bool(0.6) {
        d.insert("b".into(), json!(rng.random_bool(0.5)));
    }
    if rng.random_bool(0.7) {
        d.insert(
            "d".into(),
            json!(*pick(
                rng,
                &[
                    "2020-01-01T00:00:00Z",
                    "2020-01-01T23:59:59.999Z",
                    "2020-01-02T00:00:00Z",
                    "2020-01-05T12:00:00Z",
                    "2020-02-01T00:00:00Z",
                    "2021-03-01T06:00:00Z",
                ]
            )),
        );
    }
    if rng.random_bool(0.6) {
        d.insert("ip".into(), json!(*pick(rng, &["10.0.0.1", "10.0.0.2", "192.168.1.1", "::1"])));
    }
    if rng.random_bool(0.7) {
        d.insert("s".into(), json!(*pick(rng, &["a", "b", "c", "d", "e", "f"])));
    }
    if rng.random_bool(0.8) {
        d.insert("hs".into(), json!(format!("t{}", rng.random_range(0..40))));
    }
    let mut j = serde_json::Map::new();
    if rng.random_bool(0.6) {
        j.insert("k".into(), json!(rng.random_range(0i64..5)));
    }
    if rng.random_bool(0.6) {
        j.insert("t".into(), json!(*pick(rng, &["x", "y", "z"])));
    }
    d.insert("j".into(), Value::Object(j));
    Value::Object(d)
}

fn num_field(rng: &mut StdRng) -> &'static str {
    *pick(rng, &["n", "fv", "small", "i", "u", "f", "j.k", "id"])
}

fn gen_metric(rng: &mut StdRng) -> Value {
    let field = num_field(rng);
    let kind = *pick(
        rng,
        &["sum", "avg", "min", "max", "stats", "extended_stats", "value_count", "percentiles", "cardinality"],
    );
    let mut body = json!({"field": field});
    if rng.random_bool(0.3) && !field.starts_with("j.") {
        body["missing"] = match field {
            "fv" | "f" => json!(2.5),
            "i" | "n" => json!(-2),
            _ => json!(3),
        };
        if kind == "cardinality" {
            body["missing"] = match field {
                "fv" | "f" => json!(2.5),
                "i" | "n" => json!(-2),
                _ => json!(3),
            };
        }
    }
    json!({ kind: body })
}

fn gen_metrics(rng: &mut StdRng) -> Value {
    let mut m = serde_json::Map::new();
    let n = rng.random_range(0..3);
    for i in 0..n {
        m.insert(format!("m{i}"), gen_metric(rng));
    }
    Value::Object(m)
}

fn gen_bucket(rng: &mut StdRng, depth: usize, key_mode: bool) -> Value {
    let mut kind = rng.random_range(0..7);
    if kind == 5 && depth < 2 { kind = 0; }
    if kind == 6 && key_mode { kind = 1; }
    let mut agg = match kind {
        0 => {
            // terms
            let field = *pick(rng, &["cat", "s", "hs", "small", "n", "i", "u", "b", "ip", "j.k", "j.t", "f"]);
            let mut body = json!({"field": field});
            if rng.random_bool(0.3) {
                body["min_doc_count"] = json!(rng.random_range(0..4));
            }
            match (if key_mode { 0 } else { rng.random_range(1..3) }) {
                0 | 3 => {
                    body["order"] = json!({"_key": *pick(rng, &["asc", "desc"])});
                    if rng.random_bool(0.5) {
                        body["size"] = json!(rng.random_range(1..6));
                    }
                    if rng.random_bool(0.3) {
                        body["segment_size"] = json!(rng.random_range(1..8));
                    }
                }
                1 => {
                    body["order"] = json!({"_count": *pick(rng, &["asc", "desc"])});
                    body["size"] = json!(100);
                }
                _ => {
                    body["size"] = json!(100);
                }
            }
            json!({"terms": body})
        }
        1 => {
            let field = num_field(rng);
            let mut body = json!({"field": field, "interval": *pick(rng, &[1.0, 2.0, 0.5, 3.0, 2.5])});
            if rng.random_bool(0.3) {
                body["offset"] = json!(*pick(rng, &[0.5, 1.0, 0.25]));
            }
            if rng.random_bool(0.2) {
                body["min_doc_count"] = json!(rng.random_range(0..3));
            }
            if rng.random_bool(0.2) {
                body["hard_bounds"] = json!({"min": 0.0, "max": 5.0});
            }
            if rng.random_bool(0.2) {
                body["extended_bounds"] = json!({"min": -2.0, "max": 8.0});
            }
            json!({"histogram": body})
        }
        2 => {
            let mut field = num_field(rng);
            if field == "j.k" { field = "u"; }
            json!({"range": {"field": field, "ranges": [
                {"to": 0.0}, {"from": 0.0, "to": 2.5}, {"from": 2.5, "to": 5.0}, {"from": 5.0}
            ]}})
        }
        3 => {
            let body = json!({"field": "d", "fixed_interval": *pick(rng, &["1d", "12h", "30d"])});
            json!({"date_histogram": body})
        }
        4 => {
            let q = *pick(rng, &["cat:red", "s:a", "n:[0 TO 5]", "b:true", "*", "hs:t1 OR hs:t2 OR cat:blue", "j.t:x"]);
            json!({"filter": {"query_string": q}})
        }
        5 => {
            // composite
            let nsrc = rng.random_range(1..3);
            let mut sources = vec![];
            for k in 0..nsrc {
                let name = format!("s{k}");
                let src = match rng.random_range(0..3) {
                    0 => {
                        let field = *pick(rng, &["cat", "s", "small", "n", "i", "b", "ip", "j.k", "j.t", "f", "hs"]);
                        let mut b = json!({"field": field});
                        if rng.random_bool(0.5) {
                            b["order"] = json!(*pick(rng, &["asc", "desc"]));
                        }
                        if rng.random_bool(0.5) {
                            b["missing_bucket"] = json!(true);
                            if rng.random_bool(0.5) {
                                b["missing_order"] = json!(*pick(rng, &["first", "last", "default"]));
                            }
                        }
                        json!({"terms": b})
                    }
                    1 => {
                        let field = *pick(rng, &["n", "fv", "small", "u", "f", "j.k"]);
                        let mut b = json!({"field": field, "interval": *pick(rng, &[1.0, 2.0, 3.0])});
                        if rng.random_bool(0.5) {
                            b["order"] = json!(*pick(rng, &["asc", "desc"]));
                        }
                        if rng.random_bool(0.5) {
                            b["missing_bucket"] = json!(true);
                        }
                        json!({"histogram": b})
                    }
                    _ => {
                        let mut b = json!({"field": "d", "fixed_interval": *pick(rng, &["1d", "30d"])});
                        if rng.random_bool(0.5) {
                            b["order"] = json!(*pick(rng, &["asc", "desc"]));
                        }
                        if rng.random_bool(0.5) {
                            b["missing_bucket"] = json!(true);
                        }
                        json!({"date_histogram": b})
                    }
                };
                sources.push(json!({ name: src }));
            }
            json!({"composite": {"size": rng.random_range(1..50), "sources": sources}})
        }
        _ => {
            // terms (fused candidates) with histogram child
            let field = *pick(rng, &["cat", "small"]);
            return json!({"terms": {"field": field, "size": 100}, "aggs": {"h": {"histogram": {
                "field": *pick(rng, &["n", "fv", "small"]), "interval": *pick(rng, &[1.0, 2.0, 0.5])}}}});
        }
    };
    let mut subs = gen_metrics(rng);
    if depth > 0 && rng.random_bool(0.6) {
        subs["b"] = gen_bucket(rng, depth - 1, key_mode);
    }
    if rng.random_bool(0.2) {
        subs["th"] = json!({"top_hits": {"size": rng.random_range(1..4), "sort": [{"id": *pick(rng, &["asc", "desc"])}],
            "docvalue_fields": ["id", *pick(rng, &["s", "i", "cat"])]}});
    }
    // order by sub agg
    if !key_mode && agg.get("terms").is_some() && agg["terms"].get("order").is_none() && rng.random_bool(0.5) {
        subs["ord"] = json!({ *pick(rng, &["sum", "avg", "max", "min"]): {"field": *pick(rng, &["n", "fv", "id"])}});
        agg["terms"]["order"] = json!({"ord": *pick(rng, &["asc", "desc"])});
    }
    if !subs.as_object().unwrap().is_empty() {
        agg["aggs"] = subs;
    }
    agg
}

fn gen_req(rng: &mut StdRng) -> Value {
    let mut m = serde_json::Map::new();
    if rng.random_bool(0.3) {
        m.insert("top".into(), gen_metric(rng));
    }
    let key_mode = rng.random_bool(0.6);
    m.insert("agg".into(), gen_bucket(rng, 2, key_mode));
    Value::Object(m)
}

fn random_partition(rng: &mut StdRng, docs: &[Value]) -> Vec<Vec<Value>> {
    let k = rng.random_range(2..5);
    let mut parts = vec![vec![]; k];
    if rng.random_bool(0.5) {
        // contiguous
        let mut cuts: Vec<usize> = (0..k - 1).map(|_| rng.random_range(0..=docs.len())).collect();
        cuts.sort();
        let mut p = 0;
        for (i, d) in docs.iter().enumerate() {
            while p < cuts.len() && i >= cuts[p] {
                p += 1;
            }
            parts[p].push(d.clone());
        }
    } else {
        for d in docs {
            parts[rng.random_range(0..k)].push(d.clone());
        }
    }
    parts.retain(|p| !p.is_empty());
    parts
}

#[test]
fn fuzz() {
    let seed: u64 = std::env::var("SEED").ok().and_then(|s| s.parse().ok()).unwrap_or(1);
    let iters: u64 = std::env::var("ITERS").ok().and_then(|s| s.parse().ok()).unwrap_or(200);
    let mut failures = 0;
    for it in 0..iters {
        let mut rng = StdRng::seed_from_u64(seed * 1_000_003 + it);
        let ndocs = rng.random_range(5..60);
        let docs: Vec<Value> = (0..ndocs).map(|i| gen_doc(&mut rng, i as u64)).collect();
        let one = build(&[docs.clone()]);
        let parts = random_partition(&mut rng, &docs);
        let multi = build(&parts);
        let separate: Vec<Index> = parts.iter().map(|p| build(&[p.clone()])).collect();
        for _ in 0..6 {
            let req = gen_req(&mut rng);
            let q = if rng.random_bool(0.3) {
                let lo = rng.random_range(0..ndocs);
                Some(format!("id:[{} TO {}]", lo, lo + rng.random_range(0..ndocs)))
            } else {
                None
            };
            let r1 = run(&one, &req, &q);
            let r2 = run(&multi, &req, &q);
            let r3 = run_distributed(&separate, &req, &q);
            let same12 = match (&r1, &r2) {
                (Ok(a), Ok(b)) => approx(a, b, 1e-9),
                (Err(a), Err(b)) => a == b,
                _ => false,
            };
            let same23 = match (&r2, &r3) {
                (Ok(a), Ok(b)) => approx(a, b, 1e-9),
                (Err(a), Err(b)) => a == b,
                _ => false,
            };
            let panicked = matches!(&r1, Err(e) if e == "PANIC");
            if !same12 || !same23 || panicked {
                let c12 = match (&r1, &r2) {
                    (Ok(a), Ok(b)) => approx(&canon(a), &canon(b), 1e-9),
                    _ => same12,
                };
                let c23 = match (&r2, &r3) {
                    (Ok(a), Ok(b)) => approx(&canon(a), &canon(b), 1e-9),
                    _ => same23,
                };
                let order_only = c12 && c23 && !panicked;
                if order_only && !req.to_string().contains("_key") {
                    continue;
                }
                failures += 1;
                println!("=== MISMATCH order_only={order_only} seed={seed} it={it} q={q:?} sizes={:?}", parts.iter().map(|p| p.len()).collect::<Vec<_>>());
                println!("req: {req}");
                let show = |r: &Result<Value, String>| match r {
                    Ok(v) => v.to_string(),
                    Err(e) => e.clone(),
                };
                if std::env::var("FULL").is_ok() {
                    println!("one  : {}", show(&r1));
                    if !same12 {
                        println!("multi: {}", show(&r2));
                    }
                    if !same23 {
                        println!("dist : {}", show(&r3));
                    }
                }
                match (&r1, &r2, &r3) {
                    (Ok(a), Ok(b), Ok(c)) => {
                        println!("diff one/multi: {:?}", first_diff(a, b, String::new()));
                        println!("diff multi/dist: {:?}", first_diff(b, c, String::new()));
                    }
                    _ => println!("status: one={} multi={} dist={}", r1.is_ok() as u8, r2.is_ok() as u8, r3.is_ok() as u8),
                }
                for r in [&r1, &r2, &r3] {
                    if let Err(e) = r {
                        println!("err: {}", &e[..e.len().min(300)]);
                    }
                }
            }
        }
    }
    assert_eq!(failures, 0);
}

fn gen_sources(rng: &mut StdRng) -> Value {
    let nsrc = rng.random_range(1..4);
    let mut sources = vec![];
    for k in 0..nsrc {
        let name = format!("s{k}");
        let src = match rng.random_range(0..4) {
            0 | 1 => {
                let field = *pick(rng, &["cat", "s", "small", "n", "i", "b", "ip", "j.k", "j.t", "f", "u", "d"]);
                let mut b = json!({"field": field});
                if rng.random_bool(0.5) {
                    b["order"] = json!(*pick(rng, &["asc", "desc"]));
                }
                if rng.random_bool(0.6) {
                    b["missing_bucket"] = json!(true);
                    if rng.random_bool(0.6) {
                        b["missing_order"] = json!(*pick(rng, &["first", "last", "default"]));
                    }
                }
                json!({"terms": b})
            }
            2 => {
                let field = *pick(rng, &["n", "fv", "small", "u", "f", "j.k", "i"]);
                let mut b = json!({"field": field, "interval": *pick(rng, &[1.0, 2.0, 3.0])});
                if rng.random_bool(0.5) {
                    b["order"] = json!(*pick(rng, &["asc", "desc"]));
                }
                if rng.random_bool(0.6) {
                    b["missing_bucket"] = json!(true);
                    if rng.random_bool(0.6) {
                        b["missing_order"] = json!(*pick(rng, &["first", "last", "default"]));
                    }
                }
                json!({"histogram": b})
            }
            _ => {
                let mut b = json!({"field": "d", "fixed_interval": *pick(rng, &["1d", "30d"])});
                if rng.random_bool(0.5) {
                    b["order"] = json!(*pick(rng, &["asc", "desc"]));
                }
                if rng.random_bool(0.6) {
                    b["missing_bucket"] = json!(true);
                    if rng.random_bool(0.6) {
                        b["missing_order"] = json!(*pick(rng, &["first", "last", "default"]));
                    }
                }
                json!({"date_histogram": b})
            }
        };
        sources.push(json!({ name: src }));
    }
    Value::Array(sources)
}

fn pages(index: &Index, sources: &Value, size: u32) -> Result<Vec<Value>, String> {
    let mut paged = vec![];
    let mut after: Option<Value> = None;
    for _ in 0..2000 {
        let mut comp = json!({"size": size, "sources": sources});
        if let Some(a) = &after {
            comp["after"] = a.clone();
        }
        let r = run(index, &json!({"c": {"composite": comp}}), &None)?;
        let b = r["c"]["buckets"].as_array().unwrap().clone();
        if b.is_empty() {
            return Ok(paged);
        }
        paged.extend(b);
        after = Some(r["c"]["after_key"].clone());
    }
    Err("too many pages".into())
}

#[test]
fn fuzz_composite_paging() {
    let seed: u64 = std::env::var("SEED").ok().and_then(|s| s.parse().ok()).unwrap_or(1);
    let iters: u64 = std::env::var("ITERS").ok().and_then(|s| s.parse().ok()).unwrap_or(100);
    let mut failures = 0;
    for it in 0..iters {
        let mut rng = StdRng::seed_from_u64(seed * 7_000_003 + it);
        let ndocs = rng.random_range(5..40);
        let docs: Vec<Value> = (0..ndocs).map(|i| gen_doc(&mut rng, i as u64)).collect();
        let one = build(&[docs.clone()]);
        let parts = random_partition(&mut rng, &docs);
        let multi = build(&parts);
        for _ in 0..4 {
            let sources = gen_sources(&mut rng);
            let size = rng.random_range(1..6);
            let full1 = pages(&one, &sources, 5000);
            let fullm = pages(&multi, &sources, 5000);
            let paged1 = pages(&one, &sources, size);
            let pagedm = pages(&multi, &sources, size);
            let ok = full1.is_ok() && full1 == fullm && full1 == paged1 && full1 == pagedm;
            if !ok {
                failures += 1;
                println!("=== COMPOSITE MISMATCH seed={seed} it={it} size={size} sources={sources}");
                let show = |name: &str, r: &Result<Vec<Value>, String>| match r {
                    Ok(v) => println!("{name}: {} buckets: {}", v.len(), v.iter().map(|b| format!("{}x{}", b["key"], b["doc_count"])).collect::<Vec<_>>().join(" ")),
                    Err(e) => println!("{name}: {}", &e[..e.len().min(300)]),
                };
                show("full one ", &full1);
                if fullm != full1 { show("full multi", &fullm); }
                if paged1 != full1 { show("paged one", &paged1); }
                if pagedm != full1 { show("paged multi", &pagedm); }
            }
        }
    }
    assert_eq!(failures, 0);
}
