// C14 demos: terms (min_doc_count 0 nested, _count ties) and range (fractional bounds, JSON path).
#[path = "c14_common/mod.rs"]
mod common;
use common::*;
use serde_json::{json, Value};

/// D13: a terms aggregation with `min_doc_count: 0` used as a sub-aggregation: the zero-count
/// buckets come from the dictionaries of the segments in which the *parent bucket* received a
/// document. One segment: every parent bucket lists a, b, c. Two segments: u=1 lists a, b only.
#[test]
fn d13_nested_terms_min_doc_count_zero_depends_on_partition() {
    let docs = vec![
        json!({"id": 1, "u": 1, "s": "a"}),
        json!({"id": 2, "u": 1, "s": "b"}),
        json!({"id": 3, "u": 2, "s": "c"}),
    ];
    let req = json!({"t": {"terms": {"field": "u", "order": {"_key": "asc"}},
        "aggs": {"s": {"terms": {"field": "s", "min_doc_count": 0, "order": {"_key": "asc"}}}}}});
    let parts = vec![docs[..2].to_vec(), docs[2..].to_vec()];
    let one = run(&build(&[docs.clone()]), &req).unwrap();
    let two = run(&build(&parts), &req).unwrap();
    let dist = run_distributed(&parts, &req).unwrap();
    println!("one segment : {one}\ntwo segments: {two}\ndistributed : {dist}");
    assert_eq!(two, one, "buckets depend on the partition");
    assert_eq!(dist, one);
}

/// D14: order by `_count` (the default) with ties and a `size` cut: the *set* of returned terms
/// depends on the partition (ties are broken by hash map iteration order).
/// 3 terms x 3 documents, size 2.
#[test]
fn d14_terms_count_ties_with_size_cut_depend_on_partition() {
    let n = 3;
    let docs: Vec<Value> = (0..3 * n)
        .map(|i| json!({"id": i, "s": format!("term{}", i % n)}))
        .collect();
    let req = json!({"t": {"terms": {"field": "s", "size": 2}}});
    let keys = |r: &Value| -> Vec<String> {
        let mut k: Vec<String> = r["t"]["buckets"]
            .as_array()
            .unwrap()
            .iter()
            .map(|b| b["key"].as_str().unwrap().to_string())
            .collect();
        k.sort();
        k
    };
    let one = keys(&run(&build(&[docs.clone()]), &req).unwrap());
    println!("one segment: {one:?}");
    let mut differing = vec![];
    // a few deterministic partitions
    for modulus in [2usize, 3, 4, 5] {
        for shift in 0..modulus {
            let mut parts = vec![vec![]; modulus];
            for (i, d) in docs.iter().enumerate() {
                parts[(i / 2 + shift) % modulus].push(d.clone());
            }
            let got = keys(&run(&build(&parts), &req).unwrap());
            if got != one {
                println!("partition (i/2+{shift})%{modulus}: {got:?}");
                differing.push((modulus, shift));
            }
        }
    }
    assert!(differing.is_empty(), "returned terms depend on the partition: {differing:?}");
}

/// D15: range bounds are truncated to the integer type of the column: [0, 2.5) becomes [0, 2) and
/// [2.5, 5) becomes [2, 5). The value 2 lands in the wrong bucket and the response shows other
/// bounds than the request.
#[test]
fn d15_range_fractional_bounds_on_integer_column() {
    let docs = vec![json!({"id": 1, "i": 2}), json!({"id": 2, "i": 3})];
    let req = json!({"r": {"range": {"field": "i", "ranges": [
        {"from": 0.0, "to": 2.5}, {"from": 2.5, "to": 5.0}]}}});
    let one = run(&build(&[docs.clone()]), &req).unwrap();
    println!("{one}");
    let buckets = one["r"]["buckets"].as_array().unwrap();
    let b = buckets.iter().find(|b| b["from"] == json!(0.0)).unwrap();
    assert_eq!(b["doc_count"], json!(1), "the value 2 is in [0, 2.5)");
    assert_eq!(b["to"], json!(2.5));
}

/// D16: range on a JSON number path: in a segment where no document has the path the ranges are
/// built for a u64 fallback column, where `from: 0` is rendered as "*": the bucket `0-2` of that
/// segment is called `*-2` and is not merged with the others. (Sibling of the known defect on
/// JSON *date* paths, which is repaired; numeric paths still show it.)
#[test]
fn d16_range_on_json_number_path_depends_on_partition() {
    let docs = vec![
        json!({"id": 1, "j": {"k": 1}}),
        json!({"id": 2, "j": {"k": 3}}),
        json!({"id": 3, "j": {"other": 1}}),
    ];
    let req = json!({"r": {"range": {"field": "j.k", "ranges": [
        {"from": 0.0, "to": 2.0}, {"from": 2.0, "to": 5.0}]}}});
    let parts = vec![docs[..2].to_vec(), docs[2..].to_vec()];
    let one = run(&build(&[docs.clone()]), &req).unwrap();
    let two = run(&build(&parts), &req).unwrap();
    println!("one segment : {one}\ntwo segments: {two}");
    assert_eq!(one["r"]["buckets"].as_array().unwrap().len(), 4);
    assert_eq!(two, one, "buckets depend on the partition");
}
