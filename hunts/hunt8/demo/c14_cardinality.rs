// C14 demos: cardinality aggregation (HLL merge across segments). All corpora are tiny, the HLL
// sketch is exact for them: every expected value below is an exact distinct count.
#[path = "c14_common/mod.rs"]
mod common;
use common::*;
use serde_json::json;

/// D3: j.x holds 1, 2 (integers) and 1.5, 2 (the second pair in another segment is a float
/// column). Distinct values: {1, 1.5, 2} = 3.
#[test]
fn d3_cardinality_json_path_mixing_i64_and_f64_across_segments() {
    let docs = vec![
        json!({"id": 1, "j": {"x": 1}}),
        json!({"id": 2, "j": {"x": 2}}),
        json!({"id": 3, "j": {"x": 1.5}}),
        json!({"id": 4, "j": {"x": 2}}),
    ];
    let req = json!({"c": {"cardinality": {"field": "j.x"}}});
    let parts = vec![docs[..2].to_vec(), docs[2..].to_vec()];
    let one = run(&build(&[docs.clone()]), &req).unwrap();
    let two = run(&build(&parts), &req).unwrap();
    let dist = run_distributed(&parts, &req).unwrap();
    println!("one segment : {one}\ntwo segments: {two}\ndistributed : {dist}");
    assert_eq!(one["c"]["value"], json!(3.0));
    assert_eq!(two, one, "the value 2 is counted twice: once as i64, once as f64");
    assert_eq!(dist, one);
}

/// D4: string `missing`. Values "a", "b" and two documents without value, `missing: "zzz"`:
/// distinct {a, b, zzz} = 3. When the documents without value sit in a segment that has no str
/// column for the path, the missing value is not counted at all.
#[test]
fn d4_cardinality_str_missing_lost_in_segment_without_column() {
    let docs = vec![
        json!({"id": 1, "j": {"x": "a"}}),
        json!({"id": 2, "j": {"x": "b"}}),
        json!({"id": 3, "j": {"y": 1}}),
        json!({"id": 4, "j": {"y": 1}}),
    ];
    let req = json!({"c": {"cardinality": {"field": "j.x", "missing": "zzz"}}});
    let parts = vec![docs[..2].to_vec(), docs[2..].to_vec()];
    let one = run(&build(&[docs.clone()]), &req).unwrap();
    let two = run(&build(&parts), &req).unwrap();
    let dist = run_distributed(&parts, &req).unwrap();
    println!("one segment : {one}\ntwo segments: {two}\ndistributed : {dist}");
    assert_eq!(one["c"]["value"], json!(3.0));
    assert_eq!(two, one, "the missing value is dropped");
    assert_eq!(dist, one);
}

/// D5: numeric `missing` equal to an existing value. j.x in {5.5, 6.0}, `missing: 6` -> distinct
/// {5.5, 6} = 2; j.u in {5, 6}, `missing: 6.0` -> 2. In the segment without column the missing
/// value is hashed with the type of the JSON literal of the request, not the type of the column.
#[test]
fn d5_cardinality_numeric_missing_hashed_with_literal_type() {
    let docs = vec![
        json!({"id": 1, "j": {"x": 5.5, "u": 5}}),
        json!({"id": 2, "j": {"x": 6.0, "u": 6}}),
        json!({"id": 3, "j": {"y": 1}}),
        json!({"id": 4, "j": {"y": 1}}),
    ];
    let req = json!({
        "cx": {"cardinality": {"field": "j.x", "missing": 6}},
        "cu": {"cardinality": {"field": "j.u", "missing": 6.0}},
    });
    let one = run(&build(&[docs.clone()]), &req).unwrap();
    let two = run(&build(&[docs[..2].to_vec(), docs[2..].to_vec()]), &req).unwrap();
    println!("one segment : {one}\ntwo segments: {two}");
    assert_eq!(one["cx"]["value"], json!(2.0));
    assert_eq!(one["cu"]["value"], json!(2.0));
    assert_eq!(two, one);
}
