// C14 demos: composite aggregation.
#[path = "c14_common/mod.rs"]
mod common;
use common::*;
use serde_json::{json, Value};

/// D9: date_histogram source: `(value_ns / interval_ns) * interval_ns` truncates towards zero,
/// dates before 1970 land in the bucket *after* them. 1969-12-31T23:00 belongs to the day
/// 1969-12-31 (key -86400000 ms), 1970-01-01T01:00 to the day 1970-01-01. The plain
/// date_histogram aggregation (same request) gets it right.
#[test]
fn d9_composite_date_histogram_source_before_epoch() {
    let docs = vec![
        json!({"id": 1, "d": "1969-12-31T23:00:00Z"}),
        json!({"id": 2, "d": "1970-01-01T01:00:00Z"}),
    ];
    let req = json!({
        "c": {"composite": {"size": 10, "sources": [
            {"day": {"date_histogram": {"field": "d", "fixed_interval": "1d"}}}
        ]}},
        "h": {"date_histogram": {"field": "d", "fixed_interval": "1d"}},
    });
    let one = run(&build(&[docs.clone()]), &req).unwrap();
    println!("{one}");
    assert_eq!(one["h"]["buckets"].as_array().unwrap().len(), 2);
    assert_eq!(
        one["c"]["buckets"].as_array().unwrap().len(),
        2,
        "two documents on two different days must give two composite buckets"
    );
}

fn all_pages(index: &tantivy::Index, sources: Value, size: u32) -> Vec<Value> {
    let mut paged = vec![];
    let mut after: Option<Value> = None;
    for _ in 0..1000 {
        let mut comp = json!({"size": size, "sources": sources});
        if let Some(a) = &after {
            comp["after"] = a.clone();
        }
        let r = run(index, &json!({"c": {"composite": comp}})).unwrap();
        let b = r["c"]["buckets"].as_array().unwrap().clone();
        if b.is_empty() {
            break;
        }
        paged.extend(b);
        after = Some(r["c"]["after_key"].clone());
    }
    paged
}

/// D10: paging through [histogram(interval 0.1), terms] with the returned after_key loses buckets:
/// the after key of the histogram source is `bucket_index * interval` and is mapped back with
/// `key / interval`, which is not the same integer for 3 * 0.1 or 6 * 0.1.
#[test]
fn d10_composite_histogram_source_paging_loses_buckets() {
    let mut docs = vec![];
    let mut id = 0;
    for v in [0.05, 0.15, 0.25, 0.35, 0.45, 0.55, 0.65, 0.75] {
        for s in ["a", "b", "c"] {
            id += 1;
            docs.push(json!({"id": id, "f": v, "s": s}));
        }
    }
    let index = build(&[docs.clone()]);
    let sources = json!([
        {"h": {"histogram": {"field": "f", "interval": 0.1}}},
        {"s": {"terms": {"field": "s"}}}
    ]);
    let all = all_pages(&index, sources.clone(), 100);
    assert_eq!(all.len(), 24); // 8 histogram buckets x 3 terms, one document each
    let paged = all_pages(&index, sources, 2);
    let keys = |v: &[Value]| v.iter().map(|b| b["key"].to_string()).collect::<Vec<_>>();
    println!("all  : {:?}\npaged: {:?}", keys(&all), keys(&paged));
    assert_eq!(paged, all, "pages of size 2 do not add up to the full result");
}

/// D11: a document with two values in the same bucket of a histogram source is counted twice
/// (doc_count counts values), and is pushed twice to the sub-aggregations: in a debug build the
/// block accessor asserts ("fetch_block requires docs sorted ascending without duplicates"), in a
/// release build the metric of the document is added twice.
/// Direct computation: bucket 0 holds 2 documents, sum(f) = 11.
#[test]
fn d11_composite_counts_values_of_multivalued_documents() {
    let docs = vec![
        json!({"id": 1, "i": [1, 2], "f": 10.0}),
        json!({"id": 2, "i": [3], "f": 1.0}),
    ];
    let index = build(&[docs.clone()]);
    let sources = json!([{"h": {"histogram": {"field": "i", "interval": 10}}}]);
    let plain = run(&index, &json!({"c": {"composite": {"size": 10, "sources": sources}}}));
    println!("without sub-aggregation: {plain:?}");
    let with_sub = run(
        &index,
        &json!({"c": {"composite": {"size": 10, "sources": sources},
                      "aggs": {"sum": {"sum": {"field": "f"}}}}}),
    );
    println!("with sub-aggregation   : {with_sub:?}");
    let plain = plain.unwrap();
    assert_eq!(plain["c"]["buckets"][0]["doc_count"], json!(2), "doc_count counts values");
    let with_sub = with_sub.expect("sub-aggregation under composite must not fail");
    assert_eq!(with_sub["c"]["buckets"][0]["sum"]["value"], json!(11.0));
}

/// D12: composite as a sub-aggregation: when a parent bucket did not receive any document in a
/// segment, `SegmentCompositeCollector::add_intermediate_bucket_result` indexes `parent_buckets`
/// out of bounds. With both documents in one segment every range bucket has a document and the
/// request works; with one document per segment it panics.
#[test]
fn d12_composite_under_bucket_aggregation_panics_on_empty_parent_bucket() {
    let docs = vec![
        json!({"id": 1, "i": 1, "s": "a"}),
        json!({"id": 2, "i": 7, "s": "b"}),
    ];
    let req = json!({"r": {"range": {"field": "i", "ranges": [{"to": 5.0}, {"from": 5.0}]},
        "aggs": {"c": {"composite": {"size": 10, "sources": [{"s": {"terms": {"field": "s"}}}]}}}}});
    let one = run(&build(&[docs.clone()]), &req);
    let two = run(&build(&[docs[..1].to_vec(), docs[1..].to_vec()]), &req);
    println!("one segment : {one:?}\ntwo segments: {two:?}");
    assert!(one.is_ok());
    assert_eq!(two, one, "the result depends on the partition");
}

/// D17: paging never ends. Source with `missing_bucket: true` and `order: desc` (missing bucket
/// last): the page after the `null` bucket must be empty, but the `null` after key makes the
/// collection restart from the first bucket, so a client following `after_key` loops forever
/// and sees every bucket again. Happens for histogram and date_histogram sources (the terms
/// source handles it).
#[test]
fn d17_composite_paging_restarts_after_null_key() {
    let docs = vec![
        json!({"id": 1, "d": "2020-01-01T00:00:00Z", "u": 1}),
        json!({"id": 2, "d": "2020-03-01T00:00:00Z", "u": 2}),
        json!({"id": 3}),
    ];
    let index = build(&[docs.clone()]);
    let mut wrong = vec![];
    for sources in [
        json!([{"s0": {"date_histogram": {"field": "d", "fixed_interval": "30d", "missing_bucket": true, "order": "desc"}}}]),
        json!([{"s0": {"histogram": {"field": "u", "interval": 1, "missing_bucket": true, "order": "desc"}}}]),
        json!([{"s0": {"terms": {"field": "u", "missing_bucket": true, "order": "desc"}}}]),
    ] {
        let all = all_pages(&index, sources.clone(), 100);
        // `all_pages` gives up after 1000 requests
        let keys: Vec<String> = all.iter().take(8).map(|b| b["key"].to_string()).collect();
        println!("sources = {sources}\n  {} buckets over all pages, first ones: {keys:?}", all.len());
        if all.len() != 3 {
            wrong.push(sources.to_string());
        }
    }
    assert!(wrong.is_empty(), "3 buckets expected (2 values + null), paging loops for {wrong:?}");
}
