// C14 demos: metric aggregations on JSON paths.
//
// D1: `missing` of sum / avg / min / max / stats / extended_stats / percentiles is converted with
//     the type of a *fallback* column (u64) in a segment where no document has the JSON path.
// D2: value_count on a JSON path that holds several value types only counts one of the columns.
#[path = "c14_common/mod.rs"]
mod common;
use common::*;
use serde_json::json;

/// Corpus: j.x = 10, j.x = -20, and two documents without j.x. `missing: -5`.
/// Direct computation: values {10, -20, -5, -5}: sum -20, min -20, max 10, avg -5, count 4.
#[test]
fn d1_metric_missing_on_json_path_depends_on_partition() {
    let docs = vec![
        json!({"id": 1, "j": {"x": 10}}),
        json!({"id": 2, "j": {"x": -20}}),
        json!({"id": 3, "j": {"y": 1}}),
        json!({"id": 4, "j": {"y": 1}}),
    ];
    let req = json!({
        "sum": {"sum": {"field": "j.x", "missing": -5}},
        "avg": {"avg": {"field": "j.x", "missing": -5}},
        "stats": {"stats": {"field": "j.x", "missing": -5}},
        "es": {"extended_stats": {"field": "j.x", "missing": -5}},
        "pc": {"percentiles": {"field": "j.x", "missing": -5, "percents": [50.0]}},
    });
    let one = run(&build(&[docs.clone()]), &req).unwrap();
    let parts = vec![docs[..2].to_vec(), docs[2..].to_vec()];
    let two = run(&build(&parts), &req).unwrap();
    let dist = run_distributed(&parts, &req).unwrap();
    println!("one segment : {one}\ntwo segments: {two}\ndistributed : {dist}");
    // the single segment agrees with the direct computation
    assert_eq!(one["sum"]["value"], json!(-20.0));
    assert_eq!(one["stats"]["avg"], json!(-5.0));
    // ... the partitioned index does not: the two documents without value count as 0, not -5
    assert_eq!(two["sum"], one["sum"], "sum depends on the partition");
    assert_eq!(two["avg"], one["avg"], "avg depends on the partition");
    assert_eq!(two["stats"], one["stats"], "stats depends on the partition");
    assert_eq!(dist["sum"], one["sum"], "sum depends on the partition (distributed)");
}

/// Same with a fractional `missing` on a float path: 2.5 becomes 2 in the segment without column.
#[test]
fn d1b_fractional_missing_is_truncated_in_segment_without_column() {
    let docs = vec![
        json!({"id": 1, "j": {"x": 10.5}}),
        json!({"id": 2, "j": {"x": 20.5}}),
        json!({"id": 3, "j": {"y": 1}}),
        json!({"id": 4, "j": {"y": 1}}),
    ];
    let req = json!({"sum": {"sum": {"field": "j.x", "missing": 2.5}}});
    let one = run(&build(&[docs.clone()]), &req).unwrap();
    let two = run(&build(&[docs[..2].to_vec(), docs[2..].to_vec()]), &req).unwrap();
    println!("one segment : {one}\ntwo segments: {two}");
    assert_eq!(one["sum"]["value"], json!(36.0)); // 10.5 + 20.5 + 2.5 + 2.5
    assert_eq!(two, one);
}

/// Three documents, each with one value at j.x: "a", 5, true. value_count must be 3.
#[test]
fn d2_value_count_on_json_path_with_several_types() {
    let docs = vec![
        json!({"id": 1, "j": {"x": "a"}}),
        json!({"id": 2, "j": {"x": 5}}),
        json!({"id": 3, "j": {"x": true}}),
    ];
    let req = json!({"vc": {"value_count": {"field": "j.x"}}});
    let one = run(&build(&[docs.clone()]), &req).unwrap();
    let three = run(
        &build(&[docs[..1].to_vec(), docs[1..2].to_vec(), docs[2..].to_vec()]),
        &req,
    )
    .unwrap();
    println!("one segment   : {one}\nthree segments: {three}");
    assert_eq!(three["vc"]["value"], json!(3.0));
    assert_eq!(one, three, "value_count depends on the partition");
}
