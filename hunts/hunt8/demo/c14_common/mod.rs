// Shared helpers for the C14 demos: build an index whose segments are exactly a given
// partition of the corpus, run an aggregation request, run it "distributed" (one index per part,
// intermediate results serialised with postcard, then merged).
#![allow(dead_code)]
use serde_json::Value;
use tantivy::aggregation::agg_req::Aggregations;
use tantivy::aggregation::agg_result::AggregationResults;
use tantivy::aggregation::intermediate_agg_result::IntermediateAggregationResults;
use tantivy::aggregation::{AggregationCollector, DistributedAggregationCollector};
use tantivy::indexer::NoMergePolicy;
use tantivy::query::AllQuery;
use tantivy::schema::{Schema, FAST, INDEXED, STRING};
use tantivy::{Index, IndexWriter, TantivyDocument};

pub fn schema() -> Schema {
    let mut sb = Schema::builder();
    sb.add_u64_field("id", FAST | INDEXED);
    sb.add_i64_field("i", FAST);
    sb.add_u64_field("u", FAST);
    sb.add_f64_field("f", FAST);
    sb.add_bool_field("b", FAST);
    sb.add_date_field("d", FAST);
    sb.add_ip_addr_field("ip", FAST);
    sb.add_text_field("s", STRING | FAST);
    sb.add_json_field("j", FAST);
    sb.build()
}

/// One commit per group, merges disabled: the segments are exactly `partition`.
pub fn build(partition: &[Vec<Value>]) -> Index {
    let schema = schema();
    let index = Index::create_in_ram(schema.clone());
    let mut w: IndexWriter = index.writer_with_num_threads(1, 20_000_000).unwrap();
    w.set_merge_policy(Box::new(NoMergePolicy));
    let mut num_segments = 0;
    for group in partition {
        if group.is_empty() {
            continue;
        }
        for doc in group {
            let d = TantivyDocument::parse_json(&schema, &doc.to_string()).unwrap();
            w.add_document(d).unwrap();
        }
        w.commit().unwrap();
        num_segments += 1;
    }
    assert_eq!(
        index.reader().unwrap().searcher().segment_readers().len(),
        num_segments
    );
    index
}

/// Runs the request; a panic inside tantivy is reported as Err("PANIC").
pub fn run(index: &Index, req: &Value) -> Result<Value, String> {
    let aggs: Aggregations = serde_json::from_value(req.clone()).map_err(|e| format!("REQ {e}"))?;
    let collector = AggregationCollector::from_aggs(aggs, Default::default());
    let searcher = index.reader().unwrap().searcher();
    let res = std::panic::catch_unwind(std::panic::AssertUnwindSafe(|| {
        searcher.search(&AllQuery, &collector)
    }));
    match res {
        Ok(Ok(res)) => {
            let res: AggregationResults = res;
            Ok(serde_json::to_value(&res).unwrap())
        }
        Ok(Err(e)) => Err(format!("ERR {e:?}")),
        Err(_) => Err("PANIC".to_string()),
    }
}

/// One index per part, DistributedAggregationCollector, postcard round trip, merge, finalize.
pub fn run_distributed(parts: &[Vec<Value>], req: &Value) -> Result<Value, String> {
    let aggs: Aggregations = serde_json::from_value(req.clone()).map_err(|e| format!("REQ {e}"))?;
    let res = std::panic::catch_unwind(std::panic::AssertUnwindSafe(|| -> tantivy::Result<Value> {
        let mut acc: Option<IntermediateAggregationResults> = None;
        for part in parts {
            let index = build(&[part.clone()]);
            let collector =
                DistributedAggregationCollector::from_aggs(aggs.clone(), Default::default());
            let searcher = index.reader()?.searcher();
            let res: IntermediateAggregationResults = searcher.search(&AllQuery, &collector)?;
            let bytes = postcard::to_allocvec(&res).unwrap();
            let res: IntermediateAggregationResults = postcard::from_bytes(&bytes).unwrap();
            match acc.as_mut() {
                None => acc = Some(res),
                Some(a) => a.merge_fruits(res)?,
            }
        }
        let res = acc.unwrap().into_final_result(aggs.clone(), Default::default())?;
        Ok(serde_json::to_value(&res).unwrap())
    }));
    match res {
        Ok(Ok(v)) => Ok(v),
        Ok(Err(e)) => Err(format!("ERR {e:?}")),
        Err(_) => Err("PANIC".to_string()),
    }
}
