// C14 demos: top_hits.
#[path = "c14_common/mod.rs"]
mod common;
use common::*;
use serde_json::{json, Value};

fn ids(r: &Value, path: &[&str]) -> Vec<Value> {
    let mut v = r;
    for p in path {
        v = &v[*p];
    }
    v["hits"]
        .as_array()
        .unwrap()
        .iter()
        .map(|h| h["docvalue_fields"]["id"].clone())
        .collect()
}

/// D6: `docvalue_fields` naming a JSON path that no document of some segment has -> panic
/// ("No fields matched the glob 'j.x' in docvalue_fields"). With all documents in one segment the
/// request works and returns `"j.x": []` for the documents without value.
#[test]
fn d6_docvalue_field_absent_from_a_segment_panics() {
    let docs = vec![
        json!({"id": 1, "j": {"x": 10}, "s": "a"}),
        json!({"id": 2, "j": {"x": 20}, "s": "a"}),
        json!({"id": 3, "s": "a"}),
        json!({"id": 4, "s": "b"}),
    ];
    let req = json!({
        "t": {"terms": {"field": "s", "order": {"_key": "asc"}}, "aggs": {
            "th": {"top_hits": {"size": 2, "sort": [{"id": "desc"}], "docvalue_fields": ["j.x", "id"]}}
        }}
    });
    let one = run(&build(&[docs.clone()]), &req);
    let two = run(&build(&[docs[..2].to_vec(), docs[2..].to_vec()]), &req);
    println!("one segment : {one:?}\ntwo segments: {two:?}");
    assert!(one.is_ok());
    assert_eq!(two, one, "the result depends on the partition");
}

/// D7: `from` larger than the number of hits of a bucket -> panic in
/// TopHitsTopNComputer::into_final_result (`hits.drain(..from)`). Bucket "b" has one document,
/// `from: 2`: the direct computation is an empty hit list.
#[test]
fn d7_from_larger_than_bucket_panics() {
    let docs = vec![
        json!({"id": 1, "s": "a"}),
        json!({"id": 2, "s": "a"}),
        json!({"id": 3, "s": "a"}),
        json!({"id": 4, "s": "b"}),
    ];
    let req = json!({
        "t": {"terms": {"field": "s", "order": {"_key": "asc"}}, "aggs": {
            "th": {"top_hits": {"size": 2, "from": 2, "sort": [{"id": "desc"}], "docvalue_fields": ["id"]}}
        }}
    });
    let one = run(&build(&[docs.clone()]), &req);
    println!("one segment : {one:?}");
    let one = one.expect("top_hits with from > number of hits must not fail");
    assert_eq!(ids(&one["t"]["buckets"][0], &["th"]), vec![json!([1])]); // a: 3,2,[1]
    assert_eq!(ids(&one["t"]["buckets"][1], &["th"]), Vec::<Value>::new()); // b: nothing left
}

/// D8: sort on a JSON path whose column is i64 in one segment and f64 in another one. The sort
/// keys are compared in their u64 fast field representation, which is not comparable across
/// types. Values: 1, 100 | 1.5, 50.5 ; top 2 descending = ids [2 (100), 4 (50.5)].
#[test]
fn d8_sort_on_json_path_mixing_numeric_types_across_segments() {
    let docs = vec![
        json!({"id": 1, "j": {"x": 1}}),
        json!({"id": 2, "j": {"x": 100}}),
        json!({"id": 3, "j": {"x": 1.5}}),
        json!({"id": 4, "j": {"x": 50.5}}),
    ];
    let req = json!({
        "th": {"top_hits": {"size": 2, "sort": [{"j.x": "desc"}], "docvalue_fields": ["id"]}}
    });
    let parts = vec![docs[..2].to_vec(), docs[2..].to_vec()];
    let one = run(&build(&[docs.clone()]), &req).unwrap();
    let two = run(&build(&parts), &req).unwrap();
    let dist = run_distributed(&parts, &req).unwrap();
    println!("one segment : {one}\ntwo segments: {two}\ndistributed : {dist}");
    assert_eq!(ids(&one, &["th"]), vec![json!([2]), json!([4])]);
    assert_eq!(ids(&two, &["th"]), ids(&one, &["th"]), "hits depend on the partition");
    assert_eq!(ids(&dist, &["th"]), ids(&one, &["th"]));
}
