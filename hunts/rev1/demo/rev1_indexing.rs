mod rev1_common;

use std::path::Path;
use std::sync::atomic::{AtomicBool, AtomicUsize, Ordering};
use std::sync::Arc;

use rev1_common::{FaultyDirectory, Op};
use tantivy::collector::Count;
use tantivy::query::AllQuery;
use tantivy::schema::{Schema, STORED, STRING, TEXT};
use tantivy::{doc, Directory, Index, IndexWriter, ReloadPolicy, Term};

fn schema() -> (Schema, tantivy::schema::Field) {
    let mut schema_builder = Schema::builder();
    let text = schema_builder.add_text_field("text", TEXT | STORED);
    (schema_builder.build(), text)
}

fn num_docs(index: &Index) -> usize {
    let reader = index
        .reader_builder()
        .reload_policy(ReloadPolicy::Manual)
        .try_into()
        .unwrap();
    let searcher: tantivy::Searcher = tantivy::IndexReader::searcher(&reader);
    searcher.search(&AllQuery, &Count).unwrap()
}

fn is_meta(path: &Path) -> bool {
    path == Path::new("meta.json")
}

// 9631f6ad5 + b50447a7d: the new sync after the atomic replace is a failure point located after
// the publication of the commit.
#[test]
fn commit_that_returned_err_is_not_visible() {
    let (schema, text) = schema();
    let dir = FaultyDirectory::new();
    let index = Index::create(dir.clone(), schema, Default::default()).unwrap();
    let mut writer: IndexWriter = index.writer_with_num_threads(1, 15_000_000).unwrap();
    writer.add_document(doc!(text => "a")).unwrap();
    writer.commit().unwrap();
    assert_eq!(num_docs(&index), 1);

    // The sync that follows the atomic write of meta.json fails.
    let meta_written = Arc::new(AtomicBool::new(false));
    let meta_written_clone = meta_written.clone();
    dir.set_hook(move |op, path| {
        if op == Op::AtomicWrite && is_meta(path) {
            meta_written_clone.store(true, Ordering::SeqCst);
        }
        op == Op::SyncDirectory && meta_written_clone.load(Ordering::SeqCst)
    });
    writer.add_document(doc!(text => "b")).unwrap();
    let commit_res = writer.commit();
    dir.clear_hook();
    assert!(commit_res.is_err(), "the injected fault must be reported");
    // commit() returned Err: the commit must not be visible (b50447a7d: "a commit that had
    // returned Err became visible").
    assert_eq!(
        num_docs(&index),
        1,
        "commit() returned Err but its documents are published"
    );
}

// b50447a7d: contract change. A transient failure of the write of meta.json used to be
// recoverable by calling commit() again.
#[test]
fn commit_can_be_retried_after_a_transient_meta_write_failure() {
    let (schema, text) = schema();
    let dir = FaultyDirectory::new();
    let index = Index::create(dir.clone(), schema, Default::default()).unwrap();
    let mut writer: IndexWriter = index.writer_with_num_threads(1, 15_000_000).unwrap();
    writer.add_document(doc!(text => "a")).unwrap();
    writer.commit().unwrap();

    dir.set_hook(move |op, path| op == Op::AtomicWrite && is_meta(path));
    writer.add_document(doc!(text => "b")).unwrap();
    assert!(writer.commit().is_err());
    dir.clear_hook();
    assert_eq!(num_docs(&index), 1);

    // storage is healthy again
    let retry = writer.commit();
    assert!(
        retry.is_ok(),
        "retrying the commit on healthy storage fails: {retry:?}"
    );
    assert_eq!(num_docs(&index), 2);
}

// b50447a7d: after the failed commit, rollback gives a working writer and nothing of the failed
// commit is visible.
#[test]
fn failed_commit_then_rollback_then_merge() {
    let (schema, text) = schema();
    let dir = FaultyDirectory::new();
    let index = Index::create(dir.clone(), schema, Default::default()).unwrap();
    let mut writer: IndexWriter = index.writer_with_num_threads(1, 15_000_000).unwrap();
    for _ in 0..3 {
        writer.add_document(doc!(text => "a")).unwrap();
        writer.commit().unwrap();
    }
    dir.set_hook(move |op, path| op == Op::AtomicWrite && is_meta(path));
    writer.add_document(doc!(text => "b")).unwrap();
    writer.delete_term(Term::from_field_text(text, "a"));
    assert!(writer.commit().is_err());
    dir.clear_hook();
    assert_eq!(num_docs(&index), 3);
    // a merge does not publish anything
    let segment_ids = index.searchable_segment_ids().unwrap();
    let _ = writer.merge(&segment_ids).wait();
    assert_eq!(num_docs(&index), 3);
    writer.rollback().unwrap();
    assert_eq!(num_docs(&index), 3);
    // 69698f379: same ops again, the .del files left behind by the failed commit have the same
    // name
    writer.add_document(doc!(text => "b")).unwrap();
    writer.delete_term(Term::from_field_text(text, "a"));
    writer.commit().unwrap();
    assert_eq!(num_docs(&index), 1);
    let segment_ids = index.searchable_segment_ids().unwrap();
    writer.merge(&segment_ids).wait().unwrap();
    assert_eq!(num_docs(&index), 1);
    writer.wait_merging_threads().unwrap();
}

// daa961cd9
#[test]
fn writer_killed_by_worker_error_stays_killed_until_rollback() {
    let (schema, text) = schema();
    let dir = FaultyDirectory::new();
    let index = Index::create(dir.clone(), schema, Default::default()).unwrap();
    for num_threads in [1usize, 2, 4] {
        let mut writer: IndexWriter = index
            .writer_with_num_threads(num_threads, 15_000_000 * num_threads)
            .unwrap();
        let before = num_docs(&index);
        writer.add_document(doc!(text => "a")).unwrap();
        writer.commit().unwrap();
        assert_eq!(num_docs(&index), before + 1);

        // one segment file cannot be created: exactly one failure
        let failed = Arc::new(AtomicUsize::new(0));
        let failed_clone = failed.clone();
        dir.set_hook(move |op, path| {
            op == Op::OpenWrite
                && path.extension().map(|ext| ext == "idx").unwrap_or(false)
                && failed_clone.fetch_add(1, Ordering::SeqCst) == 0
        });
        for _ in 0..20 {
            let _ = writer.add_document(doc!(text => "b"));
        }
        assert!(writer.commit().is_err());
        dir.clear_hook();
        assert_eq!(failed.load(Ordering::SeqCst) >= 1, true);
        // stays killed
        for _ in 0..3 {
            let add_res = writer.add_document(doc!(text => "c"));
            let commit_res = writer.commit();
            assert!(
                add_res.is_err() || commit_res.is_err(),
                "add: {add_res:?} commit: {commit_res:?}"
            );
            assert_eq!(num_docs(&index), before + 1);
        }
        writer.rollback().unwrap();
        assert_eq!(num_docs(&index), before + 1);
        for _ in 0..10 {
            writer.add_document(doc!(text => "d")).unwrap();
        }
        writer.commit().unwrap();
        assert_eq!(num_docs(&index), before + 11);
        writer.wait_merging_threads().unwrap();
    }
}

// 762602709
#[test]
fn lock_file_flush_failure_does_not_leave_lock_behind() {
    let (schema, _text) = schema();
    let dir = FaultyDirectory::new();
    let index = Index::create(dir.clone(), schema, Default::default()).unwrap();
    dir.set_hook(move |op, path| {
        op == Op::Flush && path.to_string_lossy().contains("writer.lock")
    });
    let res: tantivy::Result<IndexWriter> = index.writer_with_num_threads(1, 15_000_000);
    assert!(res.is_err());
    drop(res);
    dir.clear_hook();
    let writer: IndexWriter = index.writer_with_num_threads(1, 15_000_000).unwrap();
    drop(writer);
    let _writer: IndexWriter = index.writer_with_num_threads(1, 15_000_000).unwrap();
}

// 2462f624e / 2f0fae358
#[test]
fn two_handles_managed_files() {
    let (schema, text) = schema();
    let dir = FaultyDirectory::new();
    let index_a = Index::create(dir.clone(), schema, Default::default()).unwrap();
    let index_b = Index::open(dir.clone()).unwrap();
    {
        let mut writer: IndexWriter = index_b.writer_with_num_threads(1, 15_000_000).unwrap();
        for _ in 0..4 {
            writer.add_document(doc!(text => "a")).unwrap();
            writer.commit().unwrap();
        }
        writer.wait_merging_threads().unwrap();
    }
    let files_of_b: Vec<_> = index_b
        .searchable_segment_metas()
        .unwrap()
        .iter()
        .flat_map(|meta| meta.list_files())
        .filter(|path| dir.inner.exists(path).unwrap())
        .collect();
    assert!(!files_of_b.is_empty());
    assert!(index_a.validate_checksum().unwrap().is_empty());
    {
        let mut writer: IndexWriter = index_a.writer_with_num_threads(1, 15_000_000).unwrap();
        writer.add_document(doc!(text => "a")).unwrap();
        writer.commit().unwrap();
        let segment_ids = index_a.searchable_segment_ids().unwrap();
        writer.merge(&segment_ids).wait().unwrap();
        writer.garbage_collect_files().wait().unwrap();
        writer.wait_merging_threads().unwrap();
    }
    assert_eq!(num_docs(&index_a), 5);
    for path in files_of_b {
        assert!(
            !dir.inner.exists(&path).unwrap(),
            "{path:?} was never garbage collected"
        );
    }
    let _ = STRING;
}

// 69698f379: the name of the delete file of the failed commit comes up again.
#[test]
fn leftover_delete_file_of_a_failed_commit() {
    let (schema, text) = schema();
    let dir = FaultyDirectory::new();
    let index = Index::create(dir.clone(), schema, Default::default()).unwrap();
    {
        let mut writer: IndexWriter = index.writer_with_num_threads(1, 15_000_000).unwrap();
        writer.add_document(doc!(text => "a")).unwrap();
        writer.add_document(doc!(text => "b")).unwrap();
        writer.add_document(doc!(text => "c")).unwrap();
        writer.commit().unwrap();
    }
    let mut writer: IndexWriter = index.writer_with_num_threads(1, 15_000_000).unwrap();
    dir.set_hook(move |op, path| op == Op::AtomicWrite && is_meta(path));
    writer.delete_term(Term::from_field_text(text, "a"));
    assert!(writer.commit().is_err());
    dir.clear_hook();
    let del_files = |dir: &FaultyDirectory| {
        dir.log
            .read()
            .unwrap()
            .iter()
            .filter(|(op, path)| {
                *op == Op::OpenWrite && path.extension().map(|e| e == "del").unwrap_or(false)
            })
            .map(|(_, path)| path.clone())
            .collect::<Vec<_>>()
    };
    let first = del_files(&dir);
    assert_eq!(first.len(), 1);
    writer.rollback().unwrap();
    assert_eq!(num_docs(&index), 3);
    // a different delete, stamped the same
    writer.delete_term(Term::from_field_text(text, "b"));
    let res = writer.commit();
    let all = del_files(&dir);
    eprintln!("{all:?}");
    res.unwrap();
    assert_eq!(all.len(), 2);
    assert_eq!(all[0], all[1], "the scenario needs the same name twice");
    assert_eq!(num_docs(&index), 2);
    let reader = index.reader().unwrap();
    let searcher = reader.searcher();
    let count = |token: &str| {
        searcher
            .search(
                &tantivy::query::TermQuery::new(
                    Term::from_field_text(text, token),
                    tantivy::schema::IndexRecordOption::Basic,
                ),
                &Count,
            )
            .unwrap()
    };
    assert_eq!((count("a"), count("b"), count("c")), (1, 0, 1));
    assert!(index.validate_checksum().unwrap().is_empty());
}
