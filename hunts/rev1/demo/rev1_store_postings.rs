use std::path::Path;

use tantivy::collector::Count;
use tantivy::directory::RamDirectory;
use tantivy::postings::BlockSegmentPostings;
use tantivy::query::{AllQuery, TermQuery};
use tantivy::schema::{
    BytesOptions, Field, IndexRecordOption, JsonObjectOptions, Schema, TextFieldIndexing,
    TextOptions, Value, FAST, INDEXED, STORED, STRING, TEXT,
};
use tantivy::{
    doc, DateTime, Directory, Index, IndexSettings, IndexSortByField, IndexWriter, Order,
    ReloadPolicy, TantivyDocument, Term,
};

fn searcher(index: &Index) -> tantivy::Searcher {
    let reader: tantivy::IndexReader = index
        .reader_builder()
        .reload_policy(ReloadPolicy::Manual)
        .try_into()
        .unwrap();
    reader.searcher()
}

// 51664150a
#[test]
fn merge_of_a_v6_segment_keeps_stored_dates() {
    let ram = RamDirectory::create();
    let src = Path::new(env!("CARGO_MANIFEST_DIR")).join("tests/compat_tests_data/index_v6");
    for entry in std::fs::read_dir(&src).unwrap() {
        let entry = entry.unwrap();
        let name = entry.file_name();
        if name.to_string_lossy().ends_with(".lock") {
            continue;
        }
        let data = std::fs::read(entry.path()).unwrap();
        ram.atomic_write(Path::new(&name), &data).unwrap();
    }
    let index = Index::open(ram).unwrap();
    let schema = index.schema();
    let label = schema.get_field("label").unwrap();
    let date = schema.get_field("date").unwrap();
    let mut writer: IndexWriter = index.writer_with_num_threads(1, 15_000_000).unwrap();
    writer
        .add_document(doc!(label => "new", date => DateTime::from_timestamp_nanos(987_654_321)))
        .unwrap();
    writer.commit().unwrap();
    let stored_dates = |index: &Index| {
        let searcher = searcher(index);
        let mut res = Vec::new();
        for (segment_ord, segment_reader) in searcher.segment_readers().iter().enumerate() {
            for doc_id in 0..segment_reader.max_doc() {
                let doc: TantivyDocument = searcher
                    .doc(tantivy::DocAddress::new(segment_ord as u32, doc_id))
                    .unwrap();
                let label_val = doc.get_first(label).unwrap().as_str().unwrap().to_string();
                let date_val = doc.get_first(date).unwrap().as_datetime().unwrap();
                res.push((label_val, date_val.into_timestamp_nanos()));
            }
        }
        res.sort();
        res
    };
    let before = stored_dates(&index);
    assert_eq!(before.len(), 2);
    let segment_ids = index.searchable_segment_ids().unwrap();
    assert_eq!(segment_ids.len(), 2);
    writer.merge(&segment_ids).wait().unwrap();
    assert_eq!(index.searchable_segment_ids().unwrap().len(), 1);
    assert_eq!(stored_dates(&index), before);
    // and once more: the merged segment is now in the current format, and is merged with
    // another one + delete
    writer
        .add_document(doc!(label => "newer", date => DateTime::from_timestamp_nanos(5)))
        .unwrap();
    writer.delete_term(Term::from_field_text(label, "new"));
    writer.commit().unwrap();
    let segment_ids = index.searchable_segment_ids().unwrap();
    writer.merge(&segment_ids).wait().unwrap();
    let after = stored_dates(&index);
    assert_eq!(after.len(), 2);
    assert_eq!(after[0], before[0]);
    assert_eq!(after[1], ("newer".to_string(), 5));
}

fn collect_block_postings(postings: &mut BlockSegmentPostings) -> (Vec<u32>, Vec<u32>) {
    let mut docs = Vec::new();
    let mut freqs = Vec::new();
    loop {
        let block_docs = postings.docs().to_vec();
        if block_docs.is_empty() {
            break;
        }
        for idx in 0..block_docs.len() {
            freqs.push(postings.freq(idx));
        }
        docs.extend(block_docs);
        postings.advance();
    }
    (docs, freqs)
}

// cb6dc82fe
#[test]
fn block_postings_reset_between_terms_of_different_layouts() {
    let mut schema_builder = Schema::builder();
    let json_options = JsonObjectOptions::default().set_indexing_options(
        TextFieldIndexing::default()
            .set_tokenizer("default")
            .set_index_option(IndexRecordOption::WithFreqsAndPositions),
    );
    let json = schema_builder.add_json_field("json", json_options);
    let text = schema_builder.add_text_field("text", TEXT);
    let basic = schema_builder.add_text_field("basic", STRING);
    let schema = schema_builder.build();
    let index = Index::create_in_ram(schema);
    let mut writer: IndexWriter = index.writer_with_num_threads(1, 50_000_000).unwrap();
    for i in 0..1000u64 {
        let mut doc = TantivyDocument::default();
        let reps = (i % 5 + 1) as usize;
        let json_val: serde_json::Value = serde_json::json!({
            "t": vec!["hello"; reps].join(" "),
            "rare": if i % 7 == 0 { "rare rare rare" } else { "" },
            "n": 3,
            "m": i % 3,
            "few": if i < 10 { serde_json::json!(17) } else { serde_json::Value::Null },
        });
        doc.add_object(
            json,
            json_val
                .as_object()
                .unwrap()
                .iter()
                .map(|(k, v)| (k.clone(), tantivy::schema::OwnedValue::from(v.clone())))
                .collect(),
        );
        doc.add_text(text, vec!["word"; reps + 1].join(" "));
        doc.add_text(basic, if i % 2 == 0 { "even" } else { "odd" });
        writer.add_document(doc).unwrap();
    }
    writer.commit().unwrap();
    let searcher = searcher(&index);
    assert_eq!(searcher.segment_readers().len(), 1);
    let segment_reader = &searcher.segment_readers()[0];

    for field in [json, text, basic] {
        let inverted_index = segment_reader.inverted_index(field).unwrap();
        let mut term_infos = Vec::new();
        let mut stream = inverted_index.terms().stream().unwrap();
        while stream.advance() {
            term_infos.push(stream.value().clone());
        }
        assert!(!term_infos.is_empty());
        for requested in [
            IndexRecordOption::Basic,
            IndexRecordOption::WithFreqs,
            IndexRecordOption::WithFreqsAndPositions,
        ] {
            let expected: Vec<(Vec<u32>, Vec<u32>)> = term_infos
                .iter()
                .map(|term_info| {
                    let mut postings = inverted_index
                        .read_block_postings_from_terminfo(term_info, requested)
                        .unwrap();
                    collect_block_postings(&mut postings)
                })
                .collect();
            // every ordered pair of terms: open on a, reset on b
            for (a, term_info_a) in term_infos.iter().enumerate() {
                for (b, term_info_b) in term_infos.iter().enumerate() {
                    let mut postings = inverted_index
                        .read_block_postings_from_terminfo(term_info_a, requested)
                        .unwrap();
                    // consume some of it
                    postings.advance();
                    inverted_index
                        .reset_block_postings_from_terminfo(term_info_b, &mut postings)
                        .unwrap();
                    assert_eq!(postings.doc_freq(), term_info_b.doc_freq);
                    let got = collect_block_postings(&mut postings);
                    assert_eq!(
                        got, expected[b],
                        "field {field:?} requested {requested:?} open on term #{a}, reset on #{b}"
                    );
                }
            }
            // seek after a reset
            for (a, term_info_a) in term_infos.iter().enumerate() {
                for (b, term_info_b) in term_infos.iter().enumerate() {
                    let mut postings = inverted_index
                        .read_block_postings_from_terminfo(term_info_a, requested)
                        .unwrap();
                    postings.seek(900);
                    inverted_index
                        .reset_block_postings_from_terminfo(term_info_b, &mut postings)
                        .unwrap();
                    for target in [0u32, 127, 128, 500, 999] {
                        let idx = postings.seek(target);
                        let doc = postings.doc(idx);
                        let expected_doc = expected[b]
                            .0
                            .iter()
                            .copied()
                            .find(|doc| *doc >= target)
                            .unwrap_or(tantivy::TERMINATED);
                        assert_eq!(doc, expected_doc, "seek {target} open #{a} reset #{b}");
                        if doc != tantivy::TERMINATED && requested != IndexRecordOption::Basic {
                            let pos = expected[b].0.iter().position(|d| *d == doc).unwrap();
                            assert_eq!(postings.freq(idx), expected[b].1[pos]);
                        }
                    }
                }
            }
        }
        // from an empty cursor: docs are right
        for (b, term_info_b) in term_infos.iter().enumerate() {
            let mut postings = BlockSegmentPostings::empty();
            inverted_index
                .reset_block_postings_from_terminfo(term_info_b, &mut postings)
                .unwrap();
            let expected_docs = {
                let mut fresh = inverted_index
                    .read_block_postings_from_terminfo(term_info_b, IndexRecordOption::Basic)
                    .unwrap();
                collect_block_postings(&mut fresh)
            };
            assert_eq!(collect_block_postings(&mut postings), expected_docs, "#{b}");
        }
    }
}

// cb6dc82fe: a cursor moved from the inverted index of one field to the one of another field.
#[test]
fn block_postings_reset_across_fields() {
    let mut schema_builder = Schema::builder();
    let text = schema_builder.add_text_field("text", TEXT);
    let basic = schema_builder.add_text_field("basic", STRING);
    let schema = schema_builder.build();
    let index = Index::create_in_ram(schema);
    let mut writer: IndexWriter = index.writer_with_num_threads(1, 50_000_000).unwrap();
    for i in 0..1000u64 {
        let reps = (i % 5 + 1) as usize;
        writer
            .add_document(doc!(text => vec!["word"; reps].join(" "), basic => "word"))
            .unwrap();
    }
    writer.commit().unwrap();
    let searcher = searcher(&index);
    let segment_reader = &searcher.segment_readers()[0];
    let inv_text = segment_reader.inverted_index(text).unwrap();
    let inv_basic = segment_reader.inverted_index(basic).unwrap();
    let ti_text = inv_text
        .get_term_info(&Term::from_field_text(text, "word"))
        .unwrap()
        .unwrap();
    let ti_basic = inv_basic
        .get_term_info(&Term::from_field_text(basic, "word"))
        .unwrap()
        .unwrap();
    let expected_text = collect_block_postings(
        &mut inv_text
            .read_block_postings_from_terminfo(&ti_text, IndexRecordOption::WithFreqs)
            .unwrap(),
    );
    let expected_basic = collect_block_postings(
        &mut inv_basic
            .read_block_postings_from_terminfo(&ti_basic, IndexRecordOption::WithFreqs)
            .unwrap(),
    );
    let mut postings = inv_text
        .read_block_postings_from_terminfo(&ti_text, IndexRecordOption::WithFreqs)
        .unwrap();
    inv_basic
        .reset_block_postings_from_terminfo(&ti_basic, &mut postings)
        .unwrap();
    assert_eq!(collect_block_postings(&mut postings), expected_basic);
    inv_text
        .reset_block_postings_from_terminfo(&ti_text, &mut postings)
        .unwrap();
    assert_eq!(collect_block_postings(&mut postings), expected_text);
}

// f109db78a
#[test]
fn long_terms_are_dropped_not_merged() {
    let mut schema_builder = Schema::builder();
    let json_options = JsonObjectOptions::default().set_indexing_options(
        TextFieldIndexing::default()
            .set_tokenizer("raw")
            .set_index_option(IndexRecordOption::Basic),
    );
    let json = schema_builder.add_json_field("json", json_options);
    let raw = schema_builder.add_text_field(
        "raw",
        TextOptions::default().set_indexing_options(
            TextFieldIndexing::default()
                .set_tokenizer("raw")
                .set_index_option(IndexRecordOption::Basic),
        ),
    );
    let bytes = schema_builder.add_bytes_field("bytes", BytesOptions::default().set_indexed());
    let schema = schema_builder.build();
    let index = Index::create_in_ram(schema);
    let mut writer: IndexWriter = index.writer_with_num_threads(1, 100_000_000).unwrap();
    // lengths around every limit
    let lens: Vec<usize> = (65_515..=65_540).collect();
    for &len in &lens {
        for suffix in ["x", "y"] {
            let token = format!("{}{}", "a".repeat(len - 1), suffix);
            let mut doc = TantivyDocument::default();
            doc.add_object(
                json,
                vec![(
                    "k".to_string(),
                    tantivy::schema::OwnedValue::Str(token.clone()),
                )]
                .into_iter()
                .collect(),
            );
            doc.add_text(raw, &token);
            doc.add_bytes(bytes, token.as_bytes());
            writer.add_document(doc).unwrap();
        }
    }
    writer.commit().unwrap();
    let searcher = searcher(&index);
    for &len in &lens {
        for suffix in ["x", "y"] {
            let token = format!("{}{}", "a".repeat(len - 1), suffix);
            let mut json_term = Term::from_field_json_path(json, "k", false);
            json_term.append_type_and_str(&token);
            let terms = [
                ("json", json_term),
                ("raw", Term::from_field_text(raw, &token)),
                ("bytes", Term::from_field_bytes(bytes, token.as_bytes())),
            ];
            for (name, term) in terms {
                let count = searcher
                    .search(&TermQuery::new(term, IndexRecordOption::Basic), &Count)
                    .unwrap();
                assert!(
                    count <= 1,
                    "{name} len={len}: {count} docs for a term that only one document holds"
                );
            }
        }
    }
    // terms hold one doc each
    for field in [json, raw, bytes] {
        let inverted_index = searcher.segment_readers()[0].inverted_index(field).unwrap();
        let mut stream = inverted_index.terms().stream().unwrap();
        while stream.advance() {
            assert_eq!(stream.value().doc_freq, 1, "{field:?} key len {}", stream.key().len());
        }
    }
    assert_eq!(searcher.search(&AllQuery, &Count).unwrap(), lens.len() * 2);
}

// 37fa1a65f
#[test]
fn sorted_index_temp_doc_store_is_collected() {
    let mut schema_builder = Schema::builder();
    let id = schema_builder.add_u64_field("id", FAST | INDEXED | STORED);
    let text = schema_builder.add_text_field("text", TEXT | STORED);
    let schema = schema_builder.build();
    let ram = RamDirectory::create();
    let settings = IndexSettings {
        sort_by_field: Some(IndexSortByField {
            field: "id".to_string(),
            order: Order::Desc,
        }),
        ..Default::default()
    };
    let index = Index::create(ram.clone(), schema, settings).unwrap();
    let mut writer: IndexWriter = index.writer_with_num_threads(1, 15_000_000).unwrap();
    for round in 0..3u64 {
        for i in 0..20u64 {
            writer
                .add_document(doc!(id => (i * 7 + round) % 20, text => format!("t{i}")))
                .unwrap();
        }
        writer.delete_term(Term::from_field_text(text, "t3"));
        writer.commit().unwrap();
    }
    writer.garbage_collect_files().wait().unwrap();
    writer.wait_merging_threads().unwrap();
    let index2 = Index::open(ram.clone()).unwrap();
    let mut writer: IndexWriter = index2.writer_with_num_threads(1, 15_000_000).unwrap();
    writer.add_document(doc!(id => 1u64, text => "z")).unwrap();
    writer.commit().unwrap();
    writer.garbage_collect_files().wait().unwrap();
    writer.wait_merging_threads().unwrap();
    let managed: Vec<_> = index2
        .directory()
        .list_managed_files()
        .into_iter()
        .filter(|path| path.to_string_lossy().ends_with(".temp"))
        .filter(|path| ram.exists(path).unwrap())
        .collect();
    assert!(managed.is_empty(), "{managed:?}");
    let searcher = searcher(&index2);
    assert_eq!(searcher.search(&AllQuery, &Count).unwrap(), 3 * 19 + 1);
    // stored docs are sorted
    for segment_reader in searcher.segment_readers() {
        let store = segment_reader.get_store_reader(10).unwrap();
        let mut prev = u64::MAX;
        for doc_id in 0..segment_reader.max_doc() {
            let doc: TantivyDocument = store.get(doc_id).unwrap();
            let val = doc.get_first(id).unwrap().as_u64().unwrap();
            assert!(val <= prev);
            prev = val;
        }
    }
    let _ = Field::from_field_id(0);
}
