mod rev1_common;

use std::path::Path;
use std::sync::atomic::{AtomicUsize, Ordering};
use std::sync::Arc;
use std::time::Duration;

use rev1_common::{FaultyDirectory, Op};
use tantivy::collector::Count;
use tantivy::directory::MmapDirectory;
use tantivy::query::AllQuery;
use tantivy::schema::{Schema, Value, STORED, TEXT};
use tantivy::{doc, Index, IndexReader, IndexWriter, ReloadPolicy, TantivyDocument, Term};

// c512fa018
#[test]
fn slow_reload_does_not_publish_an_older_commit() {
    let mut schema_builder = Schema::builder();
    let text = schema_builder.add_text_field("text", TEXT | STORED);
    let dir = FaultyDirectory::new();
    let index = Index::create(dir.clone(), schema_builder.build(), Default::default()).unwrap();
    let mut writer: IndexWriter = index.writer_with_num_threads(1, 15_000_000).unwrap();
    writer.add_document(doc!(text => "a")).unwrap();
    writer.commit().unwrap();
    let reader: IndexReader = index
        .reader_builder()
        .reload_policy(ReloadPolicy::Manual)
        .try_into()
        .unwrap();
    writer.add_document(doc!(text => "a")).unwrap();
    writer.commit().unwrap();
    // the first read of meta.json from now on is slow to come back
    let reads = Arc::new(AtomicUsize::new(0));
    let reads_clone = reads.clone();
    dir.set_hook(move |op, path| {
        if op == Op::AtomicReadDone
            && path == Path::new("meta.json")
            && reads_clone.fetch_add(1, Ordering::SeqCst) == 0
        {
            std::thread::sleep(Duration::from_millis(800));
        }
        false
    });
    let reader_clone = reader.clone();
    let slow = std::thread::spawn(move || reader_clone.reload().unwrap());
    while reads.load(Ordering::SeqCst) == 0 {
        std::thread::sleep(Duration::from_millis(5));
    }
    // meanwhile, a third commit + a fast reload
    writer.add_document(doc!(text => "a")).unwrap();
    writer.commit().unwrap();
    reader.reload().unwrap();
    slow.join().unwrap();
    assert_eq!(reader.searcher().search(&AllQuery, &Count).unwrap(), 3);
}

// 127a2f201 (+ 69698f379, which deletes then re-creates a file)
#[test]
fn mmap_directory_searcher_survives_gc_and_rewritten_file_is_fresh() {
    let tmp = tempfile::tempdir().unwrap();
    let mut schema_builder = Schema::builder();
    let text = schema_builder.add_text_field("text", TEXT | STORED);
    let index = Index::create_in_dir(tmp.path(), schema_builder.build()).unwrap();
    let mut writer: IndexWriter = index.writer_with_num_threads(1, 15_000_000).unwrap();
    writer.set_merge_policy(Box::new(tantivy::merge_policy::NoMergePolicy));
    for i in 0..5 {
        writer.add_document(doc!(text => format!("doc{i}"))).unwrap();
        writer.commit().unwrap();
    }
    let reader: IndexReader = index
        .reader_builder()
        .reload_policy(ReloadPolicy::Manual)
        .try_into()
        .unwrap();
    let old_searcher = reader.searcher();
    writer.delete_term(Term::from_field_text(text, "doc2"));
    writer.commit().unwrap();
    let segment_ids = index.searchable_segment_ids().unwrap();
    writer.merge(&segment_ids).wait().unwrap();
    writer.garbage_collect_files().wait().unwrap();
    // the old searcher still reads everything (store is read lazily)
    let mut seen = Vec::new();
    for (ord, segment_reader) in old_searcher.segment_readers().iter().enumerate() {
        for doc_id in 0..segment_reader.max_doc() {
            let doc: TantivyDocument = old_searcher
                .doc(tantivy::DocAddress::new(ord as u32, doc_id))
                .unwrap();
            seen.push(doc.get_first(text).unwrap().as_str().unwrap().to_string());
        }
    }
    seen.sort();
    assert_eq!(seen, vec!["doc0", "doc1", "doc2", "doc3", "doc4"]);
    reader.reload().unwrap();
    assert_eq!(reader.searcher().search(&AllQuery, &Count).unwrap(), 4);
    assert!(index.validate_checksum().unwrap().is_empty());

    // plain directory API
    use std::io::Write;
    use tantivy::directory::TerminatingWrite;
    use tantivy::Directory;
    let dir = MmapDirectory::open(tmp.path()).unwrap();
    let path = Path::new("some_file");
    let mut wrt = dir.open_write(path).unwrap();
    wrt.write_all(b"first content").unwrap();
    wrt.terminate().unwrap();
    let first = dir.open_read(path).unwrap();
    let first_bytes = first.read_bytes().unwrap();
    dir.delete(path).unwrap();
    let mut wrt = dir.open_write(path).unwrap();
    wrt.write_all(b"second").unwrap();
    wrt.terminate().unwrap();
    let second = dir.open_read(path).unwrap().read_bytes().unwrap();
    assert_eq!(second.as_slice(), b"second");
    assert_eq!(first_bytes.as_slice(), b"first content");
    // deleting a missing file still reports it
    dir.delete(path).unwrap();
    assert!(matches!(
        dir.delete(path),
        Err(tantivy::directory::error::DeleteError::FileDoesNotExist(_))
    ));
}
