//! A fault injecting directory: a thin wrapper around `RamDirectory`.
#![allow(dead_code)]

use std::io::{self, Write};
use std::path::{Path, PathBuf};
use std::sync::{Arc, RwLock};

use tantivy::directory::error::{DeleteError, OpenReadError, OpenWriteError};
use tantivy::directory::{
    AntiCallToken, Directory, FileHandle, RamDirectory, TerminatingWrite, WatchCallback,
    WatchHandle, WritePtr,
};

#[derive(Clone, Copy, Debug, PartialEq, Eq)]
pub enum Op {
    OpenWrite,
    Write,
    Flush,
    Terminate,
    AtomicWrite,
    AtomicRead,
    AtomicReadDone,
    SyncDirectory,
    Delete,
}

pub type Hook = Arc<dyn Fn(Op, &Path) -> bool + Send + Sync>;

/// When the hook returns true, the operation fails with an io::Error.
#[derive(Clone)]
pub struct FaultyDirectory {
    pub inner: RamDirectory,
    hook: Arc<RwLock<Hook>>,
    pub log: Arc<RwLock<Vec<(Op, PathBuf)>>>,
}

impl std::fmt::Debug for FaultyDirectory {
    fn fmt(&self, f: &mut std::fmt::Formatter<'_>) -> std::fmt::Result {
        write!(f, "FaultyDirectory")
    }
}

impl FaultyDirectory {
    pub fn new() -> FaultyDirectory {
        FaultyDirectory {
            inner: RamDirectory::create(),
            hook: Arc::new(RwLock::new(Arc::new(|_, _| false))),
            log: Default::default(),
        }
    }

    pub fn set_hook(&self, hook: impl Fn(Op, &Path) -> bool + Send + Sync + 'static) {
        *self.hook.write().unwrap() = Arc::new(hook);
    }

    pub fn clear_hook(&self) {
        *self.hook.write().unwrap() = Arc::new(|_, _| false);
    }

    fn fails(&self, op: Op, path: &Path) -> bool {
        self.log.write().unwrap().push((op, path.to_path_buf()));
        let hook = self.hook.read().unwrap().clone();
        hook(op, path)
    }
}

fn injected() -> io::Error {
    io::Error::other("injected fault")
}

struct FaultyWriter {
    dir: FaultyDirectory,
    path: PathBuf,
    inner: WritePtr,
}

impl Write for FaultyWriter {
    fn write(&mut self, buf: &[u8]) -> io::Result<usize> {
        if self.dir.fails(Op::Write, &self.path) {
            return Err(injected());
        }
        self.inner.write(buf)
    }
    fn flush(&mut self) -> io::Result<()> {
        if self.dir.fails(Op::Flush, &self.path) {
            return Err(injected());
        }
        self.inner.flush()
    }
}

impl TerminatingWrite for FaultyWriter {
    fn terminate_ref(&mut self, token: AntiCallToken) -> io::Result<()> {
        if self.dir.fails(Op::Terminate, &self.path) {
            return Err(injected());
        }
        self.inner.terminate_ref(token)
    }
}

impl Directory for FaultyDirectory {
    fn get_file_handle(&self, path: &Path) -> Result<Arc<dyn FileHandle>, OpenReadError> {
        self.inner.get_file_handle(path)
    }
    fn delete(&self, path: &Path) -> Result<(), DeleteError> {
        if self.fails(Op::Delete, path) {
            return Err(DeleteError::IoError {
                io_error: Arc::new(injected()),
                filepath: path.to_path_buf(),
            });
        }
        self.inner.delete(path)
    }
    fn exists(&self, path: &Path) -> Result<bool, OpenReadError> {
        self.inner.exists(path)
    }
    fn open_write(&self, path: &Path) -> Result<WritePtr, OpenWriteError> {
        if self.fails(Op::OpenWrite, path) {
            return Err(OpenWriteError::IoError {
                io_error: Arc::new(injected()),
                filepath: path.to_path_buf(),
            });
        }
        let inner = self.inner.open_write(path)?;
        Ok(io::BufWriter::new(Box::new(FaultyWriter {
            dir: self.clone(),
            path: path.to_path_buf(),
            inner,
        })))
    }
    fn atomic_read(&self, path: &Path) -> Result<Vec<u8>, OpenReadError> {
        if self.fails(Op::AtomicRead, path) {
            return Err(OpenReadError::IoError {
                io_error: Arc::new(injected()),
                filepath: path.to_path_buf(),
            });
        }
        let data = self.inner.atomic_read(path);
        let _ = self.fails(Op::AtomicReadDone, path);
        data
    }
    fn atomic_write(&self, path: &Path, data: &[u8]) -> io::Result<()> {
        if self.fails(Op::AtomicWrite, path) {
            return Err(injected());
        }
        self.inner.atomic_write(path, data)
    }
    fn sync_directory(&self) -> io::Result<()> {
        if self.fails(Op::SyncDirectory, Path::new("")) {
            return Err(injected());
        }
        self.inner.sync_directory()
    }
    fn watch(&self, watch_callback: WatchCallback) -> tantivy::Result<WatchHandle> {
        self.inner.watch(watch_callback)
    }
}
