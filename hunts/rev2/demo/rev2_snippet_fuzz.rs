//! 7ef7c7e78 / 9ca7f8582 / 07126ae07: snippets with overlapping tokens and small limits.
use std::collections::BTreeMap;

use tantivy::schema::Field;
use tantivy::snippet::SnippetGenerator;
use tantivy::tokenizer::{
    LowerCaser, NgramTokenizer, SimpleTokenizer, TextAnalyzer, WhitespaceTokenizer,
};

struct Lcg(u64);
impl Lcg {
    fn next(&mut self) -> u64 {
        self.0 = self
            .0
            .wrapping_mul(6364136223846793005)
            .wrapping_add(1442695040888963407);
        self.0 >> 33
    }
}

fn analyzers() -> Vec<(&'static str, TextAnalyzer)> {
    vec![
        (
            "ngram13",
            TextAnalyzer::builder(NgramTokenizer::new(1, 3, false).unwrap())
                .filter(LowerCaser)
                .build(),
        ),
        (
            "ngram24",
            TextAnalyzer::builder(NgramTokenizer::new(2, 4, false).unwrap()).build(),
        ),
        (
            "edge",
            TextAnalyzer::builder(NgramTokenizer::new(1, 5, true).unwrap()).build(),
        ),
        (
            "simple",
            TextAnalyzer::builder(SimpleTokenizer::default())
                .filter(LowerCaser)
                .build(),
        ),
        (
            "whitespace",
            TextAnalyzer::builder(WhitespaceTokenizer::default()).build(),
        ),
    ]
}

#[test]
fn snippet_invariants() {
    let alphabet: Vec<&str> = vec!["a", "b", "c", " ", " ", "é", "<", "ab", "abcabcabc", "日本", "&"];
    let term_pool = ["a", "b", "ab", "abc", "bc", "c", "é", "abcabcabc", "ca", "日", "日本", "bca"];
    let mut failures = Vec::new();
    for (name, analyzer) in analyzers() {
        let mut rng = Lcg(99);
        for case in 0..1500 {
            let len = 1 + rng.next() % 25;
            let mut text = String::new();
            for _ in 0..len {
                text.push_str(alphabet[(rng.next() % alphabet.len() as u64) as usize]);
            }
            let mut terms: BTreeMap<String, f32> = BTreeMap::new();
            for _ in 0..1 + rng.next() % 3 {
                terms.insert(
                    term_pool[(rng.next() % term_pool.len() as u64) as usize].to_string(),
                    1.0 + (rng.next() % 3) as f32,
                );
            }
            let max_num_chars = 1 + (rng.next() % 12) as usize;
            let generator = SnippetGenerator::new(
                terms.clone(),
                analyzer.clone(),
                Field::from_field_id(0),
                max_num_chars,
            );
            let res = std::panic::catch_unwind(std::panic::AssertUnwindSafe(|| {
                let snippet = generator.snippet(&text);
                let html = snippet.to_html();
                (
                    snippet.fragment().to_string(),
                    snippet.highlighted().to_vec(),
                    html,
                )
            }));
            let context = format!(
                "{name} case {case} text {text:?} terms {:?} max {max_num_chars}",
                terms.keys().collect::<Vec<_>>()
            );
            match res {
                Err(_) => failures.push(format!("PANIC {context}")),
                Ok((fragment, highlighted, _html)) => {
                    if fragment.len() > max_num_chars {
                        failures.push(format!(
                            "fragment {fragment:?} longer than {max_num_chars}: {context}"
                        ));
                    }
                    let mut prev_end = 0;
                    for (ord, range) in highlighted.iter().enumerate() {
                        if range.start >= range.end
                            || range.end > fragment.len()
                            || (ord > 0 && range.start < prev_end)
                            || !fragment.is_char_boundary(range.start)
                            || !fragment.is_char_boundary(range.end)
                        {
                            failures.push(format!(
                                "bad ranges {highlighted:?} in {fragment:?}: {context}"
                            ));
                            break;
                        }
                        prev_end = range.end;
                    }
                    if !text.contains(&fragment) {
                        failures.push(format!("fragment {fragment:?} not in text: {context}"));
                    }
                }
            }
            if failures.len() > 20 {
                break;
            }
        }
    }
    assert!(
        failures.is_empty(),
        "{} failures:\n{}",
        failures.len(),
        failures.join("\n")
    );
}
