//! 8122e9cd4: BufferedUnionScorer::seek_danger only restores the children that missed in the
//! *current* call, before the hit. A child left in an invalid state by an *earlier* call that
//! returned SeekLowerBound, and that sits after the child that answers Found, is still read
//! through doc()/score() by `seek` / `refill`.
use tantivy::collector::{Count, DocSetCollector, TopDocs};
use tantivy::query::{BooleanQuery, Occur, PhraseQuery, Query, TermQuery};
use tantivy::schema::{IndexRecordOption, Schema, TEXT};
use tantivy::{doc, DocAddress, Index, IndexWriter, Term};

const T1: u32 = 5000; // "x" only
const T2: u32 = 5001; // "x a"
const P1: u32 = 5002; // "x p": contains neither "a" nor the phrase "p q"

fn build_index() -> (Index, tantivy::schema::Field) {
    let mut schema_builder = Schema::builder();
    let text = schema_builder.add_text_field("text", TEXT);
    let index = Index::create_in_ram(schema_builder.build());
    let mut writer: IndexWriter = index.writer_with_num_threads(1, 50_000_000).unwrap();
    for doc_id in 0u32..6000 {
        let body = match doc_id {
            0 => "x a p q",
            1..=20 => "q",
            21..=200 => "a",
            4500 => "p q",
            T1 => "x",
            T2 => "x a",
            P1 => "x p",
            _ => "z",
        };
        writer.add_document(doc!(text => body)).unwrap();
    }
    writer.commit().unwrap();
    (index, text)
}

fn term_query(field: tantivy::schema::Field, text: &str) -> Box<dyn Query> {
    Box::new(TermQuery::new(
        Term::from_field_text(field, text),
        IndexRecordOption::WithFreqs,
    ))
}

fn query(field: tantivy::schema::Field) -> BooleanQuery {
    let phrase: Box<dyn Query> = Box::new(PhraseQuery::new(vec![
        Term::from_field_text(field, "p"),
        Term::from_field_text(field, "q"),
    ]));
    // +x +(a "p q")
    let should = BooleanQuery::new(vec![
        (Occur::Should, term_query(field, "a")),
        (Occur::Should, phrase),
    ]);
    BooleanQuery::new(vec![
        (Occur::Must, term_query(field, "x")),
        (Occur::Must, Box::new(should)),
    ])
}

#[test]
fn union_child_left_invalid_by_an_earlier_seek_danger_is_not_read() {
    let (index, text) = build_index();
    let searcher = index.reader().unwrap().searcher();
    assert_eq!(searcher.segment_readers().len(), 1);
    let query = query(text);

    let mut docs: Vec<u32> = searcher
        .search(&query, &DocSetCollector)
        .unwrap()
        .into_iter()
        .map(|addr: DocAddress| addr.doc_id)
        .collect();
    docs.sort();
    // doc 0 = "x a p q", doc 5001 = "x a". doc 5002 = "x p" must not match.
    assert_eq!(docs, vec![0, T2]);
}

#[test]
fn union_child_left_invalid_count() {
    let (index, text) = build_index();
    let searcher = index.reader().unwrap().searcher();
    let query = query(text);
    assert_eq!(searcher.search(&query, &Count).unwrap(), 2);
}

#[test]
fn union_child_left_invalid_top_docs() {
    let (index, text) = build_index();
    let searcher = index.reader().unwrap().searcher();
    let query = query(text);
    let mut docs: Vec<u32> = searcher
        .search(&query, &TopDocs::with_limit(10).order_by_score())
        .unwrap()
        .into_iter()
        .map(|(_score, addr)| addr.doc_id)
        .collect();
    docs.sort();
    assert_eq!(docs, vec![0, T2]);
}
