//! 7ef7c7e78: "the fragment has to cover all of the tokens added so far". It only does on the
//! right-hand side: a token that starts before the fragment (a decompounding analyzer that emits
//! the parts and then the compound: `foot` 0..4, `ball` 4..8, `football` 0..8) is added to a
//! fragment that was restarted further right, and the highlighted range starts before the fragment.
use std::collections::BTreeMap;

use tantivy::schema::Field;
use tantivy::snippet::SnippetGenerator;
use tantivy::tokenizer::{TextAnalyzer, Token, TokenStream, Tokenizer};

#[derive(Clone)]
struct PartsThenCompound;

struct VecTokenStream {
    tokens: Vec<Token>,
    cursor: usize,
}

impl TokenStream for VecTokenStream {
    fn advance(&mut self) -> bool {
        self.cursor += 1;
        self.cursor <= self.tokens.len()
    }
    fn token(&self) -> &Token {
        &self.tokens[self.cursor - 1]
    }
    fn token_mut(&mut self) -> &mut Token {
        &mut self.tokens[self.cursor - 1]
    }
}

impl Tokenizer for PartsThenCompound {
    type TokenStream<'a> = VecTokenStream;
    fn token_stream<'a>(&'a mut self, text: &'a str) -> VecTokenStream {
        // whitespace separated words; a word of 8 chars is emitted as its two halves, then whole.
        let mut tokens = Vec::new();
        let mut position = 0;
        let mut offset = 0;
        for word in text.split(' ') {
            let from = offset;
            let to = offset + word.len();
            offset = to + 1;
            if word.is_empty() {
                continue;
            }
            let mut push = |offset_from: usize, offset_to: usize, position: usize| {
                tokens.push(Token {
                    offset_from,
                    offset_to,
                    position,
                    text: text[offset_from..offset_to].to_string(),
                    position_length: 1,
                });
            };
            if word.len() == 8 {
                push(from, from + 4, position);
                push(from + 4, to, position + 1);
                push(from, to, position);
                position += 2;
            } else {
                push(from, to, position);
                position += 1;
            }
        }
        VecTokenStream { tokens, cursor: 0 }
    }
}

#[test]
fn fragment_covers_a_token_that_starts_before_it() {
    let mut terms: BTreeMap<String, f32> = BTreeMap::new();
    terms.insert("football".to_string(), 1.0);
    let generator = SnippetGenerator::new(
        terms,
        TextAnalyzer::from(PartsThenCompound),
        Field::from_field_id(0),
        6,
    );
    // foot 0..4 | ball 4..8 (8 > 6: the fragment restarts at 4) | football 0..8 (8 - 4 <= 6)
    let snippet = generator.snippet("football club");
    let html = snippet.to_html();
    for range in snippet.highlighted() {
        assert!(range.end <= snippet.fragment().len(), "{range:?} {html}");
    }
}
