//! Query parser (grammar + logical AST + query building) on generated queries: no panic.
use tantivy::query::QueryParser;
use tantivy::schema::{Schema, FAST, INDEXED, STRING, TEXT};
use tantivy::Index;

struct Lcg(u64);
impl Lcg {
    fn next(&mut self) -> u64 {
        self.0 = self
            .0
            .wrapping_mul(6364136223846793005)
            .wrapping_add(1442695040888963407);
        self.0 >> 33
    }
}

const TOKENS: &[&str] = &[
    "a", "b", "title:", "title:a", "AND", "OR", "NOT", "IN", "[", "]", "{", "}", "TO", "*", "+",
    "-", "(", ")", "\"a\"", "\"a b\"~1", "\"ab cd\"*", "\"ab\"*", "^2", "a*", "js.f:*", "title:*",
    "/r/", ">", "<=", "1", "'x'", ":", "~", "title:(", "IN[", "[a", "c]", "+*", "-*", "num:",
    "num:5", "js.t:", "js.t:\"a b\"~2", "js.t:\"a b\"*", "js.t:\"a\"*", "ip:", "ip:[", "::1",
    "tag:", "\\", "\u{3000}", "\u{a0}", "\t", "\n", "num:[1 TO 5]", "ip:{::1 TO *}",
];

#[test]
fn query_parser_no_panic() {
    let mut schema_builder = Schema::builder();
    let title = schema_builder.add_text_field("title", TEXT);
    schema_builder.add_u64_field("num", INDEXED | FAST);
    let js = schema_builder.add_json_field("js", TEXT | FAST);
    schema_builder.add_ip_addr_field("ip", INDEXED | FAST);
    schema_builder.add_text_field("tag", STRING);
    let index = Index::create_in_ram(schema_builder.build());
    let parser = QueryParser::for_index(&index, vec![title, js]);
    std::panic::set_hook(Box::new(|_| {}));
    let mut rng = Lcg(31337);
    let mut failures = Vec::new();
    for _ in 0..30_000 {
        let num_tokens = 1 + rng.next() % 7;
        let mut query = String::new();
        for _ in 0..num_tokens {
            query.push_str(TOKENS[(rng.next() % TOKENS.len() as u64) as usize]);
            if rng.next() % 3 != 0 {
                query.push(' ');
            }
        }
        let res = std::panic::catch_unwind(|| {
            let _ = parser.parse_query(&query);
            let _ = parser.parse_query_lenient(&query);
        });
        if res.is_err() {
            failures.push(query);
            if failures.len() > 20 {
                break;
            }
        }
    }
    let _ = std::panic::take_hook();
    assert!(failures.is_empty(), "panics on: {failures:#?}");
}
