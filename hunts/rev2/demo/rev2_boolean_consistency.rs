//! 6a542c7a9 / b948ec6ea: Count, DocSetCollector, TopDocs and explain agree.
use tantivy::collector::{Count, DocSetCollector, TopDocs};
use tantivy::query::{
    AllQuery, BooleanQuery, DisjunctionMaxQuery, EmptyQuery, Occur, Query, TermQuery,
};
use tantivy::schema::{IndexRecordOption, Schema, STRING, TEXT};
use tantivy::{doc, Index, IndexWriter, Term};

fn index() -> (Index, tantivy::schema::Field, tantivy::schema::Field) {
    let mut schema_builder = Schema::builder();
    let body = schema_builder.add_text_field("body", TEXT);
    let tag = schema_builder.add_text_field("tag", STRING);
    let index = Index::create_in_ram(schema_builder.build());
    let mut writer: IndexWriter = index.writer_with_num_threads(1, 50_000_000).unwrap();
    let texts = [
        "a", "a b", "a a b", "b", "b b c", "c", "a c c c", "a b c", "d", "a a a a d", "b d d",
        "a b c d e f g h",
    ];
    for round in 0..40 {
        for (ord, text) in texts.iter().enumerate() {
            let tag_val = if (round + ord) % 2 == 0 { "even" } else { "odd" };
            writer
                .add_document(doc!(body => *text, tag => tag_val))
                .unwrap();
        }
    }
    writer.commit().unwrap();
    (index, body, tag)
}

fn check(searcher: &tantivy::Searcher, query: &dyn Query, name: &str, failures: &mut Vec<String>) {
    let count = searcher.search(query, &Count).unwrap();
    let docset = searcher.search(query, &DocSetCollector).unwrap();
    let top = searcher
        .search(query, &TopDocs::with_limit(100_000).order_by_score())
        .unwrap();
    if count != docset.len() || count != top.len() {
        failures.push(format!(
            "{name}: count {count} docset {} topdocs {}",
            docset.len(),
            top.len()
        ));
        return;
    }
    for (score, addr) in &top {
        if !docset.contains(addr) {
            failures.push(format!("{name}: {addr:?} in topdocs not in docset"));
            return;
        }
        match query.explain(searcher, *addr) {
            Ok(explanation) => {
                if (explanation.value() - score).abs() > 1e-4 * score.abs().max(1.0) {
                    failures.push(format!(
                        "{name}: {addr:?} topdocs score {score} explain {}",
                        explanation.value()
                    ));
                    return;
                }
            }
            Err(err) => {
                failures.push(format!("{name}: {addr:?} explain fails {err}"));
                return;
            }
        }
    }
    // small limit (pruning)
    let top3 = searcher
        .search(query, &TopDocs::with_limit(3).order_by_score())
        .unwrap();
    let expected: Vec<f32> = top.iter().take(3).map(|(score, _)| *score).collect();
    let got: Vec<f32> = top3.iter().map(|(score, _)| *score).collect();
    if expected != got {
        failures.push(format!("{name}: top3 {got:?} expected {expected:?}"));
    }
}

#[test]
fn boolean_collectors_agree() {
    let (index, body, tag) = index();
    let searcher = index.reader().unwrap().searcher();
    let term = |text: &str| -> Box<dyn Query> {
        Box::new(TermQuery::new(
            Term::from_field_text(body, text),
            IndexRecordOption::WithFreqs,
        ))
    };
    let tag_term = |text: &str| -> Box<dyn Query> {
        Box::new(TermQuery::new(
            Term::from_field_text(tag, text),
            IndexRecordOption::Basic,
        ))
    };
    let mut failures = Vec::new();
    let leaves: Vec<(&str, Box<dyn Fn() -> Box<dyn Query>>)> = vec![
        ("a", Box::new(|| term("a"))),
        ("zz", Box::new(|| term("zz"))),
        ("tag", Box::new(|| tag_term("even"))),
        ("all", Box::new(|| Box::new(AllQuery))),
        ("empty", Box::new(|| Box::new(EmptyQuery))),
        (
            "a|b",
            Box::new(|| Box::new(BooleanQuery::union(vec![term("a"), term("b")]))),
        ),
        (
            "dismax",
            Box::new(|| {
                Box::new(DisjunctionMaxQuery::with_tie_breaker(
                    vec![term("a"), term("b"), term("c")],
                    0.3,
                ))
            }),
        ),
        (
            "dismax1",
            Box::new(|| Box::new(DisjunctionMaxQuery::new(vec![term("a")]))),
        ),
    ];
    for (name, leaf) in &leaves {
        check(&searcher, &*leaf(), name, &mut failures);
        for occur in [Occur::Must, Occur::Should, Occur::MustNot] {
            for min_match in 0..3usize {
                let query =
                    BooleanQuery::with_minimum_required_clauses(vec![(occur, leaf())], min_match);
                check(
                    &searcher,
                    &query,
                    &format!("single {occur:?} {name} min {min_match}"),
                    &mut failures,
                );
                // nested
                let nested = BooleanQuery::new(vec![
                    (Occur::Must, term("b")),
                    (Occur::Must, Box::new(query.clone())),
                ]);
                check(
                    &searcher,
                    &nested,
                    &format!("nested single {occur:?} {name} min {min_match}"),
                    &mut failures,
                );
            }
        }
        for (name2, leaf2) in &leaves {
            for occur in [Occur::Must, Occur::Should] {
                for occur2 in [Occur::Must, Occur::Should, Occur::MustNot] {
                    for min_match in 0..3usize {
                        let query = BooleanQuery::with_minimum_required_clauses(
                            vec![(occur, leaf()), (occur2, leaf2())],
                            min_match,
                        );
                        check(
                            &searcher,
                            &query,
                            &format!("{occur:?} {name} {occur2:?} {name2} min {min_match}"),
                            &mut failures,
                        );
                    }
                }
            }
        }
    }
    assert!(
        failures.is_empty(),
        "{} failures:\n{}",
        failures.len(),
        failures[..failures.len().min(40)].join("\n")
    );
}
