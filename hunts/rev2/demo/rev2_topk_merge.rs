//! 58a6265ac: TopDocs over several segments with many ties, against a brute force evaluation.
use tantivy::collector::TopDocs;
use tantivy::query::{AllQuery, Query, TermQuery};
use tantivy::schema::{IndexRecordOption, Schema, FAST, STRING, TEXT};
use tantivy::{doc, DocAddress, Index, IndexWriter, Order, Term};

struct Lcg(u64);
impl Lcg {
    fn next(&mut self) -> u64 {
        self.0 = self
            .0
            .wrapping_mul(6364136223846793005)
            .wrapping_add(1442695040888963407);
        self.0 >> 33
    }
}

#[test]
fn top_k_ties_across_segments() {
    let mut schema_builder = Schema::builder();
    let val = schema_builder.add_u64_field("val", FAST);
    let tag = schema_builder.add_text_field("tag", STRING);
    let body = schema_builder.add_text_field("body", TEXT);
    let index = Index::create_in_ram(schema_builder.build());
    let mut writer: IndexWriter = index.writer_with_num_threads(1, 50_000_000).unwrap();
    writer.set_merge_policy(Box::new(tantivy::merge_policy::NoMergePolicy));
    let mut rng = Lcg(7);
    for segment in 0..5 {
        let num_docs = 20 + segment * 13;
        for _ in 0..num_docs {
            let value = rng.next() % 4;
            let selected = if rng.next() % 3 == 0 { "yes" } else { "no" };
            let text = match rng.next() % 3 {
                0 => "hello",
                1 => "hello hello world",
                _ => "hello world",
            };
            writer
                .add_document(doc!(val => value, tag => selected, body => text))
                .unwrap();
        }
        writer.commit().unwrap();
    }
    writer
        .delete_term(Term::from_field_text(body, "zzz"));
    writer.commit().unwrap();
    let searcher = index.reader().unwrap().searcher();
    assert_eq!(searcher.segment_readers().len(), 5);

    let queries: Vec<Box<dyn Query>> = vec![
        Box::new(AllQuery),
        Box::new(TermQuery::new(
            Term::from_field_text(tag, "yes"),
            IndexRecordOption::Basic,
        )),
        Box::new(TermQuery::new(
            Term::from_field_text(body, "hello"),
            IndexRecordOption::WithFreqs,
        )),
    ];
    let mut failures = Vec::new();
    for (query_ord, query) in queries.iter().enumerate() {
        // reference
        let all: Vec<(Option<u64>, DocAddress)> = searcher
            .search(
                query,
                &TopDocs::with_limit(100_000).order_by_u64_field("val", Order::Desc),
            )
            .unwrap();
        for order in [Order::Desc, Order::Asc] {
            let mut expected = all.clone();
            expected.sort_by(|left, right| {
                let cmp = left.0.cmp(&right.0);
                let cmp = if matches!(order, Order::Desc) {
                    cmp.reverse()
                } else {
                    cmp
                };
                cmp.then(left.1.cmp(&right.1))
            });
            for limit in 1..40usize {
                for offset in [0usize, 1, 5, 12] {
                    let hits = searcher
                        .search(
                            query,
                            &TopDocs::with_limit(limit)
                                .and_offset(offset)
                                .order_by_u64_field("val", order.clone()),
                        )
                        .unwrap();
                    let expected_hits: Vec<_> =
                        expected.iter().skip(offset).take(limit).cloned().collect();
                    if hits != expected_hits {
                        failures.push(format!(
                            "query {query_ord} {order:?} limit {limit} offset {offset}"
                        ));
                    }
                }
            }
        }
        // by score
        let all_scores: Vec<(f32, DocAddress)> = searcher
            .search(query, &TopDocs::with_limit(100_000).order_by_score())
            .unwrap();
        let mut expected = all_scores.clone();
        expected.sort_by(|left, right| {
            right
                .0
                .partial_cmp(&left.0)
                .unwrap()
                .then(left.1.cmp(&right.1))
        });
        for limit in 1..40usize {
            for offset in [0usize, 1, 5, 12] {
                let hits = searcher
                    .search(
                        query,
                        &TopDocs::with_limit(limit).and_offset(offset).order_by_score(),
                    )
                    .unwrap();
                let expected_hits: Vec<_> =
                    expected.iter().skip(offset).take(limit).cloned().collect();
                if hits != expected_hits {
                    failures.push(format!("query {query_ord} score limit {limit} offset {offset}"));
                }
                let tweaked = searcher
                    .search(
                        query,
                        &TopDocs::with_limit(limit)
                            .and_offset(offset)
                            .tweak_score(|_segment_reader: &tantivy::SegmentReader| {
                                |_doc: u32, score: f32| score
                            }),
                    )
                    .unwrap();
                if tweaked != expected_hits {
                    failures.push(format!("query {query_ord} tweak limit {limit} offset {offset}"));
                }
            }
        }
    }
    assert!(failures.is_empty(), "{} failures: {:?}", failures.len(), &failures[..failures.len().min(20)]);
}
