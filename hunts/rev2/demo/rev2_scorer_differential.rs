//! c048691c7 / 8122e9cd4 / 062fc5c52 / 65e4f3920: scorers obtained through the public API, driven
//! with random mixes of advance / seek / fill_buffer, against the plain advance loop.
use tantivy::query::{
    BooleanQuery, DisjunctionMaxQuery, EnableScoring, Occur, PhraseQuery, Query, RegexQuery,
    TermQuery, TermSetQuery,
};
use tantivy::schema::{Field, IndexRecordOption, Schema, TEXT};
use tantivy::{doc, DocId, DocSet, Index, IndexWriter, Term, TERMINATED};

struct Lcg(u64);
impl Lcg {
    fn next(&mut self) -> u64 {
        self.0 = self
            .0
            .wrapping_mul(6364136223846793005)
            .wrapping_add(1442695040888963407);
        self.0 >> 33
    }
}

fn build_index() -> (Index, Field) {
    let mut schema_builder = Schema::builder();
    let text = schema_builder.add_text_field("text", TEXT);
    let index = Index::create_in_ram(schema_builder.build());
    let mut writer: IndexWriter = index.writer_with_num_threads(1, 100_000_000).unwrap();
    let mut rng = Lcg(1234);
    for doc_id in 0u32..20_000 {
        let mut body = String::new();
        // sparse and dense terms
        if rng.next() % 3 == 0 {
            body.push_str("a ");
        }
        if rng.next() % 50 == 0 {
            body.push_str("b b ");
        }
        if rng.next() % 700 == 0 {
            body.push_str("c ");
        }
        if doc_id % 4099 == 0 {
            body.push_str("d ");
        }
        if rng.next() % 20 == 0 {
            body.push_str("p q ");
        }
        if rng.next() % 20 == 0 {
            body.push_str("p x q ");
        }
        if rng.next() % 30 == 0 {
            body.push_str("p x r x q ");
        }
        if rng.next() % 30 == 0 {
            body.push_str("p r x q ");
        }
        if doc_id > 15_000 && doc_id < 15_100 {
            body.push_str("e ");
        }
        body.push_str("z");
        writer.add_document(doc!(text => body)).unwrap();
    }
    writer.commit().unwrap();
    (index, text)
}

fn reference(scorer: &mut Box<dyn tantivy::query::Scorer>) -> Vec<(DocId, f32)> {
    let mut res = Vec::new();
    let mut doc = scorer.doc();
    while doc != TERMINATED {
        res.push((doc, scorer.score()));
        doc = scorer.advance();
    }
    res
}

fn check_query(
    name: &str,
    query: &dyn Query,
    searcher: &tantivy::Searcher,
    scoring: bool,
    failures: &mut Vec<String>,
) {
    let enable_scoring = if scoring {
        EnableScoring::enabled_from_searcher(searcher)
    } else {
        EnableScoring::disabled_from_searcher(searcher)
    };
    let weight = query.weight(enable_scoring).unwrap();
    let reader = searcher.segment_reader(0);
    let expected = reference(&mut weight.scorer(reader, 1.0).unwrap());
    let expected_doc = |idx: usize| expected.get(idx).map(|(doc, _)| *doc).unwrap_or(TERMINATED);
    for seed in 0..60u64 {
        let mut rng = Lcg(seed * 7919 + 1);
        let mut scorer = weight.scorer(reader, 1.0).unwrap();
        let mut idx = 0usize; // index in expected of the current doc
        let mut trace = Vec::new();
        for _ in 0..400 {
            let op = rng.next() % 10;
            match op {
                0..=3 => {
                    let doc = scorer.advance();
                    if idx < expected.len() {
                        idx += 1;
                    }
                    trace.push("advance".to_string());
                    if doc != expected_doc(idx) {
                        failures.push(format!(
                            "{name} scoring={scoring} seed {seed}: advance returned {doc}, \
                             expected {} after {trace:?}",
                            expected_doc(idx)
                        ));
                        return;
                    }
                }
                4..=6 => {
                    let cur = expected_doc(idx);
                    let target = if cur == TERMINATED {
                        TERMINATED
                    } else {
                        let gap = match rng.next() % 4 {
                            0 => 0,
                            1 => rng.next() % 10,
                            2 => rng.next() % 5000,
                            _ => rng.next() % 200,
                        } as u32;
                        (cur + gap).min(TERMINATED)
                    };
                    let target = if rng.next() % 40 == 0 { TERMINATED } else { target };
                    let doc = scorer.seek(target);
                    while expected_doc(idx) < target {
                        idx += 1;
                    }
                    trace.push(format!("seek({target})"));
                    if doc != expected_doc(idx) {
                        failures.push(format!(
                            "{name} scoring={scoring} seed {seed}: seek({target}) returned {doc}, \
                             expected {} after {trace:?}",
                            expected_doc(idx)
                        ));
                        return;
                    }
                }
                _ => {
                    let mut buffer = [0u32; 64];
                    let len = scorer.fill_buffer(&mut buffer);
                    let expected_slice: Vec<DocId> = expected[idx.min(expected.len())..]
                        .iter()
                        .take(64)
                        .map(|(doc, _)| *doc)
                        .collect();
                    trace.push("fill_buffer".to_string());
                    if buffer[..len] != expected_slice[..] {
                        failures.push(format!(
                            "{name} scoring={scoring} seed {seed}: fill_buffer gave {:?}, \
                             expected {:?} after {trace:?}",
                            &buffer[..len],
                            expected_slice
                        ));
                        return;
                    }
                    idx = (idx + len).min(expected.len());
                }
            }
            let doc = scorer.doc();
            if doc != expected_doc(idx) {
                failures.push(format!(
                    "{name} scoring={scoring} seed {seed}: doc() = {doc}, expected {} after \
                     {trace:?}",
                    expected_doc(idx)
                ));
                return;
            }
            if doc != TERMINATED && scoring {
                let score = scorer.score();
                let expected_score = expected[idx].1;
                if (score - expected_score).abs() > 1e-5 * expected_score.abs().max(1.0) {
                    failures.push(format!(
                        "{name} seed {seed}: doc {doc} score {score}, expected {expected_score} \
                         after {trace:?}"
                    ));
                    return;
                }
            }
        }
    }
}

#[test]
fn scorers_differential() {
    let (index, text) = build_index();
    let searcher = index.reader().unwrap().searcher();
    assert_eq!(searcher.segment_readers().len(), 1);
    let term = |word: &str| -> Box<dyn Query> {
        Box::new(TermQuery::new(
            Term::from_field_text(text, word),
            IndexRecordOption::WithFreqs,
        ))
    };
    let phrase = |words: &[&str], slop: u32| -> Box<dyn Query> {
        let mut query = PhraseQuery::new(
            words
                .iter()
                .map(|word| Term::from_field_text(text, word))
                .collect(),
        );
        query.set_slop(slop);
        Box::new(query)
    };
    let union = |queries: Vec<Box<dyn Query>>| -> Box<dyn Query> {
        Box::new(BooleanQuery::union(queries))
    };
    let queries: Vec<(&str, Box<dyn Query>)> = vec![
        ("a|b", union(vec![term("a"), term("b")])),
        ("b|c|d", union(vec![term("b"), term("c"), term("d")])),
        ("c|d|e", union(vec![term("c"), term("d"), term("e")])),
        ("b|'p q'", union(vec![term("b"), phrase(&["p", "q"], 0)])),
        ("'p q'|c", union(vec![phrase(&["p", "q"], 0), term("c")])),
        (
            "+b +(c|'p q')",
            Box::new(BooleanQuery::new(vec![
                (Occur::Must, term("b")),
                (Occur::Must, union(vec![term("c"), phrase(&["p", "q"], 0)])),
            ])),
        ),
        (
            "+c +(d|'p q'~2|b)",
            Box::new(BooleanQuery::new(vec![
                (Occur::Must, term("c")),
                (
                    Occur::Must,
                    union(vec![term("d"), phrase(&["p", "q"], 2), term("b")]),
                ),
            ])),
        ),
        (
            "+d +(c|a)",
            Box::new(BooleanQuery::new(vec![
                (Occur::Must, term("d")),
                (Occur::Must, union(vec![term("c"), term("a")])),
            ])),
        ),
        ("'p x q'~1", phrase(&["p", "x", "q"], 1)),
        ("'p r q'~1", phrase(&["p", "r", "q"], 1)),
        ("'p r q'~2", phrase(&["p", "r", "q"], 2)),
        ("'p x q'~3", phrase(&["p", "x", "q"], 3)),
        (
            "dismax",
            Box::new(DisjunctionMaxQuery::with_tie_breaker(
                vec![term("a"), term("b"), term("c")],
                0.5,
            )),
        ),
        (
            "regex",
            Box::new(RegexQuery::from_pattern("[bcd]", text).unwrap()),
        ),
        (
            "termset",
            Box::new(TermSetQuery::new(vec![
                Term::from_field_text(text, "c"),
                Term::from_field_text(text, "e"),
            ])),
        ),
        (
            "b|regex",
            union(vec![
                term("b"),
                Box::new(RegexQuery::from_pattern("[cd]", text).unwrap()),
            ]),
        ),
        (
            "+e +regex",
            Box::new(BooleanQuery::new(vec![
                (Occur::Must, term("a")),
                (
                    Occur::Must,
                    Box::new(RegexQuery::from_pattern("[e]", text).unwrap()),
                ),
            ])),
        ),
    ];
    let mut failures = Vec::new();
    for (name, query) in &queries {
        for scoring in [true, false] {
            let mut query_failures = Vec::new();
            let res = std::panic::catch_unwind(std::panic::AssertUnwindSafe(|| {
                check_query(name, &**query, &searcher, scoring, &mut query_failures);
            }));
            failures.append(&mut query_failures);
            if let Err(panic) = res {
                let message = panic
                    .downcast_ref::<String>()
                    .cloned()
                    .or_else(|| panic.downcast_ref::<&str>().map(|msg| msg.to_string()))
                    .unwrap_or_default();
                failures.push(format!("{name} scoring={scoring}: PANIC {message}"));
            }
        }
    }
    // Sloppy phrases: same docs with and without scoring.
    for (name, query) in &queries {
        let with_scoring: Vec<DocId> = reference(
            &mut query
                .weight(EnableScoring::enabled_from_searcher(&searcher))
                .unwrap()
                .scorer(searcher.segment_reader(0), 1.0)
                .unwrap(),
        )
        .into_iter()
        .map(|(doc, _)| doc)
        .collect();
        let without_scoring: Vec<DocId> = reference(
            &mut query
                .weight(EnableScoring::disabled_from_searcher(&searcher))
                .unwrap()
                .scorer(searcher.segment_reader(0), 1.0)
                .unwrap(),
        )
        .into_iter()
        .map(|(doc, _)| doc)
        .collect();
        if with_scoring != without_scoring {
            failures.push(format!(
                "{name}: {} docs with scoring, {} without",
                with_scoring.len(),
                without_scoring.len()
            ));
        }
    }
    assert!(
        failures.is_empty(),
        "{} failures:\n{}",
        failures.len(),
        failures
            .iter()
            .map(|failure| failure.chars().take(1500).collect::<String>())
            .collect::<Vec<_>>()
            .join("\n")
    );
}
