//! 8122e9cd4: the children that missed are restored with `seek_danger(target + 1)`. A child
//! that answered `SeekLowerBound` may already stand beyond `target + 1` (a PhraseScorer reports
//! the doc of its leading term): PhraseScorer::seek_danger then trips its
//! `debug_assert!(target >= self.doc())`. Before the fix such a child was left alone.
use tantivy::collector::{Count, DocSetCollector};
use tantivy::query::{BooleanQuery, Occur, PhraseQuery, Query, TermQuery};
use tantivy::schema::{IndexRecordOption, Schema, TEXT};
use tantivy::{doc, Index, IndexWriter, Term};

fn build_index(last_doc_body: &'static str) -> (Index, tantivy::schema::Field) {
    let mut schema_builder = Schema::builder();
    let text = schema_builder.add_text_field("text", TEXT);
    let index = Index::create_in_ram(schema_builder.build());
    let mut writer: IndexWriter = index.writer_with_num_threads(1, 50_000_000).unwrap();
    for doc_id in 0u32..6000 {
        let body = match doc_id {
            0 => "x a p q",
            1..=20 => "q",
            21..=200 => "a",
            4500 => "p q",
            5000 => "x a",
            5002 => last_doc_body,
            _ => "z",
        };
        writer.add_document(doc!(text => body)).unwrap();
    }
    writer.commit().unwrap();
    (index, text)
}

fn query(field: tantivy::schema::Field) -> BooleanQuery {
    let term_query = |text: &str| -> Box<dyn Query> {
        Box::new(TermQuery::new(
            Term::from_field_text(field, text),
            IndexRecordOption::WithFreqs,
        ))
    };
    let phrase: Box<dyn Query> = Box::new(PhraseQuery::new(vec![
        Term::from_field_text(field, "p"),
        Term::from_field_text(field, "q"),
    ]));
    // +x +("p q" a)
    let should = BooleanQuery::new(vec![
        (Occur::Should, phrase),
        (Occur::Should, term_query("a")),
    ]);
    BooleanQuery::new(vec![
        (Occur::Must, term_query("x")),
        (Occur::Must, Box::new(should)),
    ])
}

#[test]
fn restoring_a_missed_phrase_scorer_does_not_panic() {
    let (index, text) = build_index("x p q");
    let searcher = index.reader().unwrap().searcher();
    let query = query(text);
    let mut docs: Vec<u32> = searcher
        .search(&query, &DocSetCollector)
        .unwrap()
        .into_iter()
        .map(|addr| addr.doc_id)
        .collect();
    docs.sort();
    assert_eq!(docs, vec![0, 5000, 5002]);
    assert_eq!(searcher.search(&query, &Count).unwrap(), 3);
}
