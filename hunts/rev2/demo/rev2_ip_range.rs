//! c574201bb: IP range queries over fast fields, all the combinations of bounds against a
//! brute force evaluation.
use std::net::Ipv6Addr;
use std::ops::Bound;

use tantivy::collector::{Count, DocSetCollector};
use tantivy::query::RangeQuery;
use tantivy::schema::{Schema, FAST, INDEXED, STORED};
use tantivy::{doc, Index, IndexWriter, Term};

fn contains(lower: &Bound<u128>, upper: &Bound<u128>, val: u128) -> bool {
    let lower_ok = match lower {
        Bound::Included(bound) => val >= *bound,
        Bound::Excluded(bound) => val > *bound,
        Bound::Unbounded => true,
    };
    let upper_ok = match upper {
        Bound::Included(bound) => val <= *bound,
        Bound::Excluded(bound) => val < *bound,
        Bound::Unbounded => true,
    };
    lower_ok && upper_ok
}

fn run(values: &[u128], fast: bool) {
    let mut schema_builder = Schema::builder();
    let ip = if fast {
        schema_builder.add_ip_addr_field("ip", FAST | STORED)
    } else {
        schema_builder.add_ip_addr_field("ip", INDEXED | STORED)
    };
    let index = Index::create_in_ram(schema_builder.build());
    let mut writer: IndexWriter = index.writer_with_num_threads(1, 50_000_000).unwrap();
    for &val in values {
        writer
            .add_document(doc!(ip => Ipv6Addr::from(val)))
            .unwrap();
    }
    writer.commit().unwrap();
    let searcher = index.reader().unwrap().searcher();

    let mut points: Vec<u128> = vec![0, 1, 2, u128::MAX, u128::MAX - 1, u128::MAX - 2];
    for &val in values {
        points.push(val);
        points.push(val.saturating_add(1));
        points.push(val.saturating_sub(1));
    }
    points.sort();
    points.dedup();
    let mut bounds: Vec<Bound<u128>> = vec![Bound::Unbounded];
    for &point in &points {
        bounds.push(Bound::Included(point));
        bounds.push(Bound::Excluded(point));
    }
    let mut failures = Vec::new();
    for lower in &bounds {
        for upper in &bounds {
            if matches!(lower, Bound::Unbounded) && matches!(upper, Bound::Unbounded) {
                continue;
            }
            let to_term = |bound: &Bound<u128>| match bound {
                Bound::Included(val) => {
                    Bound::Included(Term::from_field_ip_addr(ip, Ipv6Addr::from(*val)))
                }
                Bound::Excluded(val) => {
                    Bound::Excluded(Term::from_field_ip_addr(ip, Ipv6Addr::from(*val)))
                }
                Bound::Unbounded => Bound::Unbounded,
            };
            let query = RangeQuery::new(to_term(lower), to_term(upper));
            let expected = values
                .iter()
                .filter(|val| contains(lower, upper, **val))
                .count();
            let res = std::panic::catch_unwind(std::panic::AssertUnwindSafe(|| {
                let count = searcher.search(&query, &Count).unwrap();
                let docs = searcher.search(&query, &DocSetCollector).unwrap();
                (count, docs.len())
            }));
            match res {
                Ok((count, num_docs)) => {
                    if count != expected || num_docs != expected {
                        failures.push(format!(
                            "{lower:?} .. {upper:?}: expected {expected}, count {count}, docset \
                             {num_docs}"
                        ));
                    }
                }
                Err(_) => failures.push(format!("{lower:?} .. {upper:?}: panicked")),
            }
        }
    }
    assert!(
        failures.is_empty(),
        "{} failures (fast={fast}), first ones:\n{}",
        failures.len(),
        failures
            .iter()
            .take(15)
            .cloned()
            .collect::<Vec<_>>()
            .join("\n")
    );
}

#[test]
fn ip_range_fast_extremes() {
    run(&[0, 5, 1000, u128::MAX - 7, u128::MAX], true);
}

#[test]
fn ip_range_fast_middle() {
    run(&[10, 11, 12, 1 << 64, (1 << 64) + 1, 1 << 100], true);
}

#[test]
fn ip_range_fast_single_value() {
    run(&[77, 77, 77], true);
}

#[test]
fn ip_range_indexed_extremes() {
    run(&[0, 5, 1000, u128::MAX - 7, u128::MAX], false);
}
